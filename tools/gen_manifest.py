"""Regenerate MANIFEST.json from the table below (single source of truth for the interface)."""
import json, os
V = os.path.dirname(os.path.dirname(os.path.abspath(__file__)))
from manifest_table import CHECKS, NOT_APPLICABLE, NOTES
props = [json.loads(l)["id"] for l in open(f"{V}/properties.jsonl")]
checks = []
for pid in props:
    if pid not in CHECKS:
        continue
    c = CHECKS[pid]
    checks.append({
        "property_id": pid,
        "quick_cmd": f"./check {pid} --tier quick",
        "thorough_cmd": f"./check {pid} --tier thorough",
        "evidence_file": f"/verif/evidence/{pid}.json",
        "replay_cmd_template": f"./check {pid} --replay {{path}}",
        "engine": "SX",
        "level_claimed": {"category": "model_checking", "text": c["text"], "design_ref": c.get("design_ref", f"DESIGN.md section 4, {pid}")},
        "level_note": c["note"],
        "technique": c["technique"],
    })
na = [{"property_id": p, "reason": NOT_APPLICABLE[p]} for p in props if p not in CHECKS]
m = {
    "version": 1,
    "setup_cmd": "./setup.sh",
    "hooks": {"guard": "BLUEBONNET_VERIF", "enable": "no source hooks: the engine loads /repo/src working-tree source itself and substitutes library names in the loaded namespace", "baseline_off_cmd": "cd /repo && /venv/bin/python -m pytest -ra -q -p no:cacheprovider --timeout=900 --continue-on-collection-errors", "source_commits": [], "add_only": True},
    "engines": [{"name": "SX", "path": "/verif/bbverif", "serves_properties": [c["property_id"] for c in checks],
                 "kind_free_text": "symbolic execution of the repository's own Python source (AST-loaded with exact literals, library names rebound to symbolic shims / contract stubs) producing canonical real-arithmetic terms; z3 decides each obligation over all inputs within stated bounds; counterexamples are replayed on the real code with the real libraries"}],
    "checks": checks,
    "notes": NOTES,
    "not_applicable": na,
}
json.dump(m, open(f"{V}/MANIFEST.json", "w"), indent=1)
print("wrote MANIFEST.json:", len(checks), "checks,", len(na), "not applicable")
