#!/bin/sh
# tools/proc_seed.sh <worktree> <ID> [<ID>...] - normalise the worktree to its own patch.diff, then run the checks on it
W="$1"; shift
(cd "$W" && git checkout -q -- src && git apply patch.diff && echo "$(basename $W): $(git diff --stat -- src | tail -1)") || exit 2
COLS=${COLS:-260} LINES_MAX=${LINES_MAX:-3} /verif/tools/try_wt.sh "$W" "$@"
