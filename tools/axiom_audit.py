"""tools/axiom_audit.py [samples] [parallel] - run every check (quick tier, /repo) with the soundness audit of the lowering's
own constraints enabled (bbverif/sx/audit.py) and summarise: any line UNSOUND-AXIOM means an `unsat` of the engine cannot be
trusted until the fact is corrected.  Evidence of the run is written to /verif/audit/axiom_audit.json."""
import json, os, subprocess, sys, tempfile, time
from concurrent.futures import ThreadPoolExecutor
V = os.path.dirname(os.path.dirname(os.path.abspath(__file__)))
samples = sys.argv[1] if len(sys.argv) > 1 else "12"
par = int(sys.argv[2]) if len(sys.argv) > 2 else 4
tmp = tempfile.mkdtemp(prefix="bbverif-audit.")


def one(pid):
    log = f"{tmp}/{pid}.log"
    out = f"{tmp}/out-{pid}"
    env = dict(os.environ, BBVERIF_AXIOM_AUDIT=samples, BBVERIF_AXIOM_AUDIT_LOG=log, BBVERIF_OUT=out, BBVERIF_BUDGET_S="3000")
    t0 = time.time()
    r = subprocess.run([f"{V}/check", pid, "--tier", "quick"], capture_output=True, text=True, cwd=V, env=env)
    q = a = e = 0
    bad = []
    if os.path.exists(log):
        for ln in open(log):
            if ln.startswith("audited"):
                f = dict(kv.split("=") for kv in ln.split()[1:])
                q += 1
                a += int(f["assignments"])
                e += int(f["evaluations"])
            elif ln.startswith("UNSOUND-AXIOM"):
                bad.append(ln.strip()[:400])
    return pid, {"check_exit": r.returncode, "queries_audited": q, "assignments": a, "constraint_evaluations": e, "unsound": bad[:5], "seconds": round(time.time() - t0, 1)}


with ThreadPoolExecutor(par) as ex:
    res = dict(ex.map(one, [f"C{i:02d}" for i in range(1, 21)]))
tot = {k: sum(v[k] for v in res.values()) for k in ("queries_audited", "assignments", "constraint_evaluations")}
nbad = sum(len(v["unsound"]) for v in res.values())
json.dump({"what": "numerical audit of every constraint the lowering adds on its own account (definitions of atoms, instances of laws of exp / ln): "
                   "each must be true for every real assignment in which unguarded logarithms are defined; evaluated on random assignments with a relative "
                   "tolerance (closer than 1e-7: undecided, never a failure)", "samples_per_query": int(samples), "totals": tot, "unsound_constraints": nbad, "per_check": res},
          open(f"{V}/audit/axiom_audit.json", "w"), indent=1)
for pid, v in res.items():
    print(pid, v["check_exit"], v["queries_audited"], v["constraint_evaluations"], len(v["unsound"]), f'{v["seconds"]}s')
    for b in v["unsound"]:
        print("   ", b)
print("TOTAL", tot, "unsound:", nbad)
subprocess.run(["rm", "-rf", tmp])
sys.exit(1 if nbad else 0)
