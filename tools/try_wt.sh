#!/bin/sh
# tools/try_wt.sh <tree> <ID> [<ID> ...]  - run checks against another checkout (a scratch worktree carrying a
# seeded change) without touching /repo or the committed evidence.  TIER=quick|thorough.
W="$1"; shift
OUT="$(mktemp -d /tmp/bbverif-out.XXXXXX)"
for id in "$@"; do
  echo "=== $id on $W"
  BBVERIF_REPO="$W" BBVERIF_OUT="$OUT" /verif/check "$id" --tier "${TIER:-quick}" > "$OUT/$id.log" 2>&1
  rc=$?
  cut -c1-${COLS:-400} "$OUT/$id.log" | grep -E "VIOLATION|obligation|HARNESS-ERROR|KNOWN|^\[" | head -${LINES_MAX:-12}
  echo "exit=$rc"
done
[ -n "$KEEP" ] && echo "out: $OUT" || rm -rf "$OUT"
