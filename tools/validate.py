"""Validate MANIFEST.json and evidence files against the schemas in /root/.vp."""
import json, sys, glob, os
import jsonschema
V = os.path.dirname(os.path.dirname(os.path.abspath(__file__)))
ok = True
m = json.load(open(f"{V}/MANIFEST.json"))
jsonschema.validate(m, json.load(open("/root/.vp/MANIFEST.schema.json")))
props = [json.loads(l)["id"] for l in open(f"{V}/properties.jsonl")]
claimed = [c["property_id"] for c in m["checks"]]
na = [c["property_id"] for c in m.get("not_applicable", [])]
for p in props:
    if (p in claimed) == (p in na):
        print("property", p, "must be exactly one of claimed / not_applicable"); ok = False
es = json.load(open("/root/.vp/EVIDENCE.schema.json"))
for f in sorted(glob.glob(f"{V}/evidence/*.json")):
    try:
        jsonschema.validate(json.load(open(f)), es)
    except Exception as e:
        print("INVALID", f, str(e)[:300]); ok = False
print("manifest ok; claimed", claimed, "n/a", na) if ok else None
sys.exit(0 if ok else 1)
