#!/bin/sh
# tools/run_all.sh [quick|thorough] [parallelism]  - every check against /repo, summary lines only
TIER="${1:-quick}"; PAR="${2:-4}"
cd /verif || exit 2
mkdir -p /tmp/bbverif-logs
seq -f "C%02g" 1 20 | xargs -P "$PAR" -I{} sh -c "/usr/bin/time -f '%es {}' ./check {} --tier $TIER > /tmp/bbverif-logs/{}.$TIER.log 2>&1; echo \"{} exit=\$?\" >> /tmp/bbverif-logs/{}.$TIER.log"
for i in $(seq -f "C%02g" 1 20); do grep -E "^\[C|exit=|HARNESS|VIOLATION|KNOWN" /tmp/bbverif-logs/$i.$TIER.log | cut -c1-260; done
