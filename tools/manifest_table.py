NOTES = ("Solver-based checking of the real code. Every verdict is z3's over all inputs within the bounds printed in "
         "the evidence; sat answers are replayed on the unmodified repository code with the real libraries before "
         "being reported; unknown/timeouts exit 3 (never success). See DESIGN.md.")
PENDING = "check under construction in this session (engine exists; harness not yet committed)"
CHECKS = {
 "C13": dict(
   technique="symbolic execution of parent and derivative functions + symbolic differentiation + z3 (QF_NRA, exp/ln axioms)",
   text="Bounded symbolic model checking: the parent's own source is executed on symbolic inputs, differentiated exactly, and z3 shows no input in the stated parameter box makes the hand-coded derivative differ by more than 1e-9 relative; both sides of the bubble point are separate paths; the assembly of oil_compressibility_Standing is checked against its defining combination with library calls as uninterpreted recording stubs and with the library's own functions.",
   note="Real arithmetic (no rounding); exp/ln abstracted by uninterpreted symbols with instantiated true axioms (unsat transfers); parameter box T 80..350 F, API 12..55, gas gravity 0.56..1.3, GOR 20..2500, p 15..20000 psia, water T 60..400 F; b_factor_DAK and Spivey compressibility are uninterpreted in the c_o assembly."),
 "C06": dict(
   technique="symbolic execution of z_factor_DAK with the root finder as a contract stub + z3; reference-with-deviation for the known coefficient finding",
   text="Bounded symbolic model checking of gas.z_factor_DAK: the closure the code hands to its root finder is captured by a contract stub (r in [a,b], f(r)=0) and z3 shows that, for every (T_r, p_r) in the validity rectangle and every root the contract allows, the returned Z satisfies the Dranchuk-Abou-Kassem residual (published form: open known finding on the first coefficient, re-confirmed concretely on each run; published form with exactly that deviation: must hold) and equals 0.27 p_r/(rho T_r). If the code minimises an objective instead, the objective is compared with |F/F'| of the reference and the optimiser's contract is shown not to imply a root, replayed on the real optimiser.",
   note="Real arithmetic; exp abstracted with instantiated true axioms; the root finder is trusted to meet its contract (exact root modelled; xtol/rtol recorded); whether the sign-change precondition can fail inside the rectangle is attempted and reported as undecided when z3 answers unknown; continuity in p, Z->1 and Hall-Yarbrough are outside the claim (DESIGN.md section 5)."),
 "C07": dict(
   technique="symbolic execution + implicit symbolic differentiation of the library's own EOS closure + z3 / rational normal form",
   text="Bounded symbolic model checking: density_DAK = pM/(ZRT) and density*Bg independent of pressure with Z an uninterpreted function (argument lists checked); compressibility_DAK equals the logarithmic pressure-derivative of the density implied by z_factor_DAK's own residual closure (implicit differentiation, state parametrised by reduced density; open known finding, plus the same obligation against the published EOS which must hold); viscosity_Sutton positive and increasing in the density it is fed (two-point); oil and water density*FVF identities with the library's own calls.",
   note="Real arithmetic; exp/ln abstracted with instantiated true axioms; 'viscosity increases with pressure' is decided only as 'increases with density' (c_g>0 over the rectangle is assumed, a transcendental sign claim); boxes: T 60..400 F, 1.05<=T_r<=3, p_r<=30, Z in [0.05,5], gas gravity 0.55..1.2, rho 0.001..40 lb/ft3, oil box as C13, salinity 0..25 wt%."),
 "C12": dict(
   technique="symbolic execution of both bubble-point branches + substitution at p_b + two-point queries in z3 (exp/ln axioms)",
   text="Bounded symbolic model checking of the Standing / Beggs-Robinson correlations: each branch's term re-evaluated at p = p_b gives the same value for R_s, B_o, density and viscosity (continuity); R_s = R_si at/above p_b, non-decreasing in p across all three orderings of two pressures around p_b, and p_b(R_s(p)) = p below p_b; B_o increasing below p_b and B_o(p) <= B_o(p_b) above it for positive undersaturated compressibility; viscosity positive on both sides - for every input of the stated box.",
   note="Real arithmetic; exp/ln/real powers abstracted with instantiated true axioms (unsat transfers); box T 80..350 F, API 12..55, gas gravity 0.56..1.3, GOR 20..2500, p_b > 50, p 15..2.5 p_b; Spivey compressibility is a positive uninterpreted function (its positivity, the strict fall of B_o above p_b and the fall of viscosity below p_b are transcendental sign claims outside the claim, DESIGN.md section 5)."),
 "C14": dict(
   technique="symbolic execution on symbolic record arrays + z3 (polynomial powers exact, fractional exponent via exp/ln with nan as a definedness condition)",
   text="Bounded symbolic model checking of relative_permeabilities and relative_permeabilities_twophase: for every admissible parameter set (integer exponents exactly; a symbolic real exponent in [1,6] per phase) and every pair of saturation records on the simplex, each k_r is finite, in [0, k_max], 0 at or below residual and non-decreasing in its own saturation; every individual out-of-range parameter and off-simplex saturation leaves only raising paths; the two-phase helper returns rows summing to one with k_rw = 0 and rejects S_w above connate.",
   note="Real arithmetic; numpy's nan for a negative base under a non-integer power is modelled as a definedness condition that must be unsat; 2 saturation records (two-point monotonicity); quick tier exponents 1,2,3 and fractional, thorough 1..6, mixed and fractional; pandas containers are exact column models."),
 "C15": dict(
   technique="symbolic execution over a symbolic N-row grid with uninterpreted PVT/rel-perm interpolators + z3; exact piecewise-linear interp1d model for the wrapper",
   text="Bounded symbolic model checking: pseudopressure_threephase equals, row by row, the trapezoid rule of the documented total mass mobility on the same (arbitrary, non-uniform) grid, is 0 at the first row, strictly increasing for positive mobility and homogeneous of degree one in the reference densities, for all tables (interpolators uninterpreted); FlowPropertiesTwoPhase.from_table hands exactly that computed array and the computed diffusivity to the wrapper, its interpolators reproduce the table, and for any array that is 0 first and increasing the stored scaled pseudopressure is strictly increasing, 1 at a node p_i and maps a lower frac-face pressure into [0,1).",
   note="Real arithmetic; grid sizes 3 (quick) to 5 (thorough) rows, table 3 rows, rel-perm table 2 rows; p_i is a table node beyond the first interval (in the first interval 1/pseudopressure[0] is infinite: stated bound); the from_table step composes with the pp[n] obligations through a recording stub (0 first, strictly increasing)."),
 "C16": dict(
   technique="symbolic execution with uninterpreted table functions + z3 / canonical-form identity",
   text="Bounded symbolic model checking: compressibility_combined_func equals the documented storage function differenced over +-0.5 psi, vanishes when the five table functions take equal values at p+-0.5, and is proportional to porosity; lambda_combined_func equals the documented mobility sum; alpha_multiphase * c = lambda - for every table (interpolators are uninterpreted positive functions), every state (p, S_o, S_w) and positive reference densities.",
   note="Real arithmetic; the documentation's gas storage term S_g/b_o is read as S_g/B_g (typo, as in its three-phase section); scalar state (array broadcasting is numpy's); the central difference is over exactly +-0.5 psi as coded and documented."),
 "C09": dict(
   technique="symbolic execution on symbolic N-row tables with an exact piecewise-linear interp1d model + z3; exhaustive enumeration of column subsets; effect check for non-mutation",
   text="Bounded symbolic model checking of FlowProperties (both branches, dict and DataFrame input), FlowPropertiesSimple and rescale_pseudopressure on a symbolic table (pressure and pseudopressure strictly increasing, other columns positive): m_scaled_func strictly increasing (two-point), m_i = m_scaled_func(p_i), alpha nodes = 1/(c mu), alpha(q) positive and within the table's range for every real q, user-alpha branch m_i = 1 at nodes, >= 1 and within the chord bound between them, rescale maps p_frac to 0 and p_i to 1, error iff p_i is outside the table, all 64+8 column subsets raise iff a required column is missing, and the caller's table (keys, array objects, elements) is untouched on every path.",
   note="Real arithmetic; table size 3 rows (quick) to 5 (thorough: z3's reach, N=6 unknown at design time); interp1d is modelled exactly (validated against scipy on every run); DataFrame non-mutation rests on SymFrame.copy modelling pandas' copy; warnings are real."),
 "C08": dict(
   technique="symbolic execution with quad as a recording contract stub and gas correlations as uninterpreted functions + z3",
   text="Bounded symbolic model checking: pseudopressure_Hussainy hands QUADPACK exactly the integrand 2p/(mu Z) built from the library's own viscosity_Sutton and z_factor_DAK at the caller's temperature, pseudocriticals and gravity, with limits (standard pressure, p), and returns the integral (hence zero at the reference pressure, additive and increasing under quad's contract and the proved positivity of the integrand); build_pvt_gas()['pseudopressure'] and fluids.pseudopressure on the same columns are equal row by row, equal the trapezoid rule of the same integrand, start at 0, are strictly increasing and each increment depends only on its own interval, for all positive (p, mu, Z) tables of the stated size.",
   note="Real arithmetic; quad is trusted to meet its contract; the size of the difference between adaptive quadrature and the 10-psi trapezoid rule ('to quadrature accuracy') is an error-constant claim outside the solver's reach (DESIGN.md section 5); rows 3 (quick) to 5 (thorough); builder maximum pressure 45/75 psi."),
 "C19": dict(
   technique="symbolic execution with stand-alone correlations as uninterpreted recording functions + z3 / canonical identity; library's own Sutton code symbolic; CrossHair (symbolic str) for the gas-type rejection",
   text="Bounded symbolic model checking: every Fluid method returns, element-wise on a length-2 pressure array, the uninterpreted stand-alone correlation applied to exactly the object's temperature, gravities, GOR, salinity (distinct symbols, so a swapped or dropped argument is a different term); every row of build_pvt_gas equals the correlations at (T, p_row, T_pc, p_pc[, gravity]) with the symbolic result of the library's own pseudocritical_point_Sutton on the supplied composition, on the grid 10,20,... below the maximum; Sutton reduces to the hydrocarbon-only formulas without contaminants, is unchanged by a zero-fraction extra component, and rejects an unknown fluid type.",
   note="Real arithmetic; real powers through exp/ln axioms (H2S fraction > 0.0001 in the extra-component obligation so that its real powers are defined); array length 2; maximum pressures 45 (quick), 50, 75 (thorough); pandas containers are exact column models."),
 "C11": dict(
   technique="symbolic execution on dtype-tagged symbolic arrays (path split per mask element) + z3 for element equality; structural facts checked on every path",
   text="Bounded symbolic model checking of every array-accepting correlation (oil FVF, solution GOR, Spivey compressibility, five water correlations, four Fluid methods): for dtype float64/float32/int64/int32, length 0,1,2 (3 thorough) and every combination of elements at/above and below the bubble point, the result has a floating dtype and the input's shape, contains no uninitialised element, the input array is untouched, no exception is raised, and each element equals the scalar call on that element for all element values and fluid parameters in the box.",
   note="Real arithmetic with dtype tags: empty_like/full_like inherit the dtype, stores into integer arrays truncate (uninterpreted trunc), np.vectorize without otypes rejects size-0 input, integer/float promotion as numpy; binary32 per-operation rounding and integer overflow are not modelled (tolerance 1e-5 for float32); strided / non-contiguous inputs are outside the model (memory layout is not modelled) - stated in DESIGN.md section 5."),
 "C01": dict(
   technique="symbolic execution of the real time loop with a havoc'd previous level (inductive step) + z3 (QF_NRA, Ackermannised diffusivity, positive-monomial abstraction)",
   text="Bounded symbolic model checking: both simulate methods run on symbolic time grids, frac-face schedules and an uninterpreted positive diffusivity; with the linear solve idealised, z3 proves for each nx that (base) the first level from the real initial state and (step) the successor of an arbitrary level inside [lowest frac-face value so far, initial value] stay inside those bounds - induction covers every number of steps and every time grid; the same for 'non-decreasing away from the fracture' under constant drawdown; nodes beyond the first do not rise over the first two steps; the only fixed point of one step inside the bounds is the frac-face value for any step size; the assembled matrix is a tridiagonal M-matrix with unit row sums except the frac-face row.",
   note="nx 3..6 quick, up to 16 thorough (induction over time is unbounded, space is bounded; the M-matrix obligation up to nx=20 supports the textbook extension to every nx); exact real arithmetic, the linear solve is ideal (its slack is C04); time-monotonicity only for the first two steps (the one-step invariant is not inductive); fluid is the FlowProperties contract stub that C09 establishes."),
 "C04": dict(
   technique="symbolic execution with a capturing linear-solve stub: affine row identity (canonical form / z3), scalar tolerance query, path exploration of the failure flag; replay incl. adversary stage",
   text="Bounded symbolic model checking: for every step of runs on arbitrary non-uniform time grids with every level havoc'd, rows 1..nx-1 of the system handed to the linear solver are exactly the backward-Euler rows of the previous level (time increment of that step, diffusivity at the previous level, mirror ghost at the outer node, one mesh constant for the whole run); the tolerance the solver call may leave is at rounding level for every right-hand-side norm (direct solves: by contract); on every path where the solver reports info != 0 simulate does not complete normally.",
   note="nx 3..5, 3 steps quick; up to 10, 4 steps thorough; 'rounding level' = 1e-9 relative + 1e-11 absolute; scipy defaults read from the installed scipy at run time; spsolve/bicgstab trusted to meet their contracts; violations of the tolerance/flag obligations are replayed on fine grids (nx 30..200) and with an adversarial solver."),
 "C10": dict(
   technique="exhaustive enumeration of call histories, each executed symbolically (symbolic grids, memoised ideal solve); observables compared with a fresh object by canonical-term identity, else z3",
   text="Bounded symbolic model checking over histories: every call sequence up to length 4 (quick; 5 thorough) over {simulate(A), simulate(B same length), simulate(C other length), recovery_factor(), recovery_factor(density=True), recovery_factor_interpolator()} is executed on one object with symbolic time grids; the stored times and field, the value returned by the last call (or the exception type) and the interpolator at a symbolic time equal those of a fresh object that ran only the latest simulate and the recovery calls after it - for all grid values.",
   note="nx=3, grids of length 3,3,2 with symbolic values; both reservoir classes (density mode only where a fluid table exists); the linear solve is ideal and memoised on the syntactic system (the real routine is deterministic); simulate(schedule) is not in the property's operation set: 'None means no change' is the documented behaviour of the stored schedule."),
 "C17": dict(
   technique="relational symbolic execution of two runs (memoised ideal solve) + canonical-term identity / z3; error paths by path exploration; exact interp1d model",
   text="Bounded symbolic model checking: a run on times t and one on t+s (symbolic s) produce identical pseudopressure fields and recovery; a constant schedule equals the scalar setting; schedules of another length leave only ValueError paths; recovery_factor / recovery_factor_interpolator before simulate leave only RuntimeError paths; the interpolator reproduces recovery at the simulated times, is 0 before the first and the final recovery after the last time, for every query time; recovery starts at 0.",
   note="nx 3..4, nt 3 quick; up to nx 6, nt 5 thorough; ideal linear solve (time-shift changes of rounding are C04's subject); both classes."),
 "C02": dict(
   technique="symbolic execution with the linear solve returning samples of polynomial test functions (consistency lemmas: polynomial exactness, boundary-row ghost identities) + z3 / canonical identity; stability from C01",
   text="Bounded symbolic model checking of the scheme's consistency with the documented boundary-value problem: on systems captured from the real simulate methods, interior rows are exact for every test function cubic in x and linear in t with an arbitrary per-node diffusivity on the code's own mesh width (first order in time, second order in space); the frac-face row is the interior row with the documented ghost value (0 ideal; m_f single phase, so m_f <= x_0 <= (m_f+x_1)/2); the initial state is uniform; the recovery is FVF scale times the trapezoid-in-time of the exact boundary derivative of any quadratic profile; the outer row is C04's mirror-ghost obligation. With C01's stability this gives convergence by the Lax-Richtmyer theorem, which is cited, not mechanised.",
   note="The limit nx, nt -> infinity itself, the distance to the Fourier series / a method-of-lines reference and error constants at a given resolution are outside the solver's reach (DESIGN.md section 5); nx 5..6 quick, 5..8 thorough; the single-phase recovery stencil uses mesh width 1/(nx-1) against 1/nx in the time stepping (a first-order mismatch, recorded)."),
 "C03": dict(
   technique="symbolic execution of recovery_factor on havoc'd levels inside C01's bounds + z3 (monomial abstraction); exact row-sum balance; thermodynamic slope with derivatives as symbols",
   text="Bounded symbolic model checking: both recovery modes are 0 at the first time; in-place recovery of any level inside [lowest frac-face value, initial value] is at most 1 - rho(m_f)/rho(m_i) for every increasing density table of the stated size; the flux stencil is non-negative and flux recovery non-decreasing over the first two steps from the real initial state, and the trapezoid sum of non-negative rates is non-decreasing on any time grid; the flux recovery is FVF scale times the trapezoid of the exact boundary derivative of a quadratic profile; the code's scaling factor is c mu z/(2p) and makes d(rho/rho_i)/d(m~) = 1 at p_i for a consistent table; the ideal scheme conserves sum_j x_j up to the frac-face flux exactly and its FVF scale is 1 - p_f/p_i.",
   note="That the gap between the two modes is first-order small and shrinks under refinement, and its widening by the measured inconsistency of shipped tables, are asymptotic / data-numerical claims outside the solver's reach; density table 2 rows quick, 3 thorough; nx 3..5; time-monotonicity of in-place recovery only through C01's two-step bound."),
 "C05": dict(
   technique="symbolic execution with the recovery curve uninterpreted and curve_fit as a recording contract stub + z3; path enumeration of Bounds validation",
   text="Bounded symbolic model checking of forecast.py: forecast_cum equals M*rf(t/tau) (so it is linear in M and unchanged when time and tau are rescaled together) for an uninterpreted recovery curve; Bounds(...) leaves a raising path exactly when a length differs from 2 or lo >= hi (lengths 1..3, symbolic values); regularize_initial_guess returns a guess inside finite and half-infinite bounds for every guess; fit hands curve_fit the configured bounds in its order, an initial guess inside them, and the model M*rf(t/tau) (with the supplied tau when given), so under curve_fit's contract the fitted M_, tau_ lie inside the bounds and a supplied tau is returned unchanged.",
   note="That TRF reaches the least-squares optimum and the numerical round trip of (M, tau) on noise-free data are properties of an iterative FFI routine and are outside the claim (DESIGN.md section 5); arrays of length 2 (quick) / 3 (thorough)."),
 "C18": dict(
   technique="symbolic execution with forward-model classes as recording stubs, lmfit as a contract stub, pandas/uniform_filter1d as exact models + z3",
   text="Bounded symbolic model checking: _obj_function builds FlowProperties(pvt_table, p_initial), a single-phase reservoir on it, simulates days/tau with the frac-face history and returns M*recovery_factor - production (hence zero at generating parameters); fit_production_pressure keeps a row iff Gas > 0 and the pressure is present (every combination for the uncertain rows), re-indexes days 0..n-1, accumulates production, leaves pressures unchanged for a window of 1, declares tau in [30, 2(n-1)], M in [cum[-2], inplace_max], p_initial in [max p_f, pressure_imax], runs Nelder-Mead with the given budget, and under lmfit's contract the fitted values lie inside those limits with p_initial at least the highest frac-face pressure.",
   note="Where Nelder-Mead ends up is outside the claim; 3-5 rows with uncertain production / missing pressure plus 16 surely productive days (so that tau's range is non-empty); lmfit and the forward-model classes are trusted to meet their contracts (C01-C04, C09)."),
 "C20": dict(
   technique="symbolic execution of the plotting helpers with a recording Axes + z3 / canonical identity; QF_FP lemma at binary16 for the transform round trip",
   text="Bounded symbolic model checking: on a reservoir with symbolic data the lines handed to Axes.plot are exactly every k-th profile (k=1,2,3) against linspace(1/nx,1,nx) (rescaled form: frac-face value -> 0), recovery against time, np.gradient(recovery, time) against time (both tick settings), and in the production-comparison figure (t/tau, simulated recovery), (t/tau, cumulative/M), (t/tau, frac-face pressure) for both filter settings; the square-root transform is the non-negative root, it and its inverse are mutual inverses over the reals for a >= 0, inverted() of each is the other, and in binary16 floating point |fl(fl(sqrt a)^2) - a| <= 4 eps a.",
   note="matplotlib itself is not executed (what is verified is what the helpers hand to Axes.plot); the floating-point lemma is at binary16 (binary32/64 do not finish in z3 or cvc5 within 300 s); nx 3, nt 4 quick; nx 4, nt 7 thorough."),
}
NOT_APPLICABLE = {f"C{n:02d}": PENDING for n in range(1, 21)}

# additions made after the first two rounds of seeded changes (appended to the texts above)
EXTRA = {
 "C01": (" A second constant-drawdown run on a re-used object (frac-face pressure field reassigned, or a schedule run in between) obeys the bounds with the frac-face value in force when it starts.",
         " Re-used object: nx=3, first step from the real initial state."),
 "C03": (" For the level the real simulate stores (ideal solve, first step, float64 and int64 time grids) the hypothesis of the ceiling holds with the frac-face value of the object's own pressure, and the ceiling follows.",
         " End-to-end ceiling: nx=3, 2-row density table."),
 "C05": (" A second fit on the same forecaster hands the optimiser the problem (start point, bounds, data, model) a fresh forecaster would hand over; where that fails the real noise-free round trip on a re-used forecaster decides.",
         " Refit: two fits, 2 samples each, tau fitted or supplied."),
 "C10": (" The operations include simulate(A, schedule) for the single-phase class (a later scalar-setting simulate must not inherit the schedule); systems and observables are compared modulo the equalities decided on the path.",
         ""),
 "C11": (" Integer dtypes are also run with Python-int scalar parameters (temperature, API, GOR, salinity), and every integer-dtype array operation is proved to stay inside its dtype's range on the stated box (no silent wrap-around).",
         " Integer elements in [15, 20000]."),
 "C12": (" The same orderings are decided through the array entry points (one call with two pressures; float64 and int64 arrays; float and Python-int scalar parameters).",
         " Array form: length 2."),
 "C15": (" The same obligations hold when pressure and So are pandas Series whose index labels are not 0..n-1 in row order (positions, not labels, define the grid).",
         " pandas label/position semantics are an exact model validated against pandas on every run."),
 "C16": (" FlowPropertiesTwoPhase.from_table(...).pvt_props['alpha'] equals, row by row, lambda/c evaluated with independently built interpolators of the same table, for rows listed in ascending and in descending pressure order.",
         " Tabulated form: 3 rows quick, 4 thorough, neighbouring pressures at least 1 psi apart; interp1d incl. assume_sorted modelled exactly and validated against scipy on every run."),
 "C17": (" The interpolator obligations also hold when the object carried an earlier run on another grid (with recovery / interpolator calls made on it) and the interpolator is requested before recovery_factor().",
         ""),
}
EXTRA2 = {
 "C01": (" Grids with a repeated time (a zero-length step stores the previous level again); the frac-face value may be negative (rescaled tables).", ""),
 "C02": (" The frac-face row / initial state obligations are replayed on captured real systems (large mesh ratios, frac-face pressures close to the initial pressure); the diffusivity stub is an interpolator-like object (nodes on demand, lookups within the node range) and the replay also runs the shipped table with its diffusivity in other units.", ""),
 "C03": (" The ceiling also for a density table listed from high pressure to low.", ""),
 "C04": (" Stored levels on an integer time grid are the backward-Euler update of the stored previous level (the stored field takes nothing from the time array's dtype).", ""),
 "C05": (" Supplying only M or only tau to forecast_cum keeps the other fitted value; the optimiser is asked for the plain least-squares problem (no loss / weights), replayed against the closed-form bounded optimum.", ""),
 "C06": (" The root is part of the root finder's contract only when non-convergence cannot pass silently (disp / full_output); paths that return without a root finder carry the root obligation themselves; replay over a grid of the rectangle incl. very low pressures.", ""),
 "C07": (" The oil identity element by element for an array of pressures listed high to low; the gas methods of the facade on a re-ordered pressure Series.", ""),
 "C08": (" The columns the builder integrates are viscosity_Sutton and z_factor_DAK at the Sutton point of the caller's composition and gas type, also for a build that follows one for the other gas type (replayed against quadrature).", ""),
 "C09": (" Tables listed high to low, labelled DataFrames (index labels n-1..0) and tables carrying an extra alpha column.", ""),
 "C10": (" Repeating rf / rfd after any other calls returns the same result (interpolator: with no recovery call in between); the stored times and field stay those the latest simulate produced.", ""),
 "C11": (" A pressure Series whose labels are not 0..n-1; replay with an element exactly at the real bubble point.", ""),
 "C12": (" Arrays listed high to low; an element exactly at the real bubble point in the replay; the oil methods of the facade after a first call and reassigned attributes.", ""),
 "C15": (" An integer-typed pressure column; a rel-perm table listed by decreasing So (the interpolators from_table builds reproduce the caller's tables).", ""),
 "C17": (" Every wrong schedule length from 0 to nt+2 is rejected (a one-element schedule must not broadcast).", ""),
 "C18": (" The PVT table is a symbolic frame in either row order and must reach the forward model as the caller's object.", ""),
 "C19": (" Every string of up to 9 characters other than the two accepted gas types is rejected by pseudocritical_point_Sutton and build_pvt_gas (CrossHair on a symbolic str, confirmed over all paths); facade methods on a re-ordered pressure Series and after a first call + reassigned attributes.", " The string obligation is decided by CrossHair 0.0.110 (z3 underneath), not by the SX engine."),
 "C20": (" The production-comparison obligation is replayed through real matplotlib line data on a table whose Days are not 0, 1, 2, ...", ""),
}
for _pid, (_t, _n) in EXTRA2.items():
    EXTRA[_pid] = (EXTRA.get(_pid, ("", ""))[0] + _t, EXTRA.get(_pid, ("", ""))[1] + _n)
EXTRA3 = {
 "C01": (" The stored field is not altered by recovery_factor / recovery_factor_interpolator calls; runs on an object re-used with other bounds.", ""),
 "C02": (" With full PVT columns and a user diffusivity column in one table the solver reads the user's diffusivity at the nodes; interior rows on an object re-used after its fluid was replaced; row order of the table does not change the problem solved.", ""),
 "C03": (" Initial pressure between table rows (scaling at p_i, not at a row); a second wrapper built from the same table.", ""),
 "C04": (" Solver choice, tolerance and convergence flag at nx = 201, 401 (1001 thorough); rows on an object re-used after its fluid was replaced.", ""),
 "C08": (" The stand-alone transform on rows listed high to low (results stay with the caller's rows).", ""),
 "C12": (" Three pressures in any order through the array entry point (all 8 placements around the bubble point); parameters passed as 0-d arrays are left alone.", ""),
 "C13": (" Replay grid includes pressures a relative 1e-7 .. 1e-4 below the bubble point and gassy oils.", ""),
 "C14": (" Records whose fields are declared in another order (So, Sg, Sw); two-record arrays of mixed validity are rejected.", ""),
 "C15": (" The real-code replay repeats its table with mobility in other units (x 1e-18, x 1e12).", ""),
 "C16": (" The tabulated diffusivity of from_table is lambda / storage at the caller's phi and Sw (phi != Sw).", ""),
 "C17": (" The recovery interpolator is defined on the whole simulated range for every time origin (a history starting before 0 included).", ""),
 "C18": (" The caller's tables are left alone; repeated calls without params start from fresh defaults; first guesses on both sides of the highest frac-face pressure.", ""),
 "C20": (" The comparison plot with a smoothing window of 2 (both panels drawn from what the simulation used); symbolic x_max / y_max.", ""),
}
for _pid, (_t, _n) in EXTRA3.items():
    EXTRA[_pid] = (EXTRA.get(_pid, ("", ""))[0] + _t, EXTRA.get(_pid, ("", ""))[1] + _n)
EXTRA4 = {
 "C01": (" A time grid handed over as a pandas Series with default labels (label-based element access, label-aligned arithmetic).", ""),
 "C02": (" The user-diffusivity branch with an int64 pseudopressure column.", ""),
 "C03": (" Discrete mass balance on an object re-used after its fluid was replaced.", ""),
 "C06": (" Two calls with the temperatures as 0-d arrays: left alone, and the second call is a root at its own T_r.", ""),
 "C07": (" The oil identity on an int64 pressure array and with the FVF returned by the array call.", ""),
 "C12": (" Every B_o array element equals the scalar call at that pressure (arrays below, above and straddling the bubble point).", ""),
 "C13": (" The defining combination with the standard conditions left to their defaults on both sides.", ""),
 "C14": (" A second call with equal arguments after the caller edited the first table returns the Brooks-Corey table.", ""),
 "C15": (" The mapping of reference densities is read by key (another insertion order).", ""),
 "C16": (" A no-water table (Sw = 0.0 exactly) with a rel-perm table measured at connate water 0.1.", ""),
 "C18": (" A production table whose row labels repeat (two exports concatenated).", ""),
 "C20": (" The square-root transform for a symbolic a > 0 however small (no snapping of small values).", ""),
}
for _pid, (_t, _n) in EXTRA4.items():
    EXTRA[_pid] = (EXTRA.get(_pid, ("", ""))[0] + _t, EXTRA.get(_pid, ("", ""))[1] + _n)
EXTRA5 = {
 "C02": (" Interior rows with the time grid a pandas Series.", ""),
 "C03": (" Mass balance with the time grid a pandas Series; recovery of profiles whose boundary flux changes sign.", ""),
 "C04": (" Stored levels with the time grid a pandas Series (each step uses its own increment, by position).", ""),
 "C05": (" Paths that fit without the optimiser (closed forms) are held to the configured bounds.", ""),
 "C07": (" The oil FVF a caller gets from a re-used, reassigned Fluid object.", ""),
 "C08": (" The replay family compares pseudopressure_Hussainy with an independent composite quadrature on light and heavy gases (the quadrature routine itself is outside the encoding).", ""),
 "C09": (" Construction through FlowPropertiesTwoPhase.from_table leaves the caller's tables alone; int64 pressure / pseudopressure columns.", ""),
 "C13": (" dR_s/dp for a pressure given as a Python int (0-d array semantics of np.asarray(scalar) modelled).", ""),
 "C15": (" from_table leaves the caller's PVT table, rel-perm table and reference densities alone.", ""),
 "C17": (" Recovery after a rejected simulate call raises (nothing is returned); a shifted grid handed over as a pandas Series.", ""),
 "C19": (" Three pressures in any order, repeats included, through every facade method (one result per pressure, in the caller's order).", ""),
 "C20": (" plot_pseudopressure leaves the stored field alone; figures are compared with the field as it was before the call.", ""),
}
for _pid, (_t, _n) in EXTRA5.items():
    EXTRA[_pid] = (EXTRA.get(_pid, ("", ""))[0] + _t, EXTRA.get(_pid, ("", ""))[1] + _n)
EXTRA6 = {
 "C02": (" Interior rows on an object built on a coarser grid whose nx field was then reassigned.", ""),
 "C03": (" The in-place ceiling on a run that follows a schedule run of the same object.", ""),
 "C06": (" The z-factor column of build_pvt_gas is z_factor_DAK at the Sutton point of the caller's composition and gas type (dry and wet).", ""),
 "C07": (" The oil identity on a 1 x 2 pressure array (2-D masks and row selection modelled).", ""),
 "C08": (" The table builder with a Python-int maximum pressure (as its default is): integrand columns at the caller's temperature.", ""),
 "C10": (" Histories on objects whose frac-face pressure is a 0-d float64 array (documented float | NDArray).", ""),
 "C11": (" The gas methods of the Fluid facade are targets too (stand-alone gas correlations as recording stubs).", ""),
 "C12": (" Reversed views (negative stride) through the facade's oil methods.", ""),
 "C13": (" The c_o replay evaluates the real functions exactly at the real bubble point.", ""),
 "C15": (" A water relative permeability that is exactly zero at one row's saturation and positive at the others.", ""),
 "C17": (" The replay family includes a drawdown followed by a build-up (recovery peaks, then falls): final value after the last time.", ""),
 "C18": (" The objective for a cumulative production that does not start at zero.", ""),
 "C19": (" Three int64 pressures through every facade method.", ""),
}
for _pid, (_t, _n) in EXTRA6.items():
    EXTRA[_pid] = (EXTRA.get(_pid, ("", ""))[0] + _t, EXTRA.get(_pid, ("", ""))[1] + _n)
EXTRA7 = {
 "C02": (" The mesh replay includes a fluid whose diffusivity falls with pressure (scaled diffusivity above 1 below the initial state).", ""),
 "C04": (" Stored levels read after recovery_factor() (the levels stay the updates simulate stored).", ""),
 "C05": (" The scaling law at M = 0; bounds assigned to the forecaster's public field after construction are the ones the fit uses.", ""),
 "C07": (" The oil identity on arrays with the initial GOR a Python int.", ""),
 "C08": (" A path of pseudopressure_Hussainy that answers without quadrature is admissible only for p = p_standard; the stand-alone transform with its columns passed as pandas Series.", ""),
 "C09": (" rescale_pseudopressure rejects pressures outside the table.", ""),
 "C10": (" The interpolator is compared beyond both ends of the simulated range.", ""),
 "C11": (" A second call of the gas facade methods on the same object with another pseudocritical point; a 2 x 2 Fortran-ordered array through the functions that take 2-D input.", ""),
 "C12": (" The array entry points on a pressure Series labelled 1, 0.", ""),
 "C13": (" The array form of dB_w/dp: element-wise the scalar result, the caller's grid left alone.", ""),
 "C14": (" A second call with the same rejected arguments is rejected too; the two-phase helper with S_wc = Sw = 0 written as Python ints.", ""),
 "C15": (" Rel-perm callables that return the array they are given (the caller's saturations are left alone); initial pressure strictly between two rows: m_i in [1, (1 + r)^2 / (4 r)].", ""),
 "C16": (" The storage derivative for a Python-int pressure.", ""),
 "C17": (" Recovery with an explicit time argument before any simulation raises; a constant schedule on an object configured with another frac-face pressure equals the scalar setting at the schedule's value.", ""),
 "C18": (" The objective evaluated twice on a dict-of-arrays PVT table with the library's own FlowProperties (executed symbolically): same flow properties, table left alone; a productive row with a gap in another column is kept.", ""),
 "C20": (" The comparison plot with a producing day that has no pressure reading, and with a gap in a column the figure does not use.", ""),
}
for _pid, (_t, _n) in EXTRA7.items():
    EXTRA[_pid] = (EXTRA.get(_pid, ("", ""))[0] + _t, EXTRA.get(_pid, ("", ""))[1] + _n)
EXTRA8 = {
 "C01": (" A grid whose repeated time is not the first one: beyond the frac-face node the zero-length step stores the previous level.", ""),
 "C02": (" The mesh replay includes a fluid whose scaled pseudopressure is in units where m_i = 3.", ""),
 "C03": (" The scaled diffusivity the balance rests on is alpha(m)/alpha(m_i) for any positive diffusivity values (also above 1), replayed on a consistent table whose diffusivity falls with pressure.", ""),
 "C04": (" The replay family runs logarithmic time grids (ten decades of mesh ratio) on 12 and 60 nodes.", " scipy.sparse.linalg.spilu is an engine gap (an incomplete LU is not an exact solve)."),
 "C07": (" Bg with its default standard conditions refers to the library's standard conditions.", ""),
 "C08": (" The stand-alone transform leaves its columns alone and returns the same rows when called again on them (arrays and Series).", ""),
 "C10": (" Histories in which the caller rescales, in place, the time array it simulated on and simulates on it again.", ""),
 "C13": (" dR_s/dp after the same calls for an oil that differs only in gas gravity.", ""),
 "C17": (" The interpolator of one run evaluated after a later run of the same object on another grid.", ""),
 "C18": (" The objective replay includes a table whose recovery factor rises above 1.", ""),
 "C19": (" A composition array still describes its gas after another gas's composition was built.", ""),
 "C20": (" The reservoir object handed to the plots carries a fluid whose m_i differs from the field's initial value.", ""),
}
for _pid, (_t, _n) in EXTRA8.items():
    EXTRA[_pid] = (EXTRA.get(_pid, ("", ""))[0] + _t, EXTRA.get(_pid, ("", ""))[1] + _n)
EXTRA9 = {
 "C03": (" The same with the library's own FlowProperties (executed symbolically) on a dict and on a DataFrame with reversed integer row labels.", ""),
 "C08": (" The dry-gas table built after a wet-gas table for the same inputs, within one path.", ""),
 "C09": (" The diffusivity lookup at every node's scaled pseudopressure returns that node's value, also above the initial pressure.", ""),
 "C12": (" The replay family runs float32 pressure grids (storage rounding is outside the engine's real-number model).", ""),
 "C16": (" A second build after the same dict table was edited in place.", ""),
 "C19": (" The rejection replay tries the near misses of the accepted fluid names (letter case, white space, separators).", ""),
}
for _pid, (_t, _n) in EXTRA9.items():
    EXTRA[_pid] = (EXTRA.get(_pid, ("", ""))[0] + _t, EXTRA.get(_pid, ("", ""))[1] + _n)
EXTRA10 = {
 "C04": (" A reachable two-step job whose frac-face schedule may rise above the initial pressure (no bound assumed on the solved levels).", ""),
 "C08": (" The quadrature limits with the reference pressure written as the constant 0.", ""),
 "C20": (" Strides equal to and beyond the number of stored profiles, and the default stride on a short run.", ""),
}
for _pid, (_t, _n) in EXTRA10.items():
    EXTRA[_pid] = (EXTRA.get(_pid, ("", ""))[0] + _t, EXTRA.get(_pid, ("", ""))[1] + _n)
EXTRA11 = {
 "C06": (" The Hall-Yarbrough routine is run symbolically up to its first data-dependent loop test only: t * T_r == 1 for real and integer T_r, dtype-independent state, iterate no longer the starting guess; its termination and agreement with DAK are not decided.",
         " Hall-Yarbrough: first loop test only."),
 "C01": (" The solve the code reaches on fine grids (129 and 401 nodes; thorough 65..513) carries the contract the bounds jobs assume: direct, or iterative with max(atol, rtol B) <= 1e-9 B + 1e-11 for all B >= 0.",
         " Solve contract probed at the listed node counts only."),
}
for _pid, (_t, _n) in EXTRA11.items():
    EXTRA[_pid] = (EXTRA.get(_pid, ("", ""))[0] + _t, EXTRA.get(_pid, ("", ""))[1] + _n)
for _pid, (_t, _n) in EXTRA.items():
    CHECKS[_pid]["text"] += _t
    CHECKS[_pid]["note"] += _n
