NOTES = ("Solver-based checking of the real code. Every verdict is z3's over all inputs within the bounds printed in "
         "the evidence; sat answers are replayed on the unmodified repository code with the real libraries before "
         "being reported; unknown/timeouts exit 3 (never success). See DESIGN.md.")
PENDING = "check under construction in this session (engine exists; harness not yet committed)"
CHECKS = {
 "C13": dict(
   technique="symbolic execution of parent and derivative functions + symbolic differentiation + z3 (QF_NRA, exp/ln axioms)",
   text="Bounded symbolic model checking: the parent's own source is executed on symbolic inputs, differentiated exactly, and z3 shows no input in the stated parameter box makes the hand-coded derivative differ by more than 1e-9 relative; both sides of the bubble point are separate paths; the assembly of oil_compressibility_Standing is checked against its defining combination with library calls as uninterpreted recording stubs and with the library's own functions.",
   note="Real arithmetic (no rounding); exp/ln abstracted by uninterpreted symbols with instantiated true axioms (unsat transfers); parameter box T 80..350 F, API 12..55, gas gravity 0.56..1.3, GOR 20..2500, p 15..20000 psia, water T 60..400 F; b_factor_DAK and Spivey compressibility are uninterpreted in the c_o assembly."),
}
NOT_APPLICABLE = {f"C{n:02d}": PENDING for n in range(1, 21)}
