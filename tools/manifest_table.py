NOTES = ("Solver-based checking of the real code. Every verdict is z3's over all inputs within the bounds printed in "
         "the evidence; sat answers are replayed on the unmodified repository code with the real libraries before "
         "being reported; unknown/timeouts exit 3 (never success). See DESIGN.md.")
PENDING = "check under construction in this session (engine exists; harness not yet committed)"
CHECKS = {
 "C13": dict(
   technique="symbolic execution of parent and derivative functions + symbolic differentiation + z3 (QF_NRA, exp/ln axioms)",
   text="Bounded symbolic model checking: the parent's own source is executed on symbolic inputs, differentiated exactly, and z3 shows no input in the stated parameter box makes the hand-coded derivative differ by more than 1e-9 relative; both sides of the bubble point are separate paths; the assembly of oil_compressibility_Standing is checked against its defining combination with library calls as uninterpreted recording stubs and with the library's own functions.",
   note="Real arithmetic (no rounding); exp/ln abstracted by uninterpreted symbols with instantiated true axioms (unsat transfers); parameter box T 80..350 F, API 12..55, gas gravity 0.56..1.3, GOR 20..2500, p 15..20000 psia, water T 60..400 F; b_factor_DAK and Spivey compressibility are uninterpreted in the c_o assembly."),
 "C06": dict(
   technique="symbolic execution of z_factor_DAK with the root finder as a contract stub + z3; reference-with-deviation for the known coefficient finding",
   text="Bounded symbolic model checking of gas.z_factor_DAK: the closure the code hands to its root finder is captured by a contract stub (r in [a,b], f(r)=0) and z3 shows that, for every (T_r, p_r) in the validity rectangle and every root the contract allows, the returned Z satisfies the Dranchuk-Abou-Kassem residual (published form: open known finding on the first coefficient, re-confirmed concretely on each run; published form with exactly that deviation: must hold) and equals 0.27 p_r/(rho T_r). If the code minimises an objective instead, the objective is compared with |F/F'| of the reference and the optimiser's contract is shown not to imply a root, replayed on the real optimiser.",
   note="Real arithmetic; exp abstracted with instantiated true axioms; the root finder is trusted to meet its contract (exact root modelled; xtol/rtol recorded); whether the sign-change precondition can fail inside the rectangle is attempted and reported as undecided when z3 answers unknown; continuity in p, Z->1 and Hall-Yarbrough are outside the claim (DESIGN.md section 5)."),
 "C07": dict(
   technique="symbolic execution + implicit symbolic differentiation of the library's own EOS closure + z3 / rational normal form",
   text="Bounded symbolic model checking: density_DAK = pM/(ZRT) and density*Bg independent of pressure with Z an uninterpreted function (argument lists checked); compressibility_DAK equals the logarithmic pressure-derivative of the density implied by z_factor_DAK's own residual closure (implicit differentiation, state parametrised by reduced density; open known finding, plus the same obligation against the published EOS which must hold); viscosity_Sutton positive and increasing in the density it is fed (two-point); oil and water density*FVF identities with the library's own calls.",
   note="Real arithmetic; exp/ln abstracted with instantiated true axioms; 'viscosity increases with pressure' is decided only as 'increases with density' (c_g>0 over the rectangle is assumed, a transcendental sign claim); boxes: T 60..400 F, 1.05<=T_r<=3, p_r<=30, Z in [0.05,5], gas gravity 0.55..1.2, rho 0.001..40 lb/ft3, oil box as C13, salinity 0..25 wt%."),
}
NOT_APPLICABLE = {f"C{n:02d}": PENDING for n in range(1, 21)}
