#!/bin/sh
# tools/try_seed.sh <patch.diff> <ID> [<ID> ...]   - apply a seeded change to /repo, run the checks, undo it
P="$1"; shift
cd /repo || exit 2
git apply "$P" || { echo "patch does not apply"; exit 2; }
trap 'git -C /repo checkout -- . ' EXIT
for id in "$@"; do
  echo "=== $id"
  /verif/check "$id" --tier "${TIER:-quick}" 2>&1 | cut -c1-400 | grep -E "VIOLATION|obligation|HARNESS-ERROR|KNOWN|^\[" | head -${LINES_MAX:-12}
  echo "exit=$?"
done
