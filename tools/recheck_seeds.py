"""tools/recheck_seeds.py [N parallel] - re-run, for every kept seeded change, the checks that caught it (scratch worktrees;
/repo untouched) and report any that is no longer detected."""
import json, os, subprocess, sys, tempfile
from concurrent.futures import ThreadPoolExecutor
V = os.path.dirname(os.path.dirname(os.path.abspath(__file__)))
par = int(sys.argv[1]) if len(sys.argv) > 1 else 4
only = sys.argv[2] if len(sys.argv) > 2 else ""
seeds = sorted(d for d in os.listdir(f"{V}/seeded") if os.path.exists(f"{V}/seeded/{d}/meta.json") and only in d)
slots = [f"/tmp/rs_{k}" for k in range(par)]
for s in slots:
    subprocess.run(["git", "-C", "/repo", "worktree", "remove", "--force", s], capture_output=True)
    subprocess.run(["git", "-C", "/repo", "worktree", "add", "--detach", s, "HEAD"], capture_output=True, check=True)
import queue
q = queue.Queue()
for s in slots:
    q.put(s)

def one(d):
    wt = q.get()
    try:
        subprocess.run(["git", "-C", wt, "checkout", "-q", "--", "."], check=True)
        r = subprocess.run(["git", "-C", wt, "apply", f"{V}/seeded/{d}/patch.diff"], capture_output=True, text=True)
        if r.returncode:
            return d, "PATCH DOES NOT APPLY", {}
        meta = json.load(open(f"{V}/seeded/{d}/meta.json"))
        checks = [c for c, v in meta["checks_run"].items() if v.get("exit") == 1] or [meta["property"]]
        out = tempfile.mkdtemp(prefix="bbverif-out.")
        res = {}
        for c in checks[:1]:
            p = subprocess.run([f"{V}/check", c, "--tier", "quick"], capture_output=True, text=True, cwd=V, env=dict(os.environ, BBVERIF_REPO=wt, BBVERIF_OUT=out))
            res[c] = p.returncode
        subprocess.run(["rm", "-rf", out])
        return d, "ok" if all(v == 1 for v in res.values()) else "NOT DETECTED", res
    finally:
        subprocess.run(["git", "-C", wt, "checkout", "-q", "--", "."])
        q.put(wt)

with ThreadPoolExecutor(par) as ex:
    bad = 0
    for d, status, res in ex.map(one, seeds):
        if status != "ok":
            bad += 1
        print(f"{status:14s} {d} {res}", flush=True)
for s in slots:
    subprocess.run(["git", "-C", "/repo", "worktree", "remove", "--force", s], capture_output=True)
print(f"{len(seeds)} seeds, {bad} not detected")
