"""tools/keep_seed.py <ID> <worktree> <name> [check ids...]  - confirm a seeded change and file it under /verif/seeded/<name>/"""
import json, os, shutil, subprocess, sys
pid, wt, name = sys.argv[1:4]
checks = sys.argv[4:] or [pid]
env = dict(os.environ, PYTHONPATH=f"{wt}/src")
patch = subprocess.run(["git", "-C", wt, "diff", "--", "src"], capture_output=True, text=True).stdout
assert patch.strip(), "no change in worktree"
t = subprocess.run(["/venv/bin/python", "-m", "pytest", "-q", "-p", "no:cacheprovider", "tests", "--deselect", "tests/test_plots.py",
                    "--deselect", "tests/forecast/test_forecast.py::test_fit_plot"], cwd=wt, env=env, capture_output=True, text=True)
tests_line = [l for l in t.stdout.splitlines() if " passed" in l or " failed" in l][-1:]
d1 = subprocess.run(["/venv/bin/python", f"{wt}/demo.py"], env=env, capture_output=True, text=True, cwd=wt)
d0 = subprocess.run(["/venv/bin/python", f"{wt}/demo.py"], env=dict(os.environ, PYTHONPATH="/repo/src"), capture_output=True, text=True, cwd=wt)
dst = f"/verif/seeded/{name}"
os.makedirs(dst, exist_ok=True)
open(f"{dst}/patch.diff", "w").write(patch)
shutil.copy(f"{wt}/demo.py", f"{dst}/demo.py")
note = open(f"{wt}/note.md").read() if os.path.exists(f"{wt}/note.md") else ""
results = {}
import tempfile
out = tempfile.mkdtemp(prefix="bbverif-out.")
# the checks analyse the scratch worktree carrying the change (BBVERIF_REPO); /repo and the committed evidence are not touched
chk = subprocess.run(["git", "-C", wt, "diff", "--quiet", "HEAD", "--", "tests"])
for c in checks:
    r = subprocess.run(["/verif/check", c, "--tier", os.environ.get("TIER", "quick")], capture_output=True, text=True, cwd="/verif",
                       env=dict(os.environ, BBVERIF_REPO=wt, BBVERIF_OUT=out))
    viol = [l for l in r.stdout.splitlines() if l.startswith("VIOLATION")]
    obl = [l.strip()[:300] for l in r.stdout.splitlines() if l.startswith("  obligation")]
    results[c] = {"exit": r.returncode, "violations": len(viol), "first_obligations": obl[:3],
                  "summary": [l for l in r.stdout.splitlines() if l.startswith("[")][-1:]}
shutil.rmtree(out, ignore_errors=True)
meta = {"property": pid, "name": name, "tests_with_change": tests_line, "demo_exit_with_change": d1.returncode, "demo_exit_without_change": d0.returncode,
        "demo_output_with_change": d1.stdout[-800:], "needs_to_manifest": note, "checks_run": results,
        "detected": any(v["exit"] == 1 for v in results.values()),
        "what_i_ran": f"pytest in the scratch worktree {wt} with PYTHONPATH={wt}/src; demo.py against the changed and the original sources; "
                      f"BBVERIF_REPO={wt} ./check <id> --tier quick (the checks read and replay against the worktree carrying patch.diff; equivalent to applying "
                      "patch.diff to /repo, which was left untouched because background runs were using it)"}
json.dump(meta, open(f"{dst}/meta.json", "w"), indent=1)
print(json.dumps({k: meta[k] for k in ("tests_with_change", "demo_exit_with_change", "demo_exit_without_change", "detected")}), {c: (v["exit"], v["violations"]) for c, v in results.items()})
