"""tools/seed_table.py - regenerate the 'seeded changes' table of DESIGN.md (between the SEED-TABLE markers) from seeded/*/meta.json"""
import json, os, re
V = os.path.dirname(os.path.dirname(os.path.abspath(__file__)))
rows = []
for d in sorted(os.listdir(f"{V}/seeded")):
    mp = f"{V}/seeded/{d}/meta.json"
    if not os.path.exists(mp):
        continue
    m = json.load(open(mp))
    note = m.get("needs_to_manifest", "")
    first = next((l.strip("# *").strip() for l in note.splitlines() if l.strip()), "")
    first = re.sub(r"^C\d\d\s+(seed(ed)?( regression)?|round \d)[^:]*:\s*", "", first)
    caught = []
    for c, r in m.get("checks_run", {}).items():
        if r.get("exit") == 1:
            ob = (r.get("first_obligations") or [""])[0]
            ob = ob.replace("obligation ", "").split(":")[0][:90]
            caught.append(f"{c} (`{ob}`)")
    rows.append(f"| `{d}` | {first[:150]} | {'; '.join(caught) or 'NOT DETECTED'} |")
table = "| seeded change | what it is | caught by (first obligation) |\n|---|---|---|\n" + "\n".join(rows)
p = f"{V}/DESIGN.md"
s = open(p).read()
a, b = "<!-- SEED-TABLE:BEGIN -->", "<!-- SEED-TABLE:END -->"
if a in s:
    s = s[:s.index(a) + len(a)] + "\n" + table + "\n" + s[s.index(b):]
    open(p, "w").write(s)
print(len(rows), "seeds")
