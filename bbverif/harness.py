"""Check runner: obligations, verdict handling, replay, known findings, evidence, exit codes.

Exit codes: 0 every obligation discharged (or only listed known findings); 1 a reproduced,
unlisted violation (`VIOLATION property=<id> replay=<path>` on stdout); 3 harness error or an
inconclusive obligation (never reported as success, never as a violation).
"""
from __future__ import annotations

import hashlib
import json
import multiprocessing as mp
import os
import sys
import time
import traceback
from fractions import Fraction

from .sx import lower as LW
from .sx import terms as T
from .sx import loader

VERIF = os.path.dirname(os.path.dirname(os.path.abspath(__file__)))
KNOWN_FILE = os.path.join(VERIF, "known_findings.json")


def load_known():
    if not os.path.exists(KNOWN_FILE):
        return []
    with open(KNOWN_FILE) as f:
        return json.load(f).get("findings", [])


def frac_json(x):
    if isinstance(x, Fraction):
        return float(x) if x.denominator != 1 else int(x)
    if isinstance(x, dict):
        return {k: frac_json(v) for k, v in x.items()}
    if isinstance(x, (list, tuple)):
        return [frac_json(v) for v in x]
    try:
        json.dumps(x)
        return x
    except TypeError:
        return repr(x)


class HarnessError(Exception):
    pass


def second_opinion(smt2: str, limit_s=20):
    """Re-decide an SMT-LIB2 query with the two other solvers on this image.  Returns dict solver->answer."""
    import subprocess
    import tempfile
    out = {}
    with tempfile.TemporaryDirectory(prefix="bbverif-smt-") as d:
        f = os.path.join(d, "q.smt2")
        body = smt2 if "(check-sat)" in smt2 else smt2 + "\n(check-sat)\n"
        with open(f, "w") as fh:
            fh.write("(set-logic ALL)\n" + body)
        for name, cmd in (("z3-4.8.12", ["/usr/bin/z3", f"-T:{limit_s}", f]), ("cvc5", ["cvc5", f"--tlimit={limit_s * 1000}", "--nl-ext-tplanes", f])):
            try:
                r = subprocess.run(cmd, capture_output=True, text=True, timeout=limit_s + 10)
                txt = (r.stdout + r.stderr).strip().splitlines()
                ans = next((ln.strip() for ln in txt if ln.strip() in ("sat", "unsat", "unknown")), "no-answer")
                if any("(error" in ln for ln in txt):
                    ans = "error"
            except Exception:  # noqa: BLE001
                ans = "no-answer"
            out[name] = ans
    return out


def replay_crosshair(model, src="", call=""):
    """Re-execute a CrossHair counterexample concretely: the harness module is executed against the analysed tree and the
    reported call evaluated; the postcondition of these harnesses is 'returns True'."""
    ns = {"__name__": "ch_replay"}
    try:
        exec(compile(src.replace("{SRC}", os.path.join(loader.REPO, "src")), "<crosshair harness>", "exec"), ns)
        val = eval(call, ns)
    except Exception as ex:  # noqa: BLE001
        return True, {"what": f"{call} raised {ex!r}"}
    return (val is not True), {"what": f"{call} returned {val!r} (the contract requires True)"}


class Job:
    """One unit of work of a check (runs in a worker process).  Collects records."""

    def __init__(self, pid, name, tier, seed):
        self.pid, self.name, self.tier, self.seed = pid, name, tier, seed
        self.obligations = []      # dict(name, bound, verdict, seconds, note)
        self.paths = 0
        self.validated = 0
        self.validation_samples = []
        self.violations = []       # dict(obligation, replay, what)
        self.known = []            # dict(finding, what)
        self.errors = []           # str
        self.functions = {}        # 'module.qualname' -> hash
        self.stubs = set()
        self.assumptions = set()
        self.bounds = {}
        self.solver_s = 0.0
        self.timeout = 120 if tier == "quick" else 600
        self.solve_defaults = {}      # per-job defaults for lower.solve (e.g. elim=True)
        self.second = {"agree": 0, "no_answer": 0, "disagree": 0}

    # ---- bookkeeping
    def encoded(self, module, *qualnames):
        for q in qualnames:
            self.functions[f"{module.__file__.split('/src/')[-1]}::{q}"] = loader.function_source_hash(module, q)

    def stub(self, *names):
        self.stubs.update(names)

    def assume_text(self, *texts):
        self.assumptions.update(texts)

    def bound(self, **kw):
        self.bounds.update(kw)

    def add_paths(self, n):
        self.paths += n

    # ---- translator validation
    def validate(self, what, symbolic_value, real_value, rel=1e-9, abs_=1e-12, inputs=None):
        """Compare the encoding evaluated at concrete inputs with the real library's result."""
        self.validated += 1
        ok = abs(symbolic_value - real_value) <= rel * max(abs(real_value), abs(symbolic_value)) + abs_
        if len(self.validation_samples) < 3:
            self.validation_samples.append({"what": what, "inputs": frac_json(inputs), "encoding": symbolic_value,
                                            "real": real_value})
        if not ok:
            self.errors.append(f"translator validation failed for {what}: encoding {symbolic_value!r} vs real "
                               f"{real_value!r} at {inputs!r}")
        return ok

    # ---- deciding
    def record(self, name, verdict, seconds, bound=None, note=None):
        self.obligations.append({"name": name, "bound": bound, "verdict": verdict, "seconds": round(seconds, 3),
                                 "note": note})

    def prove(self, name, conds, bound=None, replay=None, finding=None, timeout=None, expect="unsat",
              retries=5, note=None, **solve_kw):
        """Decide `conds` (assumptions & path condition & negated property).

        unsat -> discharged.  sat -> `replay(model)` must reproduce on the real code:
        returns (reproduced: bool, details: dict).  `finding` names a known finding this
        obligation is allowed to hit (reference-with-deviation / region exclusions are
        expressed by the caller in `conds`; `finding` is only used for whole-obligation
        findings whose witness is confirmed by replay on every run)."""
        timeout = timeout or self.timeout
        extra = []
        tried = 0
        if len(self.violations) >= 4 and expect == "unsat":
            # enough reproduced violations in this job: do not spend the budget on more of the same
            self.record(name, "skipped", 0.0, bound, "skipped after 4 reproduced violations in this job")
            return "skipped"
        while True:
            try:
                kw = dict(self.solve_defaults)
                kw.update(solve_kw)
                if self.tier == "thorough" and expect == "unsat":
                    kw["want_smt2"] = True
                # first a short slice; if z3 has no verdict by then, a quick numeric model search (candidate only, see
                # below) and then the rest of the budget
                first = min(timeout, 15)
                r = LW.solve(list(conds) + extra, timeout_s=first, **kw)
                if r.verdict == "unknown" and timeout > first:
                    r2 = None
                    if expect == "unsat" and replay is not None:
                        r2 = LW.search_model(list(conds) + extra, seed=self.seed + tried, time_s=5.0)
                    if r2 is not None and r2.verdict == "sat":
                        self.solver_s += r.seconds
                        note = (note + "; " if note else "") + "candidate model from numeric search of the same formula (z3 undecided after 15 s)"
                        r = r2
                    else:
                        spent = r.seconds
                        r = LW.solve(list(conds) + extra, timeout_s=timeout - first, **kw)
                        r.seconds += spent
            except T.Unsupported as ex:
                self.errors.append(f"{name}: unsupported: {ex}")
                self.record(name, "error", 0.0, bound, str(ex))
                return "error"
            self.solver_s += r.seconds
            if r.verdict == "unknown" and replay is None and expect in ("sat", "info"):
                # a reachability witness the solver could not produce in time: a point at which the path condition evaluates
                # to true in floating point (the same terms, true exp / ln) shows the harness is not vacuous.  It is evidence
                # of reachability only and is recorded as such.
                r2 = LW.search_model(list(conds) + extra, seed=self.seed, time_s=10.0)
                if r2.verdict == "sat":
                    r2.seconds += r.seconds
                    note = (note + "; " if note else "") + "witness from numeric evaluation of the path condition at a sampled point (z3 undecided)"
                    r = r2
            if expect == "info":
                # an obligation the solver is not expected to settle (recorded as undecided when it does not).  If it is not
                # unsat and a replay is given, the replay's concrete family is run on the real code: a reproduced failure is a
                # violation; nothing is concluded from a clean run.
                if r.verdict != "unsat" and replay is not None:
                    try:
                        fn, kw = replay if isinstance(replay, tuple) else (replay, {})
                        ok, details = fn(frac_json(r.model) if r.verdict == "sat" else {}, **kw)
                    except Exception as ex:  # noqa: BLE001
                        ok, details = False, {"replay_exception": repr(ex)}
                    if ok:
                        self.record(name, "sat", r.seconds, bound, (note + "; " if note else "") + f"solver: {r.verdict}; failing input found by the concrete replay family")
                        self._violation(name, r.model if r.verdict == "sat" else {"replay_family": True},
                                        dict(details, replayer=fn.__name__, replayer_kwargs=kw, _replayed=True), finding)
                        return "sat"
                self.record(name, f"{r.verdict}(info)", r.seconds, bound, note)
                return r.verdict
            if r.verdict == "unsat":
                if tried:
                    self.errors.append(f"{name}: counterexample(s) found by the solver did not reproduce on the "
                                       f"real code ({tried} tried) - abstraction or stub too weak")
                    self.record(name, "spurious", r.seconds, bound, note)
                    return "spurious"
                if self.tier == "thorough" and r.smt2 and r.seconds > 0.0:
                    # thorough tier: the same query (same instantiated axioms) is re-decided by two other solvers
                    ans = second_opinion(r.smt2)
                    if any(a == "sat" for a in ans.values()):
                        self.second["disagree"] += 1
                        self.errors.append(f"{name}: second solver disagrees with z3's unsat: {ans} (inconclusive)")
                    elif any(a == "unsat" for a in ans.values()):
                        self.second["agree"] += 1
                    else:
                        self.second["no_answer"] += 1
                    note = (note + "; " if note else "") + "second opinion " + ", ".join(f"{k}: {v}" for k, v in ans.items())
                self.record(name, "unsat", r.seconds, bound, note)
                if expect == "sat":
                    self.errors.append(f"{name}: reachability witness came back unsat (vacuous harness)")
                return "unsat"
            if r.verdict == "unknown" and expect == "unsat" and replay is not None:
                # z3 could not decide.  Before giving up (inconclusive, exit 3) look for a model of the same conditions
                # numerically with the true exp/ln.  A hit is only a *candidate*: it goes through the replay below like a
                # solver model and counts only if the real code reproduces it.  A miss changes nothing.
                r2 = LW.search_model(list(conds) + extra, seed=self.seed + tried)
                if r2.verdict == "sat":
                    self.solver_s += r2.seconds
                    note = (note + "; " if note else "") + f"z3 unknown after {r.seconds:.0f}s; candidate model from numeric search of the same formula"
                    r = r2
            if r.verdict == "unknown":
                self.record(name, "unknown", r.seconds, bound, note)
                if expect == "sat":
                    self.errors.append(f"{name}: reachability witness inconclusive")
                else:
                    self.errors.append(f"{name}: solver answered unknown within {timeout}s (inconclusive)")
                return "unknown"
            # sat
            if expect == "sat":
                self.record(name, "sat(witness)", r.seconds, bound, note)
                return "sat"
            if replay is None:
                self.errors.append(f"{name}: sat but no replay available: {frac_json(r.model)}")
                self.record(name, "sat-unreplayed", r.seconds, bound, note)
                return "sat"
            try:
                if isinstance(replay, tuple):
                    ok, details = replay[0](frac_json(r.model), **replay[1])
                    details = dict(details, replayer=replay[0].__name__, replayer_kwargs=replay[1])
                else:
                    ok, details = replay(frac_json(r.model))
                    details = dict(details, replayer=getattr(replay, "__name__", "replay"))
            except Exception as ex:  # noqa: BLE001
                ok, details = False, {"replay_exception": repr(ex), "trace": traceback.format_exc()[-800:]}
            if ok:
                self.record(name, "sat", r.seconds, bound, note)
                self._violation(name, r.model, details, finding)
                return "sat"
            tried += 1
            if tried == 1 and not r.stats.get("numeric_search_tries"):
                # the solver's model may satisfy the conditions only under the exp/ln abstraction (e.g. it places a pressure
                # relative to an abstract bubble point).  Look for a model with the true functions and replay that one.
                r3 = LW.search_model(list(conds) + extra, seed=self.seed, time_s=8.0)
                if r3.verdict == "sat":
                    try:
                        if isinstance(replay, tuple):
                            ok3, det3 = replay[0](frac_json(r3.model), **replay[1])
                            det3 = dict(det3, replayer=replay[0].__name__, replayer_kwargs=replay[1])
                        else:
                            ok3, det3 = replay(frac_json(r3.model))
                            det3 = dict(det3, replayer=getattr(replay, "__name__", "replay"))
                    except Exception as ex:  # noqa: BLE001
                        ok3, det3 = False, {"replay_exception": repr(ex)}
                    if ok3:
                        self.record(name, "sat", r.seconds + r3.seconds, bound,
                                    (note + "; " if note else "") + "z3 sat under the exp/ln abstraction; reproducing model found by numeric search of the same formula")
                        self._violation(name, r3.model, det3, finding)
                        return "sat"
            if tried > retries:
                self.errors.append(f"{name}: {tried} counterexamples from the solver did not reproduce on the real "
                                   f"code; last: {frac_json(r.model)} {frac_json(details)}")
                self.record(name, "spurious", r.seconds, bound, note)
                return "spurious"
            # block this model (by input point) and ask again
            blk = []
            for at in T.Atom._all:
                if at.kind == "var" and at.args[0] in r.model and isinstance(r.model[at.args[0]], Fraction):
                    blk.append(T.b_ne(T.Poly.atom(at), T.Poly.const(r.model[at.args[0]])))
            if not blk:
                self.errors.append(f"{name}: sat without input variables")
                return "spurious"
            extra.append(T.b_or(*blk))

    def _violation(self, name, model, details, finding):
        if not model and isinstance(details, dict) and details.get("replayer") and not details.get("_replayed"):
            # an outcome that is concrete on the symbolic path (an accepted input, a dropped call ...), reported by a
            # harness without a solver model: it is confirmed on the real code like any other counterexample first
            import importlib
            mod = importlib.import_module(f"bbverif.props.{self.pid.lower()}")
            fn = getattr(mod, details["replayer"], None)
            try:
                ok, det = fn({}, **details.get("replayer_kwargs", {})) if fn else (False, {"what": "no such replayer"})
            except Exception as ex:  # noqa: BLE001
                ok, det = False, {"what": f"replay raised {ex!r}"}
            if not ok:
                self.errors.append(f"{name}: the symbolic run shows '{details.get('what', '')}' but the real code does not reproduce it "
                                   f"({det.get('what', '')}) - shim or harness too weak")
                self.record(name, "spurious", 0.0, None, "symbolic outcome not reproduced on the real code")
                return
            details = dict(det, symbolic_outcome=details.get("what"), replayer=details["replayer"],
                           replayer_kwargs=details.get("replayer_kwargs", {}), _replayed=True)
        what = details.get("what", name) if isinstance(details, dict) else name
        if finding is not None:
            for k in load_known():
                if k.get("status") == "open" and k.get("id") == finding and k.get("property") == self.pid:
                    self.known.append({"finding": finding, "what": k.get("what", what), "obligation": name})
                    return
        digest = hashlib.sha256(json.dumps(frac_json(model), sort_keys=True).encode()).hexdigest()[:10]
        d = os.path.join(os.environ.get("BBVERIF_OUT", VERIF), "replays", self.pid)
        os.makedirs(d, exist_ok=True)
        safe = "".join(ch if ch.isalnum() or ch in "-_." else "_" for ch in name)
        path = os.path.join(d, f"{safe}-{digest}.json")
        with open(path, "w") as f:
            json.dump({"property": self.pid, "obligation": name, "model": frac_json(model),
                       "details": frac_json(details), "replay_cmd": f"{VERIF}/check {self.pid} --replay {path}"},
                      f, indent=1)
        self.violations.append({"obligation": name, "replay": path, "what": what})

    def crosshair(self, name, src, func, bound=None, timeout=60):
        """Decide a contract on a pure-Python path of the real code with CrossHair (symbolic execution of the unmodified
        function with z3; used where an input is a *string* or a small int that the real-arithmetic engine cannot carry).
        `src` is a module text defining `func` with PEP-316 pre/post lines; `{SRC}` in it is replaced by the analysed tree's
        src directory.  'Confirmed over all paths' -> discharged; a counterexample is re-executed concretely and reported
        only if it reproduces; anything else is inconclusive."""
        import re
        import subprocess
        import tempfile
        text = src.replace("{SRC}", os.path.join(loader.REPO, "src"))
        t0 = time.time()
        with tempfile.TemporaryDirectory(prefix="bbverif-ch-") as d:
            f = os.path.join(d, "ch_harness.py")
            with open(f, "w") as fh:
                fh.write(text)
            exe = os.path.join(os.path.dirname(sys.executable), "crosshair")
            try:
                r = subprocess.run([exe, "check", "--report_all", "--per_condition_timeout", str(timeout), f], capture_output=True, text=True,
                                   timeout=timeout * 4 + 60)
                out = r.stdout + r.stderr
            except Exception as ex:  # noqa: BLE001
                out = f"crosshair failed to run: {ex!r}"
        dt = time.time() - t0
        self.solver_s += dt
        self.paths += 1
        lines = [ln for ln in out.splitlines() if "ch_harness.py" in ln]
        if any("Confirmed over all paths" in ln for ln in lines) and not any(": error:" in ln for ln in lines):
            self.record(name, "unsat", dt, bound, "CrossHair: confirmed over all paths")
            return "unsat"
        m = next((re.search(r"error: (.*?) when calling (" + re.escape(func) + r"\(.*?\))(?= \(which returns|\s*$)", ln) for ln in lines if ": error:" in ln), None)
        if m:
            call = m.group(2)
            ok, det = replay_crosshair({}, src=src, call=call)
            if ok:
                self.record(name, "sat", dt, bound, f"CrossHair counterexample {call}")
                self._violation(name, {"call": call}, dict(det, replayer="replay_crosshair", replayer_kwargs={"src": src, "call": call}, _replayed=True), None)
                return "sat"
            self.errors.append(f"{name}: CrossHair counterexample {call} did not reproduce concretely ({det.get('what')})")
            self.record(name, "spurious", dt, bound, call)
            return "spurious"
        self.errors.append(f"{name}: CrossHair was inconclusive within {timeout}s: {' | '.join(ln.split(': ', 1)[-1] for ln in lines)[:300] or out[-300:]}")
        self.record(name, "unknown", dt, bound, "CrossHair inconclusive")
        return "unknown"

    def known_finding(self, finding, reproduced: bool, what_if_gone=None):
        """Declare that a listed open finding was re-confirmed concretely on this tree (or not)."""
        for k in load_known():
            if k.get("status") == "open" and k.get("id") == finding and k.get("property") == self.pid:
                if reproduced:
                    self.known.append({"finding": finding, "what": k.get("what", "")})
                return True
        return False

    def export(self):
        return {k: (sorted(v) if isinstance(v, set) else v) for k, v in self.__dict__.items()}


def _run_job(args):
    modname, idx, pid, tier, seed = args
    import importlib
    t0 = time.time()
    mod = importlib.import_module(modname)
    jobs = mod.jobs(tier)
    name, fn = jobs[idx]
    job = Job(pid, name, tier, seed)
    try:
        fn(job)
    except T.Unsupported as ex:
        job.errors.append(f"{name}: engine does not support: {ex}\n{traceback.format_exc()[-1500:]}")
    except Exception as ex:  # noqa: BLE001
        job.errors.append(f"{name}: harness exception {ex!r}\n{traceback.format_exc()[-2500:]}")
    out = job.export()
    out["wall"] = time.time() - t0
    return out


def run_check(pid, modname, tier, seed, level_note=""):
    import importlib
    t0 = time.time()
    mod = importlib.import_module(modname)
    jobs = mod.jobs(tier)
    nproc = int(os.environ.get("BBVERIF_PROCS", "0")) or min(16, os.cpu_count() or 1, max(1, len(jobs)))
    only = os.environ.get("BBVERIF_JOBS")
    args = [(modname, i, pid, tier, seed) for i in range(len(jobs)) if not only or only in jobs[i][0]]
    if nproc == 1 or len(jobs) == 1:
        results = [_run_job(a) for a in args]
    else:
        # wall-clock budget for the whole check: a check that cannot finish is inconclusive (exit 3), it never hangs
        budget = float(os.environ.get("BBVERIF_BUDGET_S", "0")) or (1500.0 if tier == "quick" else 4 * 3600.0)
        ctx = mp.get_context("fork")
        with ctx.Pool(nproc, maxtasksperchild=1) as pool:
            pending = [(a, pool.apply_async(_run_job, (a,))) for a in args]
            results = []
            for a, h in pending:
                left = budget - (time.time() - t0)
                try:
                    results.append(h.get(timeout=max(left, 1.0)))
                except mp.TimeoutError:
                    jname = jobs[a[1]][0]
                    j = Job(pid, jname, tier, seed)
                    j.errors.append(f"{jname}: not finished within the check's wall-clock budget of {budget:.0f}s (inconclusive)")
                    out = j.export()
                    out["wall"] = time.time() - t0
                    results.append(out)
            pool.terminate()
    wall = time.time() - t0
    return finish(pid, tier, seed, results, wall, mod)


def finish(pid, tier, seed, results, wall, mod):
    obligations = [dict(o, job=r["name"]) for r in results for o in r["obligations"]]
    violations = [v for r in results for v in r["violations"]]
    known = [k for r in results for k in r["known"]]
    errors = [e for r in results for e in r["errors"]]
    functions = {}
    stubs, assumptions, bounds = set(), set(), {}
    for r in results:
        functions.update(r["functions"])
        stubs.update(r["stubs"])
        assumptions.update(r["assumptions"])
        for k, v in r["bounds"].items():
            bounds.setdefault(k, v)
    discharged = sum(1 for o in obligations if o["verdict"] == "unsat")
    witnesses = sum(1 for o in obligations if o["verdict"] == "sat(witness)")
    paths = sum(r["paths"] for r in results)
    validated = sum(r["validated"] for r in results)
    seen = set()
    for k in known:
        key = (k["finding"])
        if key in seen:
            continue
        seen.add(key)
        print(f"KNOWN-FINDING: property={pid} {k['finding']}: {k['what']}")
    for v in violations:
        print(f"VIOLATION property={pid} replay={v['replay']}")
        print(f"  obligation {v['obligation']}: {v['what']}")
    for e in errors:
        print(f"HARNESS-ERROR property={pid}: {e}", file=sys.stderr)
    # the changed code uses something the symbolic engine does not model, takes a shape the harness cannot interpret, or a
    # solver model could not be reproduced: the obligations of those jobs are undecided (exit 3).  Before giving up, the check's concrete replay family (the same functions that confirm solver models) is
    # run on the real code with its built-in default inputs; a reproduced violation is reported as such.  This decides
    # nothing when it finds nothing.
    fallback_note = None
    if not violations and errors:
        ran = 0
        for fn, kw in getattr(mod, "FALLBACK", []):
            try:
                ok, det = fn({}, **kw)
            except Exception as ex:  # noqa: BLE001
                ok, det = False, {"what": f"replay raised {ex!r}"}
            ran += 1
            if ok:
                j = Job(pid, "fallback", tier, seed)
                j._violation(f"concrete replay family after an engine gap: {fn.__name__}{kw}", {"fallback": True},
                             dict(det, replayer=fn.__name__, replayer_kwargs=kw, _replayed=True), None)
                violations += j.violations
                print(f"VIOLATION property={pid} replay={j.violations[0]['replay']}")
                print(f"  obligation {j.violations[0]['obligation']}: {j.violations[0]['what']}")
                break
        fallback_note = f"engine gap: {ran} concrete replays run on the real code, " + ("a violation reproduced" if violations else "none failed (still inconclusive)")
    samples = []
    for o in obligations[:6] + obligations[-2:]:
        samples.append({k: o[k] for k in ("job", "name", "bound", "verdict", "seconds")})
    vsamples = [s for r in results for s in r["validation_samples"]][:4]
    slowest = sorted(obligations, key=lambda o: -o["seconds"])[:3]
    ev = {
        "property_id": pid,
        "tier": tier,
        "seed": seed,
        "level": "model_checking",
        "coverage": {
            "states": max(paths, 1),
            "transitions": max(len(obligations), 1),
            "traces_validated_against_impl": validated,
            "samples": samples or [{"note": "no obligations"}],
            "obligations": len(obligations),
            "discharged": discharged,
            "reachability_witnesses": witnesses,
            "inconclusive": sum(1 for o in obligations if o["verdict"] in ("unknown", "error", "spurious")),
            "exhaustive": False,
            "rule": "states = symbolic execution paths of the real source explored; transitions = solver queries "
                    "decided (assumptions & path condition & negated property); every verdict is z3's over all "
                    "values within the stated bounds",
            "functions_encoded": functions,
            "stubs": sorted(stubs),
            "bounds": bounds,
            "solver": f"z3 {LW.z3.get_version_string()} (QF_NRA after Ackermann reduction, exp/ln axioms instantiated)",
            "solver_seconds": round(sum(r["solver_s"] for r in results), 2),
            "slowest_obligations": [{k: o[k] for k in ("job", "name", "seconds", "verdict")} for o in slowest],
            "validation_samples": vsamples,
            "known_findings_hit": sorted(seen),
            "engine_gap_fallback": fallback_note,
            "second_solver": {k: sum(r.get("second", {}).get(k, 0) for r in results) for k in ("agree", "no_answer", "disagree")},
            "jobs": [{"name": r["name"], "wall_s": round(r["wall"], 2), "paths": r["paths"],
                      "obligations": len(r["obligations"])} for r in results],
        },
        "assumptions": sorted(assumptions),
        "wall_s": round(wall, 2),
        "violations": len(violations),
    }
    extra = getattr(mod, "EVIDENCE_EXTRA", None)
    if extra:
        ev["coverage"].update(extra)
    # BBVERIF_OUT redirects evidence/replays (used when a scratch tree is analysed through BBVERIF_REPO, so that
    # the committed evidence always describes /repo itself)
    evdir = os.path.join(os.environ.get("BBVERIF_OUT", VERIF), "evidence")
    os.makedirs(evdir, exist_ok=True)
    with open(os.path.join(evdir, f"{pid}.json"), "w") as f:
        json.dump(frac_json(ev), f, indent=1)
    print(f"[{pid}] tier={tier} jobs={len(results)} paths={paths} obligations={len(obligations)} "
          f"unsat={discharged} witnesses={witnesses} validated={validated} known={len(seen)} "
          f"violations={len(violations)} errors={len(errors)} wall={wall:.1f}s")
    if violations:
        return 1
    if errors:
        return 3
    return 0
