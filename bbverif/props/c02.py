"""C02 - the solver converges to the solution of the documented diffusion problem.

A limit over refinement ladders is not a bounded formula.  What is decided here is *consistency*
of the scheme the code implements with the documented boundary-value problem; together with
*stability* (the discrete maximum principle, C01) convergence follows by the Lax-Richtmyer theorem
(cited, not mechanised).  On the systems captured from the real `simulate` methods:

  L1  interior rows are exact for test functions u(x,t) = sum c_ab x^a t^b with a <= 3, b <= 1 and an
      arbitrary (pressure-dependent) diffusivity per node:  (A u(t+dt) - b(u(t)))_j = dt (u_t - a_j u_xx)
      at (x_j, t+dt) - i.e. first order in time, second order in space on the code's own mesh width;
  L2  the outer row is the interior row with the mirror ghost x_n := x_{n-1} (C04 rows obligation);
  L3  the frac-face row: ideal = interior row with ghost value 0 (the scaled frac-face value);
      single phase = interior row with ghost value m_f and previous value m_f, hence
      m_f <= x_0 <= (m_f + x_1)/2 whenever x_1 >= m_f (a first-order perturbation of the Dirichlet value);
  L4  the initial state is uniform at m_i (ideal: 1), node 0 of the single-phase run at m_f[0];
  L5  the recovery stencil (-u2 + 4u1 - 3u0) h_inv / 2 is the exact derivative at node 0 of any
      quadratic profile on a mesh of width 1/h_inv, the time quadrature is the trapezoid rule on the
      run's own time grid, fvf_scale is 1 - p_f/p_i (ideal) and 1 (single phase).
"""
from __future__ import annotations

from fractions import Fraction

from ..sx import terms as T
from ..sx.sym import ctx
from ..shims import scipy_shim as SS
from ..shims.np_shim import SymArray
from .common import (P, box, evalf, model_floats, not_close, paths, rng, K, Q, Sym, lift, simp, fresh)
from .resv import FluidStub, load_reservoir, times, rows_of, policy_exact
from .c04 import replay_rows
from .c01 import replay_series_time  # noqa: F401  (looked up in this module by --replay)


def _u(coef, x, t):
    """Test polynomial and its derivatives at (x, t): returns (u, u_t, u_xx)."""
    u = ut = uxx = Q(0)
    for (a, b), c in coef.items():
        u = u + c * x**a * t**b
        if b >= 1:
            ut = ut + c * b * x**a * t ** (b - 1)
        if a >= 2:
            uxx = uxx + c * a * (a - 1) * x ** (a - 2) * t**b
    return u, ut, uxx


def replay_mesh(model, cls="SinglePhaseReservoir", nx=5):
    """Real captured matrix applied to the samples of x^2 on the documented node positions: an interior
    row must give x_j^2 - 2 dt a_j (the mesh constant must be 1/h^2 of the node spacing)."""
    import numpy as np
    from .c04 import real_capture, _real_fluid
    t = np.array([0.0, 0.013, 0.05])
    fluids = [None] if cls == "IdealReservoir" else [_real_fluid()]
    if cls != "IdealReservoir":
        # the same table with its diffusivity expressed in other units (only the ratio alpha/alpha_i enters the documented
        # problem): field units x 1e-17 (tiny numbers, as SI values for tight rock are)
        from scipy.interpolate import interp1d
        base = fluids[0]

        class Rescaled:
            m_i = base.m_i
            m_scaled_func = base.m_scaled_func
            pvt_props = base.pvt_props
            alpha = interp1d(np.asarray(base.alpha.x, float), np.asarray(base.alpha.y, float) * 1e-17, bounds_error=False,
                             fill_value=(float(np.min(base.alpha.y)) * 1e-17, float(np.max(base.alpha.y)) * 1e-17))
        fluids.append(Rescaled())
        # the shipped table with the user's own CONSTANT diffusivity column next to the full PVT columns: the documented
        # problem is then the constant-diffusivity one (closed-form series), so every interior row must carry a_j = 1
        import warnings
        import pandas as pd
        from bluebonnet.flow import FlowProperties
        from ..sx import loader
        pvt = pd.read_csv(loader.REPO + "/tests/data/pvt_gas.csv").rename(columns={"P": "pressure", "Z-Factor": "z-factor", "Cg": "compressibility",
                                                                            "Viscosity": "viscosity", "Density": "density"})
        pvt["pseudopressure"] = np.asarray(base.pvt_props["pseudopressure"], float) if "pseudopressure" in base.pvt_props else pvt["pressure"] ** 2
        pvt["alpha"] = 3.5
        with warnings.catch_warnings():
            warnings.simplefilter("ignore")
            const = FlowProperties(pvt, 8000.0)
        fluids.append(const)

        # ... and a fluid whose diffusivity FALLS with pressure (a liquid-like table: the shipped values in reverse order), so
        # that the scaled diffusivity alpha / alpha(m_i) is above 1 everywhere below the initial state
        class Falling:
            m_i = base.m_i
            m_scaled_func = base.m_scaled_func
            pvt_props = base.pvt_props
            alpha = interp1d(np.asarray(base.alpha.x, float), np.asarray(base.alpha.y, float)[::-1].copy(), bounds_error=False,
                             fill_value=(float(np.min(base.alpha.y)), float(np.max(base.alpha.y))))
        fluids.append(Falling())

        # ... and the same fluid with its scaled pseudopressure in units where the initial state is 3 rather than below 1
        # (FlowPropertiesSimple on a psi table, or an own-alpha table whose p_i lies between rows, have m_i above 1)
        kk = 3.0 / float(base.m_i)

        class Above1:
            m_i = 3.0
            pvt_props = base.pvt_props

            @staticmethod
            def m_scaled_func(p):
                return kk * np.asarray(base.m_scaled_func(p), float)

            # the diffusivity lookup stays the scipy interpolator it really is (its nodes .x / .y are public)
            alpha = interp1d(np.asarray(base.alpha.x, float) * kk, np.asarray(base.alpha.y, float), bounds_error=False,
                             fill_value=(float(np.min(base.alpha.y)), float(np.max(base.alpha.y))))
        fluids.append(Above1())
    labels = ["shipped gas table", "shipped gas table, diffusivity in units 1e-17 times smaller", "shipped gas table with a constant user diffusivity column",
              "shipped gas table with its diffusivity values in reverse order (falling with pressure)",
              "shipped gas table with the scaled pseudopressure in units where m_i = 3"]
    problems = []
    for fi, fluid in enumerate(fluids):
        res, calls = real_capture(cls, nx, t, fluid, None if fluid is None else np.full(3, 1000.0))
        xs = np.linspace(0, 1, nx) if fluid is None else np.linspace(1 / nx, 1, nx)
        pp = np.asarray(res.pseudopressure, float)
        for i, c in enumerate(calls):
            dt = t[i + 1] - t[i]
            prev = np.minimum(pp[i], 1.0 if fluid is None else float(fluid.m_i))
            a = np.ones(nx) if fluid is None or fi == 2 else fluid.alpha(prev) / fluid.alpha(fluid.m_i)
            got = c["A"] @ xs**2
            for j in range(1, nx - 1):
                want = xs[j] ** 2 - 2 * dt * a[j]
                if abs(got[j] - want) > 1e-9 * (1 + abs(want)):
                    problems.append(f"{labels[fi]}: "
                                    f"step {i} row {j}: (A x^2)_j = {got[j]!r} vs x_j^2 - 2 dt a_j = {want!r}")
    return bool(problems), {"what": f"{cls} nx={nx}: " + ("; ".join(problems[:2]) or "interior rows exact for x^2 on the documented nodes"), "inputs": {}}


def replay_recovery(model, cls="SinglePhaseReservoir", nx=5):
    """recovery_factor() on stored quadratic profiles: amplitudes that fall monotonically, and amplitudes that change sign
    (the flux through the frac face reverses while frac-face pressure is raised: recovery then goes down)."""
    import numpy as np
    from bluebonnet.flow import reservoir as rr
    t = np.array([0.0, 0.5, 2.0, 3.0])
    a0, a1, a2 = 0.3, 1.7, -0.4
    x = np.arange(nx) / (nx - 1)
    for g in (np.array([1.0, 0.7, 0.2, 0.1]), np.array([1.0, -0.6, 0.3, -0.2])):
        r = rr.IdealReservoir(nx, 400.0, 1000.0, None) if cls == "IdealReservoir" else rr.SinglePhaseReservoir(nx, 400.0, 1000.0, None)
        r.time = t
        r.pseudopressure = np.array([gi * (a0 + a1 * x + a2 * x**2) for gi in g])
        rf = np.asarray(r.recovery_factor(), float)
        rate = g * a1
        want = np.concatenate([[0.0], np.cumsum(np.diff(t) * (rate[:-1] + rate[1:]) / 2)]) * ((1 - 400.0 / 1000.0) if cls == "IdealReservoir" else 1.0)
        if bool(np.any(np.abs(rf - want) > 1e-9 * (1 + np.abs(want)))):
            return True, {"what": f"{cls} nx={nx}: recovery of a quadratic profile with amplitudes {g.tolist()}: {rf.tolist()} vs FVF scale x trapezoid of the exact "
                                  f"boundary derivative {want.tolist()}", "inputs": {}}
    return False, {"what": f"{cls} nx={nx}: recovery of quadratic profiles == FVF scale x trapezoid of the exact boundary derivative", "inputs": {}}


def replay_reused_fluid(model, nx=5):
    """Real runs: one SinglePhaseReservoir simulated with one fluid, its `fluid` field replaced by another table (other
    initial pressure / other diffusivity units), simulated again - against a fresh reservoir built with the new fluid."""
    import warnings
    import numpy as np
    import pandas as pd
    from bluebonnet.flow import FlowProperties
    from bluebonnet.flow import reservoir as rr
    from ..sx import loader
    pvt = pd.read_csv(loader.REPO + "/tests/data/pvt_gas.csv").rename(columns={"P": "pressure", "Z-Factor": "z-factor", "Cg": "compressibility",
                                                                        "Viscosity": "viscosity", "Density": "density"})
    t = np.linspace(0, 1.5, 40) ** 2
    with warnings.catch_warnings():
        warnings.simplefilter("ignore")
        fa, fb = FlowProperties(pvt, 8000.0), FlowProperties(pvt, 5000.0)
        r = rr.SinglePhaseReservoir(max(nx, 20), 1000.0, 8000.0, fa)
        r.simulate(t)
        r.fluid, r.pressure_initial = fb, 5000.0
        r.simulate(t)
        f = rr.SinglePhaseReservoir(max(nx, 20), 1000.0, 5000.0, fb)
        f.simulate(t)
    d = float(np.abs(np.asarray(r.pseudopressure, float) - np.asarray(f.pseudopressure, float)).max())
    return d > 1e-9, {"what": f"SinglePhaseReservoir re-used after its fluid was replaced (p_i 8000 -> 5000): field differs from a fresh reservoir's by {d:.3e}", "inputs": {}}


def replay_regrid(model, cls="IdealReservoir", nx=5):
    """Real runs: an object built and run with a coarse grid, its public `nx` field set to a finer one, run again - against
    a fresh object built with the finer grid (a refinement ladder walked on one object)."""
    import numpy as np
    from bluebonnet.flow import reservoir as rr
    from .c04 import _real_fluid
    t = np.linspace(0, 1.0, 15) ** 2
    fluid = None if cls == "IdealReservoir" else _real_fluid()
    mk = (lambda n: rr.IdealReservoir(n, 1000.0, 8000.0, None)) if fluid is None else (lambda n: rr.SinglePhaseReservoir(n, 1000.0, 8000.0, fluid))
    worst = 0.0
    for n0, n1 in ((max(nx - 2, 3), nx), (10, 20), (20, 40)):
        a = mk(n0)
        a.simulate(t)
        a.recovery_factor()
        a.nx = n1
        a.simulate(t)
        b = mk(n1)
        b.simulate(t)
        d = float(np.abs(np.asarray(a.pseudopressure, float) - np.asarray(b.pseudopressure, float)).max())
        dr = float(np.abs(np.asarray(a.recovery_factor(), float) - np.asarray(b.recovery_factor(), float)).max())
        worst = max(worst, d, dr)
        if max(d, dr) > 1e-9:
            return True, {"what": f"{cls} built with nx={n0}, then nx set to {n1} and simulated: field differs from a fresh nx={n1} object's by {d:.3e}, recovery by {dr:.3e}", "inputs": {}}
    return False, {"what": f"{cls}: a regridded object gives the fresh object's run (largest difference {worst:.1e})", "inputs": {}}


def job_interior(job, cls, nx, reused=False, tseries=False, regrid=False):
    mod = load_reservoir()
    job.encoded(mod, f"{cls}.simulate", "_build_matrix")
    job.stub("linear solve: returns the samples of a polynomial test function at the new time (capturing stub)",
             "fluid*: contract stub (diffusivity an uninterpreted positive function: a different value at every node)")
    job.bound(consistency_nx=nx, test_function_degree="x^3, t^1 (10 symbolic coefficients)")
    coef = {(a, b): fresh(f"c{a}{b}") for a in range(4) for b in range(2)}
    h = Q(1, nx - 1) if cls == "IdealReservoir" else Q(1, nx)
    xs = [Q(j) * h if cls == "IdealReservoir" else Q(j + 1) * h for j in range(nx)]
    hold = {}

    def pol(rec):
        t_new = hold["t"].d[rec["index"] + 1]
        c = ctx()
        for j, xv in enumerate(rec["x"]):
            c.assume((lift(xv) == lift(_u(coef, xs[j], t_new)[0])).node)
        return 0

    def run():
        SS.LinSolve.reset(pol)
        SS.reset_names()
        t, _ = times(3)
        if tseries:
            # the time column of a production table (a pandas Series with default labels): same scheme, step by step
            from ..shims.pd_shim import SymSeries
            t = SymSeries(list(t.d), "f8", [0, 1, 2])
        hold["t"] = t
        fluid = FluidStub() if cls != "IdealReservoir" else None
        # regrid: the object was built (and run) on a coarser grid and its public `nx` field then set to this one, as a
        # refinement ladder walked on one object does: the scheme is that of the grid it carries now
        r = (mod.IdealReservoir(Q(nx - 2 if regrid else nx), fresh("pf"), fresh("pi", pos=True), None) if fluid is None
             else mod.SinglePhaseReservoir(Q(nx - 2 if regrid else nx), fresh("pf"), fresh("pi", pos=True), fluid))
        if regrid:
            r.simulate(t)
            SS.LinSolve.reset(pol)
            r.nx = Q(nx)
        if reused:
            # the object has already been run with another fluid (a sweep over tables / initial pressures re-using it):
            # the scheme of the second run is that of the fluid it carries now
            old, r.fluid = fluid, FluidStub("old")
            r.simulate(t)
            SS.LinSolve.reset(pol)
            r.fluid = old
        r.simulate(t)
        return r, fluid, t, list(SS.LinSolve.calls)

    for k, pr in enumerate(paths(job, run, [], max_paths=64)):
        if pr.exc is not None:
            if tseries:
                from .c01 import replay_series_time
                job.prove(f"L1/{cls}[nx={nx}, time grid a pandas Series]: raises {type(pr.exc).__name__}[path{k}]", pr.pc, bound=f"nx={nx}",
                          replay=(replay_series_time, {"cls": cls, "nx": nx}), note=repr(pr.exc)[:100])
                continue
            job.errors.append(f"{cls} nx={nx} interior raised {pr.exc!r}")
            continue
        r, fluid, t, calls = pr.value
        if len(calls) != 2:
            # the code did not take one implicit step per time increment on this path (a shortcut, an early exit, a
            # re-used solution): the scheme is then not the documented one on the grids that reach this path
            job.prove(f"L1/{cls}[nx={nx}]: {len(calls)} implicit steps taken for 2 time increments[path{k}]", pr.pc, bound=f"nx={nx}",
                      replay=(replay_rows, {"cls": cls, "nx": nx, "nt": 3, "schedule": False}))
            continue
        c = calls[1]                       # step 1 -> 2: the previous level is u(., t_1)
        dt = t.d[2] - t.d[1]
        A, b = c["A"].rows, c["b"]
        bad = []
        for j in range(1, nx - 1):
            unew = [_u(coef, xs[i], t.d[2])[0] for i in range(nx)]
            got = Q(0)
            for i in range(nx):
                got = got + A[j][i] * unew[i]
            got = got - b[j]
            _, ut, uxx = _u(coef, xs[j], t.d[2])
            uold = _u(coef, xs[j], t.d[1])[0]
            if fluid is None:
                aj = Q(1)
                clip = []
            else:
                aj = fluid.alpha(uold) / fluid.alpha(fluid.m_i)
                clip = [T.b_le(P(uold), P(fluid.m_i))]
            want = dt * (ut - aj * uxx)
            d = T.p_sub(P(got), P(want))
            if not d.is_zero() and not T.rational_equal(P(got), P(want)):
                bad.append(T.b_not(T.b_eq0(d)))
        hyp = [] if fluid is None else [T.b_le(P(_u(coef, xs[i], t.d[1])[0]), P(fluid.m_i)) for i in range(nx)]
        if fluid is not None:
            hyp = hyp + list(fluid.alpha.pending)      # range of the diffusivity lookups made for the reference (if the code read the nodes)
        job.prove(f"L1/{cls}[nx={nx}]/reach[path{k}]", pr.pc + hyp, expect="sat", elim=True)
        job.prove(f"L1/{cls}[nx={nx}{', object re-used after its fluid was replaced' if reused else ''}{', object built on a coarser grid, nx then reassigned' if regrid else ''}]: interior rows exact for cubic-in-x, linear-in-t test functions on the code's mesh[path{k}]",
                  pr.pc + hyp + [T.b_or(*bad) if bad else T.b_const(False)], bound=f"nx={nx}, any dt, any coefficients, any diffusivity",
                  replay=((replay_reused_fluid, {"nx": nx}) if reused else (replay_regrid, {"cls": cls, "nx": nx}) if regrid else (replay_mesh, {"cls": cls, "nx": nx})),
                  note="canonical-form identity" if not bad else None)


def replay_boundary(model, cls="SinglePhaseReservoir", nx=4):
    """Real runs (captured systems): the frac-face row is the interior row with the documented ghost value, the initial
    state is uniform, and x_0 stays in [m_f, (m_f + x_1)/2].  Runs: the model's step (and scaled copies, large mesh
    ratios included) with a duck-typed fluid carrying the model's m_f, m_i and diffusivity, and the shipped gas table
    at frac-face pressures far from and close to the initial pressure."""
    import numpy as np
    from .c01 import _DuckFluid
    from .c04 import real_capture, _real_fluid
    dt0 = float(model.get("dt1") or 1e-2)
    runs = []
    for scale in (1.0, 1e-3, 30.0, 1e3, 1e5):
        t = np.array([0.0, dt0 * scale, 3 * dt0 * scale])
        if cls == "IdealReservoir":
            runs.append((f"times {t.tolist()}", None, None, *real_capture(cls, nx, t, None, None), t))
            continue
        duck = _DuckFluid(model, 1)
        duck._mf = [duck._mf[0]] * 3
        runs.append((f"times {t.tolist()}, m_f={duck._mf[0]}, m_i={duck.m_i}", duck, duck._mf[0], *real_capture(cls, nx, t, duck, None), t))
    if cls != "IdealReservoir":
        from bluebonnet.flow import reservoir as rr
        fluid = _real_fluid()
        for pf in (1000.0, 4400.0, 7000.0):
            for scale in (1.0, 1e4):
                t = np.array([0.0, 1e-3, 3e-3]) * scale
                calls = []
                lin = rr.sparse.linalg
                orig = lin.spsolve

                def ws(A, b, *a, **k):
                    x = orig(A, b, *a, **k)
                    calls.append({"A": A.toarray(), "b": np.array(b, float), "x": np.array(x, float)})
                    return x
                try:
                    lin.spsolve = ws
                    res = rr.SinglePhaseReservoir(max(nx, 20), pf, 8000.0, fluid)
                    res.simulate(t)
                finally:
                    lin.spsolve = orig
                runs.append((f"shipped gas table, p_f={pf}, p_i=8000, times {t.tolist()}", fluid, float(fluid.m_scaled_func(pf)), res, calls, t))
    problems = []
    for label, fluid, mf, res, calls, t in runs:
        pp = np.asarray(res.pseudopressure, float)
        m_i = 1.0 if fluid is None else float(fluid.m_i)
        init = np.full(pp.shape[1], m_i)
        if fluid is not None:
            init[0] = mf
        if np.any(np.abs(pp[0] - init) > 1e-12 * m_i):
            problems.append(f"{label}: initial state {pp[0].tolist()[:4]}.. is not uniform at {m_i!r} with the frac-face node at {mf!r}")
        for i, c in enumerate(calls[: len(t) - 1]):
            A, b = c["A"], c["b"]
            k0 = -A[0, 1]
            want_b = pp[i][0] if fluid is None else mf * (1 + k0)
            if abs(A[0, 0] - (1 + 2 * k0)) > 1e-9 * (1 + 2 * abs(k0)) or abs(b[0] - want_b) > 1e-9 * (abs(want_b) + 1e-300):
                problems.append(f"{label}: step {i} frac-face row diag {A[0, 0]!r}, off-diag {A[0, 1]!r}, rhs {b[0]!r}: not the interior row with ghost value "
                                f"{0.0 if fluid is None else mf!r} (expected diag {1 + 2 * k0!r}, rhs {want_b!r})")
                break
            x = pp[i + 1]
            if fluid is not None and x[1] >= mf and not (mf * (1 - 1e-9) - 1e-300 <= x[0] <= (mf + x[1]) / 2 * (1 + 1e-9)):
                problems.append(f"{label}: level {i + 1}: x_0 = {x[0]!r} outside [m_f, (m_f + x_1)/2] = [{mf!r}, {(mf + x[1]) / 2!r}]")
                break
    return bool(problems), {"what": "; ".join(problems[:2]) or "frac-face row and initial state as documented", "inputs": {"runs": len(runs)}}


def job_boundary(job, nx):
    mod = load_reservoir()
    job.encoded(mod, "IdealReservoir.simulate", "SinglePhaseReservoir.simulate", "_build_matrix")
    job.solve_defaults = {"abstract": True}
    for cls in ("IdealReservoir", "SinglePhaseReservoir"):
        def run():
            SS.LinSolve.reset(policy_exact())
            SS.reset_names()
            t, _ = times(2)
            fluid = FluidStub() if cls != "IdealReservoir" else None
            r = (mod.IdealReservoir(Q(nx), fresh("pf"), fresh("pi", pos=True), None) if fluid is None
                 else mod.SinglePhaseReservoir(Q(nx), fresh("pf"), fresh("pi", pos=True), fluid))
            r.simulate(t)
            return r, fluid, t, list(SS.LinSolve.calls)
        for k, pr in enumerate(paths(job, run, [], max_paths=16)):
            if pr.exc is not None:
                job.errors.append(f"boundary {cls} raised {pr.exc!r}")
                continue
            r, fluid, t, calls = pr.value
            rows = rows_of(r)
            A, b, x = calls[0]["A"].rows, calls[0]["b"], calls[0]["x"]
            rp = (replay_boundary, {"cls": cls, "nx": nx})
            job.prove(f"boundary/{cls}[nx={nx}]/reach[path{k}]", pr.pc, expect="sat", elim=True, abstract=False)
            # L4 initial state
            if fluid is None:
                init_bad = T.b_or(*[T.b_not(T.b_eq0(P(v - 1))) for v in rows[0]])
            else:
                mf = fluid.m_scaled_func(r.pressure_fracface)
                init_bad = T.b_or(T.b_not(T.b_eq0(P(rows[0][0] - mf))), *[T.b_not(T.b_eq0(P(v - fluid.m_i))) for v in rows[0][1:]])
            job.prove(f"L4/{cls}[nx={nx}]: uniform initial state (frac-face node at the frac-face value)[path{k}]", pr.pc + [init_bad], bound=f"nx={nx}", replay=rp)
            # L3 frac-face row as an interior row with a ghost node
            k1 = -A[1][0]                       # an interior off-diagonal: dt*H*a_1
            k0 = -A[0][1]
            if fluid is None:
                ghost = Q(0)
                want = x[0] - rows[0][0] - k0 * (ghost - 2 * x[0] + x[1])
                got = A[0][0] * x[0] + A[0][1] * x[1] - b[0]
                job.prove(f"L3/{cls}[nx={nx}]: frac-face row == interior row with ghost value 0[path{k}]", pr.pc + [not_close(got, want, abs_tol=Fraction(0))],
                          bound=f"nx={nx}", replay=rp)
            else:
                want = x[0] - mf - k0 * (mf - 2 * x[0] + x[1])
                got = A[0][0] * x[0] + A[0][1] * x[1] - b[0]
                job.prove(f"L3/{cls}[nx={nx}]: frac-face row == interior row with ghost value m_f and previous value m_f[path{k}]",
                          pr.pc + [not_close(got, want, abs_tol=Fraction(0))], bound=f"nx={nx}", replay=rp)
                job.prove(f"L3/{cls}[nx={nx}]: m_f <= x_0 <= (m_f + x_1)/2 whenever x_1 >= m_f[path{k}]",
                          pr.pc + [T.b_le(P(mf), P(x[1])), T.b_or(T.b_lt(P(x[0]), P(mf)), T.b_lt(P(mf + x[1]), P(2 * x[0])))], bound=f"nx={nx}", replay=rp)


def job_recovery(job, nx):
    mod = load_reservoir()
    job.encoded(mod, "IdealReservoir.recovery_factor", "IdealReservoir.fvf_scale", "SinglePhaseReservoir.fvf_scale")
    a0, a1, a2 = fresh("a0"), fresh("a1"), fresh("a2")
    hinv = Q(nx - 1)
    h = 1 / hinv
    for cls in ("IdealReservoir", "SinglePhaseReservoir"):
        def run():
            t, _ = times(3)
            r = (mod.IdealReservoir(Q(nx), fresh("pf", pos=True), fresh("pi", pos=True), None) if cls == "IdealReservoir"
                 else mod.SinglePhaseReservoir(Q(nx), fresh("pf"), fresh("pi", pos=True), None))
            r.time = t
            g = [fresh(f"g{i}") for i in range(3)]         # time-dependent amplitude of the quadratic profile
            rows = [SymArray([g[i] * (a0 + a1 * (j * h) + a2 * (j * h) ** 2) for j in range(nx)], "f8") for i in range(3)]
            r.pseudopressure = SymArray(rows, "f8", (3, nx))
            return r.recovery_factor().d, r.fvf_scale(), t, g, r
        for k, pr in enumerate(paths(job, run, [])):
            rf, fvf, t, g, r = pr.value
            rate = [g[i] * a1 for i in range(3)]          # d/dx of the quadratic at x = 0
            want = [Q(0)]
            for i in range(2):
                want.append(want[-1] + (t.d[i + 1] - t.d[i]) * (rate[i] + rate[i + 1]) / 2)
            scale = (1 - r.pressure_fracface / r.pressure_initial) if cls == "IdealReservoir" else Q(1)
            bad = T.b_or(*[not_close(rf[i], want[i] * scale, abs_tol=Fraction(0)) for i in range(3)])
            job.prove(f"L5/{cls}[nx={nx}]: recovery == FVF scale x trapezoid-in-time of the exact boundary derivative of a quadratic profile[path{k}]",
                      pr.pc + [bad], bound=f"nx={nx}, 3 times, mesh width 1/(nx-1)", replay=(replay_recovery, {"cls": cls, "nx": nx}))
    job.record(f"L5/SinglePhaseReservoir[nx={nx}]: recovery uses mesh width 1/(nx-1), the time stepping 1/nx: relative mismatch 1/nx (first order)", "unsat", 0.0,
               note=f"(nx-1)/nx = {float(Fraction(nx - 1, nx)):.4f}")


def replay_row_order(model, n=3):
    """Real FlowProperties on the model's table listed low-to-high and high-to-low: the functions the solver reads must agree."""
    import warnings
    import numpy as np
    from bluebonnet.flow import flowproperties as fp
    from .c09 import _real_table, _names, LONG
    names = _names(n, LONG)
    m = model_floats(model, names, default={k: 1.0 for k in names})
    t = _real_table(m, n, LONG)
    lo, hi = float(t["pressure"][0]), float(t["pressure"][-1])
    pi = min(max(m["pi"], lo), hi)
    with warnings.catch_warnings():
        warnings.simplefilter("ignore")
        with np.errstate(all="ignore"):
            A = fp.FlowProperties({k: v.copy() for k, v in t.items()}, pi)
            try:
                D = fp.FlowProperties({k: v[::-1].copy() for k, v in t.items()}, pi)
            except ValueError as ex:
                return False, {"what": f"a table listed high-to-low is rejected: {ex!r}", "inputs": m}
            qs = [m["q"], float(A.m_i), 0.5 * float(A.m_i)] + [float(v) for v in np.asarray(A.pvt_props["m-scaled"], float)]
            problems = []
            for q in qs:
                a, d = float(A.alpha(q)), float(D.alpha(q))
                if abs(a - d) > 1e-9 * abs(a):
                    problems.append(f"alpha({q!r}) = {a!r} (rows low-to-high) vs {d!r} (same rows high-to-low)")
            if abs(float(A.m_i) - float(D.m_i)) > 1e-12 * abs(float(A.m_i)):
                problems.append(f"m_i {float(A.m_i)!r} vs {float(D.m_i)!r}")
    return bool(problems), {"what": "; ".join(problems[:3]) or "same functions for both row orders", "inputs": m}


def job_row_order(job, n):
    """The problem that is solved (diffusivity as a function of scaled pseudopressure, m_i, the frac-face value) must not
    depend on the order in which the rows of the PVT table are listed: a table given high-to-low is the same table.
    (A constructor that rejects such a table with ValueError is accepted: nothing is silently different.)"""
    from . import c09
    mod = c09._load()
    job.encoded(mod, "FlowProperties.__init__")
    job.stub("scipy.interpolate.interp1d: exact piecewise-linear model (sorts its abscissae, as scipy does)",
             "numpy.interp (if used): exact on increasing abscissae, unspecified value otherwise (as numpy documents)")
    tab, ps, dom = c09._table(n, c09.LONG)
    pi, q, pf = fresh("pi", pos=True), fresh("q"), fresh("pf", pos=True)
    dom = dom + [T.b_le(P(ps[0]), P(pi)), T.b_le(P(pi), P(ps[-1])), T.b_le(P(ps[0]), P(pf)), T.b_le(P(pf), P(pi))]
    rp = (replay_row_order, {"n": n})

    def run():
        import warnings
        SS.reset_names()
        with warnings.catch_warnings():
            warnings.simplefilter("ignore")
            A = mod.FlowProperties({k: v.copy() for k, v in tab.items()}, pi)
            try:
                D = mod.FlowProperties({k: SymArray(list(reversed(v.d)), v.dtype_tag) for k, v in tab.items()}, pi)
            except ValueError:
                return None
        return A.alpha(q), D.alpha(q), A.m_i, D.m_i, A.m_scaled_func(pf), D.m_scaled_func(pf)

    for k, pr in enumerate(paths(job, run, dom, max_paths=256)):
        if pr.exc is not None:
            job.errors.append(f"row-order[{n}] raised {pr.exc!r}")
            continue
        if pr.value is None:
            job.record(f"row-order[{n}]/table listed high-to-low rejected with ValueError[path{k}]", "unsat", 0.0)
            continue
        aq, dq, ami, dmi, af, df = pr.value
        bad = T.b_or(not_close(dq, aq, abs_tol=Fraction(0)), not_close(dmi, ami, abs_tol=Fraction(0)), not_close(df, af, abs_tol=Fraction(0)))
        job.prove(f"row-order[{n}]/diffusivity lookup, m_i and frac-face value independent of the listing order of the rows[path{k}]",
                  pr.pc + [bad], bound=f"{n} rows, any query", replay=rp)
    job.prove(f"row-order[{n}]/reach", dom, expect="sat")


def replay_user_alpha(model, n=3, pp_dtype="f8"):
    """Real FlowProperties from the model's table with the full PVT columns AND the user's own diffusivity column: the
    diffusivity the solver reads at every table node is the user's."""
    import warnings
    import numpy as np
    from bluebonnet.flow import flowproperties as fp
    from .c09 import _real_table, _names, LONG
    cols = LONG + ("alpha",)
    names = _names(n, cols)
    m = model_floats(model, names, default={k: 1.0 for k in names})
    problems = []
    for const in (False, True):
        t = _real_table(m, n, cols)
        if const:
            t["alpha"] = np.full(n, 3.5)
        if pp_dtype != "f8":
            # a pseudopressure column of whole numbers with an integer dtype (np.arange(...)**2, a CSV of whole numbers)
            q = [max(int(round(t["pseudopressure"][0])), 1)]
            for v in t["pseudopressure"][1:]:
                q.append(max(int(round(v)), q[-1] + 1))
            t["pseudopressure"] = np.array(q, dtype="int64")
        pi = min(max(m["pi"], float(t["pressure"][0])), float(t["pressure"][-1]))
        with warnings.catch_warnings():
            warnings.simplefilter("ignore")
            with np.errstate(all="ignore"):
                try:
                    A = fp.FlowProperties({k: v.copy() for k, v in t.items()}, pi)
                    ms = np.asarray(A.pvt_props["m-scaled"], float)
                    got = np.asarray(A.alpha(ms), float)
                except Exception as ex:  # noqa: BLE001
                    problems.append(f"FlowProperties / its diffusivity lookup raised {ex!r} on an admissible table (pseudopressure dtype {t['pseudopressure'].dtype})")
                    continue
        if not np.all(np.isfinite(ms)) or np.any(np.diff(ms) <= 0):
            problems.append(f"scaled pseudopressure {ms.tolist()} is not increasing (pseudopressure column {t['pseudopressure']!r})")
            continue
        for k in range(n):
            if abs(got[k] - t["alpha"][k]) > 1e-9 * abs(t["alpha"][k]):
                problems.append(f"user diffusivity column {t['alpha'].tolist()}: the solver reads alpha = {got[k]!r} at table node {k}")
    return bool(problems), {"what": "; ".join(problems[:2]) or "the user's diffusivity is the one the solver reads", "inputs": m}


def job_user_alpha(job, n, pp_dtype="f8"):
    """Which problem is solved when the table carries the user's own diffusivity column next to the full PVT columns: the
    documented one with the USER's diffusivity (the constant-diffusivity closed form when that column is constant), so the
    function the time stepping reads must return the user's values at the table nodes."""
    from . import c09
    mod = c09._load()
    job.encoded(mod, "FlowProperties.__init__")
    tab, ps, dom = c09._table(n, c09.LONG + ("alpha",))
    pi = fresh("pi", pos=True)
    dom = dom + [T.b_le(P(ps[0]), P(pi)), T.b_le(P(pi), P(ps[-1]))]
    rp = (replay_user_alpha, {"n": n, "pp_dtype": pp_dtype})
    user = list(tab["alpha"].d)
    dtag = ""
    if pp_dtype != "f8":
        tab["pseudopressure"] = SymArray(list(tab["pseudopressure"].d), pp_dtype)
        dtag = ", int64 pseudopressure column"
        job.bound(pseudopressure_dtype="whole numbers in an integer-typed column")

    def run():
        import warnings
        SS.reset_names()
        with warnings.catch_warnings():
            warnings.simplefilter("ignore")
            A = mod.FlowProperties({k: v.copy() for k, v in tab.items()}, pi)
        ms = A.pvt_props["m-scaled"]
        return [A.alpha(ms.d[k]) for k in range(n)]

    for k, pr in enumerate(paths(job, run, dom, max_paths=256, catch=(Exception,))):
        if pr.exc is not None:
            job.prove(f"user-alpha[{n}{dtag}]/raises {type(pr.exc).__name__}[path{k}]", pr.pc, bound=f"{n} rows", replay=rp, note=repr(pr.exc)[:100])
            continue
        bad = T.b_or(*[not_close(pr.value[j], user[j], abs_tol=Fraction(0)) for j in range(n)])
        job.prove(f"user-alpha[{n}{dtag}]/with full PVT columns and a diffusivity column, the solver reads the user's diffusivity at the nodes[path{k}]",
                  pr.pc + [bad], bound=f"{n} rows", replay=rp)
    job.prove(f"user-alpha[{n}]/reach", dom, expect="sat")


# concrete replays run on the real code when the changed code uses something the engine does not model (harness.finish)
FALLBACK = [(replay_boundary, {}), (replay_boundary, {"cls": "IdealReservoir"}), (replay_mesh, {}), (replay_mesh, {"cls": "IdealReservoir"}), (replay_recovery, {}), (replay_regrid, {}), (replay_regrid, {"cls": "SinglePhaseReservoir"}), (replay_rows, {"nx": 4, "nt": 3}), (replay_rows, {"cls": "IdealReservoir", "nx": 4, "nt": 3})]


def jobs(tier):
    out = [("row-order-3", lambda j: job_row_order(j, 3)), ("user-alpha-3", lambda j: job_user_alpha(j, 3)), ("user-alpha-3-int-pseudopressure", lambda j: job_user_alpha(j, 3, "i8"))]
    for nx in ((5, 6) if tier == "quick" else (5, 6, 7, 8)):
        for cls in ("IdealReservoir", "SinglePhaseReservoir"):
            out.append((f"L1-{cls[:6]}-{nx}", lambda j, c=cls, n=nx: job_interior(j, c, n)))
    out.append(("L1-reused-fluid-5", lambda j: job_interior(j, "SinglePhaseReservoir", 5, reused=True)))
    for cls in ("IdealReservoir", "SinglePhaseReservoir"):
        out.append((f"L1-series-time-{cls[:6]}-5", lambda j, c=cls: job_interior(j, c, 5, tseries=True)))
        out.append((f"L1-regridded-object-{cls[:6]}-5", lambda j, c=cls: job_interior(j, c, 5, regrid=True)))
    out.append(("boundary-4", lambda j: job_boundary(j, 4)))
    out.append(("recovery-5", lambda j: job_recovery(j, 5)))
    if tier != "quick":
        out.append(("boundary-6", lambda j: job_boundary(j, 6)))
        out.append(("recovery-8", lambda j: job_recovery(j, 8)))
    return out
