"""C14 - Brooks-Corey relative permeabilities are finite, within [0, k_max] and monotone.

`relative_permeabilities` and `relative_permeabilities_twophase` are executed on symbolic record
arrays.  Integer Corey exponents are exact polynomial powers; a fractional exponent is a symbolic
real in [1, 6] (x**n = exp(n ln x), numpy's nan for a negative base is a definedness condition).
"""
from __future__ import annotations

from fractions import Fraction

from ..sx import terms as T
from ..shims.np_shim import SymArray, SymRec, NP
from ..shims import pd_shim
from .common import (P, box, check_defined, evalf, load_sym, model_floats, not_close, paths, rng, K, Q, QI, Sym, lift,
                     simp, fresh)

PHASES = (("kro", "So", "S_or", "k_ro_max", "n_o"), ("krw", "Sw", "S_wc", "k_rw_max", "n_w"),
          ("krg", "Sg", "S_gc", "k_rg_max", "n_g"))
PNAMES = ["n_o", "n_w", "n_g", "S_or", "S_wc", "S_gc", "k_ro_max", "k_rw_max", "k_rg_max"]


def _load():
    return load_sym("bluebonnet.flow.flowproperties", pd=pd_shim.PD)


# ------------------------------------------------------------------ replay

def _real_call(m, rows, order=("So", "Sw", "Sg")):
    import numpy as np
    from bluebonnet.flow import flowproperties as fp
    params = fp.RelPermParams(**{k: m[k] for k in PNAMES})
    sat = np.array([tuple(m[f"{s}{j}"] for s in order) for j in range(rows)], dtype=[(s, "f8") for s in order])
    return fp, params, sat


def replay_kr(model, rows=2, exps=None, order=("So", "Sw", "Sg")):
    import numpy as np
    names = PNAMES + [f"{s}{j}" for j in range(rows) for s in ("So", "Sw")]
    m = model_floats(model, names, default={k: 0.0 for k in names})
    if exps is not None:
        m.update(dict(zip(("n_o", "n_w", "n_g"), exps)))
    for j in range(rows):
        m[f"Sg{j}"] = 1.0 - m[f"So{j}"] - m[f"Sw{j}"]
    fp, params, sat = _real_call(m, rows, tuple(order))
    try:
        with np.errstate(all="ignore"):
            kr = fp.relative_permeabilities(sat, params)
    except ValueError as ex:
        return True, {"what": f"admissible input rejected: {ex}", "inputs": m}
    problems = []
    for col, scol, res, kmax, _ in PHASES:
        for j in range(rows):
            v, s = float(kr[col][j]), m[f"{scol}{j}"]
            if not np.isfinite(v):
                problems.append(f"{col}[{j}] = {v!r} is not finite (saturation {s!r}, residual {m[res]!r})")
            elif v < -1e-12 or v > m[kmax] * (1 + 1e-9) + 1e-12:
                problems.append(f"{col}[{j}] = {v!r} outside [0, {kmax}={m[kmax]!r}] (saturation {s!r}, residual {m[res]!r})")
            elif s <= m[res] and v != 0:
                problems.append(f"{col}[{j}] = {v!r} != 0 at saturation {s!r} <= residual {m[res]!r}")
        if rows == 2 and not problems:
            (s0, v0), (s1, v1) = sorted([(m[f"{scol}0"], float(kr[col][0])), (m[f"{scol}1"], float(kr[col][1]))])
            if s0 < s1 and v0 > v1 * (1 + 1e-9) + 1e-15:
                problems.append(f"{col} decreases from {v0!r} to {v1!r} as its saturation rises from {s0!r} to {s1!r}")
    return bool(problems), {"what": "; ".join(problems[:3]) or "all relative permeabilities finite, bounded, monotone",
                            "inputs": m}


def replay_reject(model, rows=1, twice=False):
    import numpy as np
    names = PNAMES + [f"{s}{j}" for j in range(rows) for s in ("So", "Sw", "Sg")]
    m = model_floats(model, names, default={k: 0.0 for k in names})
    fp, params, sat = _real_call(m, rows)
    for attempt in range(2 if twice else 1):
        try:
            with np.errstate(all="ignore"):
                fp.relative_permeabilities(sat, params)
        except ValueError as ex:
            last = ex
            continue
        return True, {"what": "inadmissible parameters / saturations accepted without an error" + (f" on call {attempt + 1} with the same arguments" if twice else ""), "inputs": m}
    return False, {"what": f"rejected as required: {last}", "inputs": m}


def replay_reject_twophase(model):
    """Inadmissible parameters through the two-phase table helper (water at or below connate): must be rejected too."""
    import numpy as np
    from bluebonnet.flow import flowproperties as fp
    m = model_floats(model, PNAMES + ["Sw"], default={k: 0.0 for k in PNAMES + ["Sw"]})
    params = fp.RelPermParams(**{k: m[k] for k in PNAMES})
    sw = min(m["Sw"], m["S_wc"])
    try:
        with np.errstate(all="ignore"):
            fp.relative_permeabilities_twophase(params, sw)
    except ValueError as ex:
        return False, {"what": f"rejected as required: {ex}", "inputs": m}
    except Exception as ex:  # noqa: BLE001
        return True, {"what": f"inadmissible parameters reach the computation: {ex!r} instead of a ValueError from validation", "inputs": m}
    return True, {"what": f"relative_permeabilities_twophase accepted inadmissible parameters (Sw={sw!r}) without an error", "inputs": m}


def replay_twophase(model, exps=(2, 2, 2), again=False, int_zero_water=False):
    import numpy as np
    from bluebonnet.flow import flowproperties as fp
    m = model_floats(model, PNAMES + ["Sw"], default={k: 0.0 for k in PNAMES + ["Sw"]})
    m.update(dict(zip(("n_o", "n_w", "n_g"), exps)))
    if int_zero_water:
        m["S_wc"], m["Sw"] = 0, 0          # no connate water, both written as the Python int 0
    params = fp.RelPermParams(**{k: m[k] for k in PNAMES})
    try:
        with np.errstate(all="ignore"):
            df = fp.relative_permeabilities_twophase(params, m["Sw"])
            if again:
                # the caller converts the table it got to percent in place, then asks for the same curves again
                for c in ("So", "Sw", "Sg", "kro", "krw", "krg"):
                    df[c] = df[c] * 100 + 1
                df = fp.relative_permeabilities_twophase(fp.RelPermParams(**{k: m[k] for k in PNAMES}), m["Sw"])
    except (ValueError, TypeError) as ex:
        return (m["Sw"] <= m["S_wc"]), {"what": f"raised {ex!r}", "inputs": m}
    if m["Sw"] > m["S_wc"]:
        return True, {"what": "Sw above connate water saturation accepted", "inputs": m}
    tot = np.abs(df["So"] + df["Sw"] + df["Sg"] - 1).max()
    krw = np.nanmax(np.abs(df["krw"])) if not np.all(np.isnan(df["krw"])) else float("nan")
    bad = tot > 1e-12 or not krw == 0
    return bad, {"what": f"two-phase table: max |So+Sw+Sg-1| = {tot!r}, max |krw| = {krw!r}", "inputs": m}


# ------------------------------------------------------------------ harness pieces

def _params(mod, exps):
    """Symbolic admissible parameter set; exps = (n_o, n_w, n_g) concrete ints or None for symbolic."""
    vs, dom = box(None, S_or=(0, 1), S_wc=(0, 1), S_gc=(0, 1), k_ro_max=(0, 1), k_rw_max=(0, 1), k_rg_max=(0, 1))
    if exps is None:
        ev, edom = box(None, n_o=(1, 6), n_w=(1, 6), n_g=(1, 6))
        dom += edom
        n = (ev["n_o"], ev["n_w"], ev["n_g"])
    else:
        n = tuple(QI(e) for e in exps)
    dom.append(T.b_lt(P(vs["S_or"] + vs["S_wc"] + vs["S_gc"]), T.ONE))
    params = mod.RelPermParams(n_o=n[0], n_w=n[1], n_g=n[2], S_or=vs["S_or"], S_wc=vs["S_wc"], S_gc=vs["S_gc"],
                               k_ro_max=vs["k_ro_max"], k_rw_max=vs["k_rw_max"], k_rg_max=vs["k_rg_max"])
    return params, vs, dom


def _sats(rows, order=("So", "Sw", "Sg")):
    vs, dom, cols = {}, [], {k: [] for k in order}     # the fields of the record array in the caller's order
    for j in range(rows):
        so, sw = fresh(f"So{j}"), fresh(f"Sw{j}")
        sg = 1 - so - sw
        dom += [T.b_le0(T.p_neg(P(so))), T.b_le0(T.p_neg(P(sw))), T.b_le0(T.p_neg(P(sg)))]
        cols["So"].append(so)
        cols["Sw"].append(sw)
        cols["Sg"].append(sg)
    rec = SymRec({k: SymArray(v, "f8") for k, v in cols.items()})
    return rec, dom


def job_kr(job, exps, order=("So", "Sw", "Sg")):
    mod = _load()
    job.encoded(mod, "relative_permeabilities")
    tag = "n=" + ("symbolic real in [1,6]" if exps is None else ",".join(map(str, exps))) + ("" if order == ("So", "Sw", "Sg") else f"; record fields {','.join(order)}")
    job.bound(saturation_records=2, exponents="integers exactly; fractional: one symbolic real exponent per phase")
    params, pv, dom = _params(mod, exps)
    rec, sdom = _sats(2, order)
    dom = dom + sdom
    res = paths(job, lambda: mod.relative_permeabilities(rec, params), dom, catch=(ValueError,))
    rp = (replay_kr, {"rows": 2, "exps": list(exps) if exps else None, "order": list(order)})
    ok_paths = 0
    for k, pr in enumerate(res):
        if pr.exc is not None:
            job.prove(f"kr[{tag}]/admissible input rejected[path{k}]", pr.pc, bound="admissible box", replay=rp)
            continue
        ok_paths += 1
        kr = pr.value
        job.prove(f"kr[{tag}]/reach[path{k}]", pr.pc, expect="sat")
        # finite: every definedness condition of the path holds (negative base under a real power = nan)
        seen = set()
        for cond, why in pr.ctx.defined:
            if cond.id in seen:
                continue
            seen.add(cond.id)
            job.prove(f"kr[{tag}]/finite[path{k}][{len(seen)}]", pr.pc + [T.b_not(cond)], bound="admissible box",
                      replay=rp, note=why[:100])
        for col, scol, resn, kmax, _ in PHASES:
            vals, sats = kr[col].d, rec[scol].d
            for j in range(2):
                v, s = P(vals[j]), P(sats[j])
                job.prove(f"kr[{tag}]/{col}[{j}]>=0[path{k}]", pr.pc + [T.b_lt(v, T.ZERO)], bound="admissible box", replay=rp)
                job.prove(f"kr[{tag}]/{col}[{j}]<=kmax[path{k}]", pr.pc + [T.b_lt(P(pv[kmax]), v)], bound="admissible box", replay=rp)
                job.prove(f"kr[{tag}]/{col}[{j}]==0 at or below residual[path{k}]",
                          pr.pc + [T.b_le(s, P(pv[resn])), T.b_not(T.b_eq0(v))], bound="admissible box", replay=rp)
            job.prove(f"kr[{tag}]/{col} non-decreasing in own saturation[path{k}]",
                      pr.pc + [T.b_le(P(sats[0]), P(sats[1])), T.b_lt(P(vals[1]), P(vals[0]))], bound="admissible box", replay=rp)
    if ok_paths == 0:
        job.errors.append(f"kr[{tag}]: no path returns normally on admissible inputs")
    # translator validation (only where the real function is finite)
    import numpy as np
    from bluebonnet.flow import flowproperties as fp
    normal = [pr for pr in res if pr.exc is None]
    if normal:
        r = rng(job, 14)
        for _ in range(4):
            env = dict(S_or=r.uniform(0, .3), S_wc=r.uniform(0, .3), S_gc=r.uniform(0, .3), k_ro_max=r.uniform(.1, 1),
                       k_rw_max=r.uniform(.1, 1), k_rg_max=r.uniform(.1, 1))
            if exps is None:
                env.update(n_o=r.uniform(1, 6), n_w=r.uniform(1, 6), n_g=r.uniform(1, 6))
            for j in range(2):
                so = r.uniform(env["S_or"] + .01, 1 - env["S_wc"] - env["S_gc"] - .02)
                sw = r.uniform(env["S_wc"] + .005, 1 - so - env["S_gc"] - .005)
                env[f"So{j}"], env[f"Sw{j}"] = so, sw
            m = dict(env)
            if exps is not None:
                m.update(dict(zip(("n_o", "n_w", "n_g"), [float(e) for e in exps])))
            for j in range(2):
                m[f"Sg{j}"] = 1 - m[f"So{j}"] - m[f"Sw{j}"]
            _, rparams, rsat = _real_call(m, 2)
            real = fp.relative_permeabilities(rsat, rparams)
            for pr in normal:
                try:
                    if not all(T.evalf(c, env) for c in pr.pc):
                        continue
                except T.EvalError:
                    continue
                for col, *_ in PHASES:
                    for j in range(2):
                        job.validate(f"relative_permeabilities.{col}", evalf(pr.value[col].d[j], env), float(real[col][j]), inputs=env)
                break


def job_reject(job):
    mod = _load()
    job.encoded(mod, "relative_permeabilities")
    cases = {
        "exponent > 6": lambda v: [T.b_lt(T.Poly.const(6), P(v["n_w"]))],
        "exponent < 1": lambda v: [T.b_lt(P(v["n_g"]), T.ONE)],
        "residual < 0": lambda v: [T.b_lt(P(v["S_wc"]), T.ZERO)],
        "residual > 1": lambda v: [T.b_lt(T.ONE, P(v["S_or"]))],
        "end-point < 0": lambda v: [T.b_lt(P(v["k_rg_max"]), T.ZERO)],
        "end-point > 1": lambda v: [T.b_lt(T.ONE, P(v["k_ro_max"]))],
        "saturations sum off by more than 1e-3": lambda v: [T.b_lt(T.Poly.const(Fraction(1001, 1000)), P(v["So0"] + v["Sw0"] + v["Sg0"]))],
        "saturations sum short by more than 1e-3": lambda v: [T.b_lt(P(v["So0"] + v["Sw0"] + v["Sg0"]), T.Poly.const(Fraction(999, 1000)))],
    }
    for name, mk in cases.items():
        vs, dom = box(None, n_o=(-2, 9), n_w=(-2, 9), n_g=(-2, 9), S_or=(-1, 2), S_wc=(-1, 2), S_gc=(-1, 2),
                      k_ro_max=(-1, 2), k_rw_max=(-1, 2), k_rg_max=(-1, 2), So0=(-1, 2), Sw0=(-1, 2), Sg0=(-1, 2))
        dom = dom + mk(vs)
        params = mod.RelPermParams(**{k: vs[k] for k in PNAMES})
        rec = SymRec({k: SymArray([vs[k + "0"]], "f8") for k in ("So", "Sw", "Sg")})
        # a second call with the same inadmissible arguments is rejected like the first (nothing remembers them as checked)
        def again():
            try:
                mod.relative_permeabilities(rec, params)
            except ValueError:
                pass
            return mod.relative_permeabilities(rec, mod.RelPermParams(*tuple(params)))
        for k, pr in enumerate(paths(job, again, dom, catch=(ValueError,), max_paths=64)):
            if pr.exc is None:
                job.prove(f"reject/{name}/accepted on a second call with the same arguments[path{k}]", pr.pc, bound="one saturation record", replay=(replay_reject, {"rows": 1, "twice": True}))
        res = paths(job, lambda: mod.relative_permeabilities(rec, params), dom, catch=(ValueError,), max_paths=64)
        raised = 0
        for k, pr in enumerate(res):
            if pr.exc is not None:
                raised += 1
                continue
            job.prove(f"reject/{name}/accepted[path{k}]", pr.pc, bound="one saturation record", replay=(replay_reject, {"rows": 1}))
        if not name.startswith("saturations"):
            # the same inadmissible parameter through the two-phase table helper (the second public entry point)
            sw = fresh("Sw")
            dom2 = dom + [T.b_le0(T.p_neg(P(sw))), T.b_le(P(sw), P(vs["S_wc"]))]
            res2 = paths(job, lambda: mod.relative_permeabilities_twophase(params, sw), dom2, catch=(Exception,), max_paths=64)
            for k, pr in enumerate(res2):
                if isinstance(pr.exc, ValueError):
                    continue
                job.prove(f"reject/{name}/accepted by relative_permeabilities_twophase[path{k}]", pr.pc, bound="water at or below connate",
                          replay=replay_reject_twophase, note=(repr(pr.exc)[:80] if pr.exc is not None else "returned a table"))
            job.record(f"reject/{name}: two-phase helper, {sum(1 for p_ in res2 if isinstance(p_.exc, ValueError))} of {len(res2)} paths raise ValueError", "info", 0.0)
        if raised == 0:
            job.errors.append(f"reject/{name}: no path raises")
        else:
            job.record(f"reject/{name}: {raised} raising path(s) explored", "unsat" if raised == len(res) else "see paths", 0.0,
                       note="every feasible path raises ValueError" if raised == len(res) else None)


def job_reject_mixed(job):
    """A saturation array in which only *some* records are off the simplex must be rejected as well (every record is
    checked, in either position)."""
    mod = _load()
    job.encoded(mod, "relative_permeabilities")
    for bad_at in (0, 1):
        for sense in ("above", "below"):
            ranges = dict(n_o=(1, 6), n_w=(1, 6), n_g=(1, 6), S_or=(0, "0.3"), S_wc=(0, "0.3"), S_gc=(0, "0.3"), k_ro_max=(0, 1), k_rw_max=(0, 1), k_rg_max=(0, 1))
            for j in range(2):
                ranges.update({f"So{j}": (0, 1), f"Sw{j}": (0, 1), f"Sg{j}": (-1, 2)})
            vs, dom = box(None, **ranges)
            good = 1 - bad_at
            dom = dom + [T.b_eq(P(vs[f"So{good}"] + vs[f"Sw{good}"] + vs[f"Sg{good}"]), T.ONE), T.b_le0(T.p_neg(P(vs[f"Sg{good}"])))]
            tot = vs[f"So{bad_at}"] + vs[f"Sw{bad_at}"] + vs[f"Sg{bad_at}"]
            dom.append(T.b_lt(T.Poly.const(Fraction(1001, 1000)), P(tot)) if sense == "above" else T.b_lt(P(tot), T.Poly.const(Fraction(999, 1000))))
            params = mod.RelPermParams(**{k: vs[k] for k in PNAMES})
            rec = SymRec({k: SymArray([vs[k + "0"], vs[k + "1"]], "f8") for k in ("So", "Sw", "Sg")})
            res = paths(job, lambda: mod.relative_permeabilities(rec, params), dom, catch=(ValueError,), max_paths=64)
            raised = sum(1 for pr in res if pr.exc is not None)
            for k, pr in enumerate(res):
                if pr.exc is None:
                    job.prove(f"reject/record {bad_at} of 2 sums {sense} one by more than 1e-3, the other record is on the simplex/accepted[path{k}]", pr.pc,
                              bound="two saturation records", replay=(replay_reject, {"rows": 2}))
            if not raised:
                job.errors.append(f"reject/mixed[{bad_at},{sense}]: no path raises")
            else:
                job.record(f"reject/mixed[{bad_at},{sense}]: {raised} of {len(res)} path(s) raise ValueError", "unsat" if raised == len(res) else "see paths", 0.0)


def job_twophase(job, exps, again=False, int_zero_water=False):
    """`again`: the table of a first call is modified in place by its caller (saturations to percent), then the same curves
    are requested again with equal arguments: the second table must be the Brooks-Corey table, not the caller's edit."""
    mod = _load()
    job.encoded(mod, "relative_permeabilities_twophase", "relative_permeabilities")
    job.stub("pandas.DataFrame / to_records / concat: exact column containers (SymFrame)")
    job.bound(twophase_rows=50, twophase_exponents=str(exps))
    params, pv, dom = _params(mod, exps)
    sw = fresh("Sw")
    dom = dom + [T.b_le0(T.p_neg(P(sw))), T.b_le(P(sw), T.ONE)]
    if int_zero_water:
        # no connate water, written the way a user writes it: S_wc = 0 and Sw = 0 as Python ints (the water column of the
        # helper's table is then an integer array)
        from ..sx.sym import QI
        params = params._replace(S_wc=QI(0))
        pv = dict(pv, S_wc=QI(0))
        sw = QI(0)
        job.bound(water="S_wc = 0 and Sw = 0 given as Python ints")
    tag = ",".join(map(str, exps)) + (";second call after the caller edited the first table" if again else "") + (";S_wc = Sw = 0 as Python ints" if int_zero_water else "")

    def run():
        df = mod.relative_permeabilities_twophase(params, sw)
        if again:
            for c in ("So", "Sw", "Sg", "kro", "krw", "krg"):
                df[c] = df[c] * 100 + 1
            df = mod.relative_permeabilities_twophase(mod.RelPermParams(*tuple(params)), sw)
        return df
    res = paths(job, run, dom, catch=(ValueError, TypeError))
    rp = (replay_twophase, {"exps": list(exps), "again": again, "int_zero_water": int_zero_water})
    for k, pr in enumerate(res):
        if pr.exc is not None:
            # must only happen for Sw > S_wc
            job.prove(f"twophase[{tag}]/error only above connate water[path{k}]", pr.pc + [T.b_le(P(sw), P(pv["S_wc"]))],
                      bound="admissible box", replay=rp)
            continue
        df = pr.value
        job.prove(f"twophase[{tag}]/accepted only at or below connate water[path{k}]", pr.pc + [T.b_lt(P(pv["S_wc"]), P(sw))],
                  bound="admissible box", replay=rp)
        job.prove(f"twophase[{tag}]/reach[path{k}]", pr.pc, expect="sat")
        n = len(df)
        bad_sum = T.b_or(*[T.b_not(T.b_eq0(P(df["So"].d[j] + df["Sw"].d[j] + df["Sg"].d[j] - 1))) for j in range(n)])
        job.prove(f"twophase[{tag}]/rows sum to one[path{k}]", pr.pc + [bad_sum], bound=f"{n} rows", replay=rp)
        bad_w = T.b_or(*[T.b_not(T.b_eq0(P(df["krw"].d[j]))) for j in range(n)])
        job.prove(f"twophase[{tag}]/krw == 0[path{k}]", pr.pc + [bad_w], bound=f"{n} rows", replay=rp)
        for want in ("So", "Sw", "Sg", "kro", "krw", "krg"):
            if want not in df:
                job.errors.append(f"twophase: column {want} missing")


def jobs(tier):
    ints = [(1, 1, 1), (2, 2, 2), (3, 3, 3)] if tier == "quick" else [(n, n, n) for n in range(1, 7)] + [(1, 3, 6), (6, 2, 4), (5, 1, 6), (2, 6, 3), (3, 4, 1)]
    out = [(f"kr-n{e[0]}{e[1]}{e[2]}", (lambda j, e=e: job_kr(j, e))) for e in ints]
    out.append(("kr-fractional", lambda j: job_kr(j, None)))
    out.append(("kr-n212-fields-So-Sg-Sw", lambda j: job_kr(j, (2, 1, 2), ("So", "Sg", "Sw"))))
    out.append(("reject", job_reject))
    out.append(("reject-mixed", job_reject_mixed))
    out.append(("twophase-n2-asked-again", lambda j: job_twophase(j, (2, 2, 2), True)))
    out.append(("twophase-n2-int-zero-water", lambda j: job_twophase(j, (2, 2, 2), False, True)))
    out += [(f"twophase-n{e[0]}", (lambda j, e=e: job_twophase(j, e))) for e in ([(2, 2, 2)] if tier == "quick" else [(1, 1, 1), (2, 2, 2), (3, 3, 3), (4, 4, 4), (1, 3, 2)])]
    return out
