"""C04 - each time level is the implicit backward-Euler update of the previous one.

Three obligations whose conjunction implies the property (DESIGN.md section 4, C04):
  rows       the system the code hands to the linear solver is, row by row (interior nodes and the
             no-flow outer node), the backward-Euler row built from the previous level, that step's
             time increment, the scaled diffusivity at the previous level and one mesh constant for
             the whole run (affine identity in the unknowns; previous level havoc'd);
  tolerance  the residual the solver call is allowed to leave is at rounding level:
             for all B >= 0: max(atol, rtol B) <= 1e-9 B + 1e-11 (direct solves: exact by contract);
  flag       a solve that reports non-convergence is never stored: on every path on which the stub
             returns info != 0, simulate does not complete normally.
"""
from __future__ import annotations

import inspect
from fractions import Fraction

from ..sx import terms as T
from ..sx import loader
from ..sx.sym import ctx
from ..shims import scipy_shim as SS
from ..shims.np_shim import SymArray
from .common import (P, box, evalf, model_floats, not_close, paths, rng, K, Q, Sym, lift, simp, fresh, uf_callable)
from .resv import FluidStub, load_reservoir, times, rows_of, policy_exact
from .c01 import _DuckFluid, _real_run, replay_series_time  # noqa: F401


def scipy_defaults():
    from scipy.sparse.linalg import bicgstab
    sig = inspect.signature(bicgstab)
    return {k: v.default for k, v in sig.parameters.items() if k in ("rtol", "atol")}


# ------------------------------------------------------------------ real-code capture and replays

def real_capture(cls, nx, t, fluid=None, schedule=None, adversary=None):
    """Run the real simulate, recording (A dense, b, x, info) of every linear solve."""
    import numpy as np
    from bluebonnet.flow import reservoir as rr
    calls = []
    lin = rr.sparse.linalg
    orig_b, orig_s = lin.bicgstab, lin.spsolve

    def wb(A, b, *a, **k):
        out = adversary(A, b) if adversary else orig_b(A, b, *a, **k)
        calls.append({"A": A.toarray(), "b": np.array(b, float), "x": np.array(out[0], float), "info": out[1], "kw": k, "kind": "bicgstab"})
        return out

    def ws(A, b, *a, **k):
        x = orig_s(A, b, *a, **k)
        calls.append({"A": A.toarray(), "b": np.array(b, float), "x": np.array(x, float), "info": 0, "kw": k, "kind": "spsolve"})
        return x
    try:
        lin.bicgstab, lin.spsolve = wb, ws
        if cls == "IdealReservoir":
            res = rr.IdealReservoir(nx, 0.0, 1.0, None)
            res.simulate(t)
        else:
            res = rr.SinglePhaseReservoir(nx, 0.0, 1.0, fluid)
            if schedule is not None:
                res.simulate(t, pressure_fracface=schedule)
            else:
                res.simulate(t)
    finally:
        lin.bicgstab, lin.spsolve = orig_b, orig_s
    return res, calls


def _real_fluid():
    import pandas as pd
    import warnings
    from bluebonnet.flow import FlowProperties
    pvt = pd.read_csv(loader.REPO + "/tests/data/pvt_gas.csv").rename(columns={"P": "pressure", "Z-Factor": "z-factor", "Cg": "compressibility",
                                                                      "Viscosity": "viscosity", "Density": "density"})
    with warnings.catch_warnings():
        warnings.simplefilter("ignore")
        return FlowProperties(pvt, 8000.0)


def _rows_problems(calls, pp, t, nx, fluid, cls=None):
    """(a) every captured system of a real run against the backward-Euler rows built from the stored previous level;
    (b) every STORED level against the backward-Euler update of the stored previous level (whatever the code solved,
    re-used or skipped), with the mesh constant of the first captured system (documented constant if none)."""
    import numpy as np
    problems = []
    H = None
    m_i = 1.0 if fluid is None else float(fluid.m_i)

    def alpha_of(pm):
        return np.ones(nx) if fluid is None else np.asarray(fluid.alpha(pm), float) / float(fluid.alpha(fluid.m_i))
    for i, c in enumerate(calls):
        if i >= len(t) - 1:
            break
        prev = pp[i]
        dt = t[i + 1] - t[i]
        pm = np.minimum(prev, m_i)
        a = alpha_of(pm)
        A, b = c["A"], c["b"]
        Hi = -A[nx - 1, nx - 2] / (dt * a[nx - 1])
        H = Hi if H is None else H
        if abs(Hi - H) > 1e-9 * abs(H):
            problems.append(f"step {i}: mesh constant {Hi!r} differs from the first step's {H!r}")
        for j in range(1, nx):
            want = np.zeros(nx)
            r = dt * H * a[j]
            if j < nx - 1:
                want[j - 1], want[j], want[j + 1] = -r, 1 + 2 * r, -r
            else:
                want[j - 1], want[j] = -r, 1 + r
            if np.any(np.abs(A[j] - want) > 1e-9 * (1 + abs(r))) or abs(b[j] - pm[j]) > 1e-12 * (1 + abs(pm[j])):
                problems.append(f"step {i} row {j}: matrix row {A[j].tolist()} rhs {b[j]!r} vs backward-Euler row {want.tolist()} rhs {pm[j]!r} "
                                f"(stored previous level {prev.tolist()})")
    if H is None:
        H = float((nx - 1) ** 2 if fluid is None and cls != "SinglePhaseReservoir" else nx ** 2)
    for i in range(len(t) - 1):
        prev, x = pp[i], pp[i + 1]
        dt = t[i + 1] - t[i]
        pm = np.minimum(prev, m_i)
        a = alpha_of(pm)
        for j in range(1, nx):
            r = dt * H * a[j]
            lap = (x[j - 1] - 2 * x[j] + x[j + 1]) if j < nx - 1 else (x[j - 1] - x[j])
            res = x[j] - pm[j] - r * lap
            scale = abs(pm[j]) + r * (abs(x[j - 1]) + 2 * abs(x[j]) + (abs(x[j + 1]) if j < nx - 1 else 0.0)) + 1e-300
            if abs(res) > 1e-9 * scale:
                problems.append(f"stored level {i + 1}, node {j}: backward-Euler residual {res!r} (relative {abs(res) / scale:.2e}) against the stored level {i} "
                                f"with dt={dt!r}: {prev.tolist()} -> {x.tolist()}")
                break
    return problems


def replay_rows(model, cls="SinglePhaseReservoir", nx=4, nt=3, schedule=False, tdtype="f8"):
    """Real runs through the public API on the witness: the model's time grid (and the same grid with its steps scaled
    up, which lets the field relax further towards the schedule), the model's frac-face schedule and diffusivity (a
    duck-typed FlowProperties built from the solver's model) and the shipped gas table.  The havoc'd level of the
    symbolic step is NOT injected: a violation is reported only if some real run stores a level that is not the
    backward-Euler update of the stored previous level.  The time grid is also scaled up (the field relaxes further
    towards the schedule) and down (very fine steps, where a shortcut that looks at the change per step would fire)."""
    import numpy as np
    runs = []
    for scale in (1.0, 30.0, 1000.0, 1e-3, 1e-6, 1e-9):
        t = [float(model.get("t0") or 0.0)]
        for k in range(1, nt):
            t.append(t[-1] + scale * float(model.get(f"dt{k}") or 10.0 ** (-k)))
        t = np.array(t)
        if tdtype != "f8":
            # whole days passed as an integer array (np.arange): increments of at least one
            q = [int(round(t[0]))]
            for v in np.diff(t):
                q.append(q[-1] + max(1, int(round(v))))
            t = np.array(q, dtype={"i8": "int64", "i4": "int32"}[tdtype])
        if cls == "IdealReservoir":
            res, calls = real_capture(cls, nx, t, None, None)
            runs.append((f"times {t.tolist()}", None, res, calls, t))
            continue
        duck = _DuckFluid(model, nt)
        if schedule:
            res, calls = real_capture(cls, nx, t, duck, np.arange(nt, dtype=float))
        else:
            duck._mf = [duck._mf[0]] * nt
            res, calls = real_capture(cls, nx, t, duck, None)
        runs.append((f"times {t.tolist()}, m_f={duck._mf}, m_i={duck.m_i}, diffusivity from the solver's model", duck, res, calls, t))
        if scale == 1.0:
            fluid = _real_fluid()
            sched = np.full(nt, 1000.0)
            if schedule:
                # same ordering of the frac-face values as in the model, on the shipped table
                mf = np.array(duck._mf) / max(duck.m_i, 1e-300)
                sched = 200.0 + np.clip(mf, 0.0, 1.0) * 7000.0
            res, calls = real_capture(cls, nx, t, fluid, sched)
            runs.append((f"times {t.tolist()}, shipped gas table, p_i=8000, schedule {sched.tolist()}", fluid, res, calls, t))
    # long runs on very fine / slowly drifting grids against an independent backward-Euler stepper written here (dense
    # solve per step): a shortcut that skips or re-uses steps leaves a per-step residual below rounding level on such
    # grids and only shows in the accumulated field
    for label, tl in (("uniform dt=1e-7, 3000 steps", np.arange(3001) * 1e-7), ("uniform dt=1e-6, 3000 steps", np.arange(3001) * 1e-6),
                      ("geometric, ratio 1+5e-6, 3000 steps", np.concatenate([[0.0], np.cumsum(1e-3 * (1 + 5e-6) ** np.arange(3000))]))):
        if cls == "IdealReservoir":
            fl = None
            res, calls = real_capture(cls, max(nx, 6), tl, None, None)
        else:
            fl = _real_fluid()
            res, calls = real_capture(cls, max(nx, 6), tl, fl, np.full(len(tl), 1000.0))
        n = max(nx, 6)
        pp = np.asarray(res.pseudopressure, float)
        ref = pp[0].copy()
        H = float((n - 1) ** 2) if fl is None else float(n * n)
        m_i = 1.0 if fl is None else float(fl.m_i)
        mf = 0.0 if fl is None else float(fl.m_scaled_func(1000.0))
        for i in range(len(tl) - 1):
            pm = np.minimum(ref, m_i)
            if fl is not None:
                pm[0] = mf
            a = np.ones(n) if fl is None else np.asarray(fl.alpha(pm), float) / float(fl.alpha(fl.m_i))
            r = (tl[i + 1] - tl[i]) * H * a
            A = np.zeros((n, n))
            for j in range(n):
                A[j, j] = 1 + 2 * r[j]
                if j:
                    A[j, j - 1] = -r[j]
                if j < n - 1:
                    A[j, j + 1] = -r[j]
            A[n - 1, n - 1] = 1 + r[n - 1]
            rhs = pm.copy()
            if fl is not None:
                rhs[0] = mf + r[0] * mf
            ref = np.linalg.solve(A, rhs)
        d = float(np.abs(pp[-1] - ref).max())
        if d > 1e-7 * m_i:
            return True, {"what": f"{cls} nx={n}, {label}: the final stored level differs from an independent backward-Euler stepper by {d:.3e} "
                                  f"(real {pp[-1][:4].tolist()}.. vs reference {ref[:4].tolist()}..)", "inputs": {"grid": label}}
    for what, fluid, res, calls, t in runs:
        pp = np.asarray(res.pseudopressure, float)
        problems = _rows_problems(calls, pp, t, nx, fluid, cls)
        if problems:
            return True, {"what": f"{cls} nx={nx}, {what}: " + "; ".join(problems[:2]), "inputs": {k: v for k, v in model.items() if k != "__uf__"}}
    # logarithmic time grids (the usual grid for scaled-time curves) on finer meshes: the mesh ratio sweeps ten decades, so
    # every step size at which a solver with a drop or stop threshold changes behaviour is visited
    tl = np.concatenate([[0.0], np.logspace(-9, 1, 121)])
    for n in (12, 60):
        fl = None if cls == "IdealReservoir" else _real_fluid()
        res, calls = real_capture(cls, n, tl, fl, None if fl is None else np.full(len(tl), 1000.0))
        problems = _rows_problems(calls, np.asarray(res.pseudopressure, float), tl, n, fl, cls)
        if problems:
            return True, {"what": f"{cls} nx={n}, times 0 and logspace(-9, 1, 121): " + "; ".join(problems[:2]), "inputs": {"grid": "logspace(-9, 1, 121)"}}
    return False, {"what": f"{cls} nx={nx}: every row of {len(runs)} real runs is the backward-Euler row", "inputs": {k: v for k, v in model.items() if k != "__uf__"}}


def replay_tolerance(model, cls="SinglePhaseReservoir", nx=None):
    """Relative residual of the stored levels on fine grids (small systems are solved exactly by a Krylov
    method; the scaled-up family of the witness is where a loose tolerance shows)."""
    import numpy as np
    worst = 0.0
    info = []
    for nx in ((30, 100, 200) if not nx or nx <= 200 else (nx, nx + 100)):
        t = np.linspace(0, 2.0, 40) ** 2
        fluid = None if cls == "IdealReservoir" else _real_fluid()
        res, calls = real_capture(cls, nx, t, fluid, None if cls == "IdealReservoir" else np.full(len(t), 1000.0))
        for c in calls:
            rel = np.linalg.norm(c["b"] - c["A"] @ c["x"]) / np.linalg.norm(c["b"])
            worst = max(worst, rel)
        info.append((nx, worst))
    bad = worst > 1e-9
    return bad, {"what": f"{cls}: largest relative residual ||b - A x||/||b|| of a stored level = {worst:.3e} (nx, running max: {info}); "
                         f"rounding level would be <= 1e-9", "inputs": {"B": model.get("B")}}


def replay_flag(model, cls="SinglePhaseReservoir", nx=5):
    """Adversary stage: the real code with the library solver replaced by one that reports failure."""
    import numpy as np
    t = np.array([0.0, 0.01, 0.03])
    fluid = None if cls == "IdealReservoir" else _real_fluid()

    def adversary(A, b):
        return np.full(len(b), 12345.0), 1
    try:
        res, calls = real_capture(cls, nx, t, fluid, None if fluid is None else np.full(3, 1000.0), adversary=adversary)
    except Exception as ex:  # noqa: BLE001
        return False, {"what": f"a solve reporting non-convergence raises {ex!r}"}
    if not calls or calls[0]["kind"] != "bicgstab":
        return False, {"what": "no iterative solver call to subvert"}
    pp = np.asarray(res.pseudopressure, float)
    bad = bool(np.any(pp == 12345.0))
    return bad, {"what": f"{cls}: a solver result flagged info=1 (not converged) was stored in pseudopressure without an error: level 1 = {pp[1].tolist()}"}


# ------------------------------------------------------------------ symbolic jobs

def _run(mod, cls, nx, nt, policy, schedule=False):
    SS.LinSolve.reset(policy)
    SS.reset_names()
    t, _ = times(nt)
    if cls == "IdealReservoir":
        r = mod.IdealReservoir(Q(nx), fresh("pf"), fresh("pi", pos=True), None)
        r.simulate(t)
        return r, None, t
    fluid = FluidStub()
    r = mod.SinglePhaseReservoir(Q(nx), fresh("pf"), fresh("pi", pos=True), fluid)
    if schedule:
        r.simulate(t, pressure_fracface=SymArray([fresh(f"pfs{k}") for k in range(nt)], "f8"))
    else:
        r.simulate(t)
    return r, fluid, t


def replay_reused_fluid(model, nx=4):
    """Real runs: a SinglePhaseReservoir simulated with one fluid, its `fluid` (and initial pressure) replaced, simulated
    again: every stored level of the second run is the backward-Euler update of the previous one with the diffusivity
    of the fluid the object carries now."""
    import warnings
    import numpy as np
    import pandas as pd
    from bluebonnet.flow import FlowProperties
    from bluebonnet.flow import reservoir as rr
    pvt = pd.read_csv(loader.REPO + "/tests/data/pvt_gas.csv").rename(columns={"P": "pressure", "Z-Factor": "z-factor", "Cg": "compressibility",
                                                                        "Viscosity": "viscosity", "Density": "density"})
    t = np.linspace(0, 1.0, 12) ** 2
    n = max(nx, 8)
    with warnings.catch_warnings():
        warnings.simplefilter("ignore")
        fa, fb = FlowProperties(pvt, 8000.0), FlowProperties(pvt, 5000.0)
        r = rr.SinglePhaseReservoir(n, 1000.0, 8000.0, fa)
        r.simulate(t)
        r.fluid, r.pressure_initial = fb, 5000.0
        r.simulate(t)
    problems = _rows_problems([], np.asarray(r.pseudopressure, float), t, n, fb, cls="SinglePhaseReservoir")
    return bool(problems), {"what": "SinglePhaseReservoir re-used after its fluid was replaced (p_i 8000 -> 5000): " + ("; ".join(problems[:2]) or "levels are backward-Euler updates"),
                            "inputs": {}}


def replay_rows_buildup(model, nx=4):
    """Real single-phase runs whose frac-face schedule rises above the initial pressure after some drawdown (a build-up, or
    injection): every stored level against the backward-Euler update of the stored previous level."""
    import numpy as np
    fluid = _real_fluid()
    t = np.array([0.0, 0.004, 0.02, 0.05, 0.2, 0.5])
    for n in (nx, 12):
        for sched in ([2000.0, 2000.0, 2000.0, 9500.0, 11000.0, 11000.0], [6000.0, 3000.0, 8500.0, 8500.0, 4000.0, 9000.0]):
            res, calls = real_capture("SinglePhaseReservoir", n, t, fluid, np.array(sched))
            problems = _rows_problems(calls, np.asarray(res.pseudopressure, float), t, n, fluid, "SinglePhaseReservoir")
            if problems:
                return True, {"what": f"SinglePhaseReservoir nx={n}, p_i=8000, schedule {sched} (rises above the initial pressure): " + "; ".join(problems[:2]),
                              "inputs": {"schedule": sched}}
    return False, {"what": "every stored level of the build-up runs is the backward-Euler update", "inputs": {}}


def replay_rows_after_recovery(model, cls="SinglePhaseReservoir", nx=4):
    """Real run, then recovery_factor() and the interpolator (as every plot and fit does): the stored levels are still the
    backward-Euler updates they were right after simulate."""
    import numpy as np
    from bluebonnet.flow import reservoir as rr
    t = np.linspace(0, 1.2, 12) ** 2
    r = rr.IdealReservoir(max(nx, 6), 1000.0, 8000.0, None) if cls == "IdealReservoir" else rr.SinglePhaseReservoir(max(nx, 6), 1000.0, 8000.0, _real_fluid())
    r.simulate(t)
    before = np.array(r.pseudopressure, dtype=float, copy=True)
    r.recovery_factor()
    r.recovery_factor_interpolator()
    after = np.asarray(r.pseudopressure, float)
    bad = after.shape != before.shape or not np.array_equal(after, before)
    cols = [] if not bad or after.shape != before.shape else np.nonzero(np.any(after != before, axis=0))[0].tolist()
    return bad, {"what": f"{cls}: recovery_factor() / the interpolator changed the stored levels (nodes {cols}): they are no longer the updates simulate stored" if bad
                 else f"{cls}: stored levels untouched by the recovery calls", "inputs": {}}


def job_rows(job, cls, nx, nt, schedule=False, reachable=False, tdtype="f8", reused_fluid=False, tseries=False, after_recovery=False, buildup=False):
    """reachable=False: every level is havoc'd inside C01's bounds (covers any number of steps; a counterexample may
    start from a level no run reaches and is then not confirmed by the replay).  reachable=True: the levels are the
    exact solutions from the real initial state (the first nt-1 steps only), so a counterexample is a real run."""
    mod = load_reservoir()
    job.encoded(mod, f"{cls}.simulate", "_build_matrix")
    job.stub("linear solve: capturing stub (records A, b, keyword arguments; returns an arbitrary vector - every level is havoc'd, "
             "bounded above by the initial value as C01 establishes)", "scipy.sparse.diags: exact dense model", "fluid*: contract stub")
    job.bound(rows_nx=nx, rows_steps=nt - 1)
    tag = f"{cls}[nx={nx},steps={nt - 1}{',schedule' if schedule else ''}{',from the initial state' if reachable else ''}{',integer time grid' if tdtype != 'f8' else ''}{',object re-used after its fluid was replaced' if reused_fluid else ''}{',time grid a pandas Series' if tseries else ''}{',read after recovery_factor()' if after_recovery else ''}{',schedule may rise above the initial pressure' if buildup else ''}]"
    if reachable:
        job.solve_defaults = {"elim": True}
    hold = {}

    def pol(rec):
        # the havoc'd level lies inside the bounds C01 establishes for every stored level:
        # [lowest frac-face value applied so far, initial value]
        hi = hold.get("hi")
        if hi is not None:
            c = ctx()
            fl = hold.get("fluid")
            if fl is None:
                lo = Q(0)
            else:
                from ..sx.sym import s_min
                vals = list(fl._mf.values())[: rec["index"] + 1] or list(fl._mf.values())
                lo = vals[0]
                for v in vals[1:]:
                    lo = s_min(lo, v)
            for x in rec["x"]:
                c.assume((lift(x) <= lift(hi)).node)
                c.assume((lift(x) >= lift(lo)).node)
        if reachable:
            SS.exact_solve(rec)
        return 0

    def run():
        hold.clear()
        SS.LinSolve.reset(pol)
        SS.reset_names()
        t, _ = times(nt)
        if tdtype != "f8":
            t = SymArray(list(t.d), tdtype)       # the stored field must not take its dtype (or anything else) from the time grid
        if tseries:
            # the 'Days' column of a production table (default labels 0..nt-1): each step uses ITS OWN increment, taken by position
            from ..shims.pd_shim import SymSeries
            t = SymSeries(list(t.d), t.dtype_tag, list(range(nt)))
        if cls == "IdealReservoir":
            hold["hi"] = Q(1)
            r = mod.IdealReservoir(Q(nx), fresh("pf"), fresh("pi", pos=True), None)
            r.simulate(t)
            if after_recovery:
                r.recovery_factor()
            return r, None, t, list(SS.LinSolve.calls)
        fluid = FluidStub(unbounded=buildup)
        # with frac-face pressures above the initial pressure (a build-up after drawdown) a level may exceed the initial
        # value next to the fracture: no bound is assumed on the solved levels then
        hold["hi"] = None if buildup else fluid.m_i
        hold["fluid"] = fluid
        r = mod.SinglePhaseReservoir(Q(nx), fresh("pf"), fresh("pi", pos=True), fluid)
        if reused_fluid:
            # the object has already been run with another fluid; anything it kept from that run must not steer this one
            r.fluid = FluidStub("old")
            SS.LinSolve.reset(policy_exact())
            r.simulate(t)
            SS.LinSolve.reset(pol)
            r.fluid = fluid
        if schedule:
            r.simulate(t, pressure_fracface=SymArray([fresh(f"pfs{k}") for k in range(nt)], "f8"))
        else:
            r.simulate(t)
        if after_recovery:
            r.recovery_factor()          # what every plot and fit calls next: the stored levels are read after it
        return r, fluid, t, list(SS.LinSolve.calls)

    rp = (replay_reused_fluid, {"nx": nx}) if reused_fluid else (replay_rows, {"cls": cls, "nx": nx, "nt": nt, "schedule": schedule, "tdtype": tdtype})
    if tseries:
        from .c01 import replay_series_time
        rp = (replay_series_time, {"cls": cls, "nx": nx})
    if after_recovery:
        rp = (replay_rows_after_recovery, {"cls": cls, "nx": nx})
    if buildup:
        rp = (replay_rows_buildup, {"nx": nx})
    for k, pr in enumerate(paths(job, run, [], max_paths=16)):
        if pr.exc is not None:
            if tseries:
                job.prove(f"{tag}/raises {type(pr.exc).__name__}[path{k}]", pr.pc, bound=f"nx={nx}", replay=rp, note=repr(pr.exc)[:100])
                continue
            job.errors.append(f"{tag} raised {pr.exc!r}")
            continue
        r, fluid, t, calls = pr.value
        rows = rows_of(r)
        if reachable:
            # stored levels against the backward-Euler update of the stored previous level, whatever was solved, re-used
            # or skipped on this path (the linear solves are ideal: A x = b for the system the code built)
            from ..sx.sym import s_min
            Hdoc = Q((nx - 1) ** 2) if cls == "IdealReservoir" else Q(nx * nx)
            for i in range(nt - 1):
                prev, x = rows[i], rows[i + 1]
                dt = t.d[i + 1] - t.d[i]
                if fluid is None:
                    a, pm = [Q(1)] * nx, prev
                else:
                    pm = [s_min(v, fluid.m_i) for v in prev]
                    a = [fluid.alpha(v) / fluid.alpha(fluid.m_i) for v in pm]
                bad = []
                for j in range(1, nx):
                    rj = dt * Hdoc * a[j]
                    lap = (x[j - 1] - 2 * x[j] + x[j + 1]) if j < nx - 1 else (x[j - 1] - x[j])
                    d = P(x[j] - pm[j] - rj * lap)
                    if not d.is_zero():
                        bad.append(T.b_not(T.b_eq0(d)))
                job.prove(f"{tag}/stored level {i + 1} is the backward-Euler update of stored level {i} (nodes 1..{nx - 1})[path{k}]",
                          pr.pc + [T.b_or(*bad) if bad else T.b_const(False)], bound=f"nx={nx}, any dt, documented mesh constant", replay=rp)
            job.prove(f"{tag}/reach[path{k}]", pr.pc, expect="sat")
            if len(calls) != nt - 1:
                continue
        elif len(calls) != nt - 1:
            job.errors.append(f"{tag}: {len(calls)} linear solves for {nt - 1} steps")
            continue
        H0 = None
        for i, c in enumerate(calls):
            prev = rows[i]
            dt = t.d[i + 1] - t.d[i]
            if fluid is None:
                a = [Q(1)] * nx
                pm = prev
            else:
                from ..sx.sym import s_min
                pm = [s_min(v, fluid.m_i) for v in prev]
                a = [fluid.alpha(v) / fluid.alpha(fluid.m_i) for v in pm]
            A, b, x = c["A"].rows, c["b"], c["x"]
            Hi = -A[nx - 1][nx - 2] / (dt * a[nx - 1])       # the mesh constant this step actually used
            if H0 is None:
                H0 = Hi
            else:
                job.prove(f"{tag}/one mesh constant: step {i} uses the constant of step 0[path{k}]", pr.pc + [not_close(Hi, H0, abs_tol=Fraction(0))],
                          bound=f"nx={nx}", replay=rp)
            bad = []
            for j in range(1, nx):
                got = Q(0)
                for cc in range(nx):
                    got = got + A[j][cc] * x[cc]
                got = got - b[j]
                rj = dt * H0 * a[j]
                if j < nx - 1:
                    want = x[j] - pm[j] - rj * (x[j - 1] - 2 * x[j] + x[j + 1])
                else:
                    want = x[j] - pm[j] - rj * (x[j - 1] - x[j])
                d = T.p_sub(P(got), P(want))
                if not d.is_zero() and not T.rational_equal(P(got), P(want)):
                    bad.append(T.b_not(T.b_eq0(d)))
            job.prove(f"{tag}/step {i}: rows 1..{nx - 1} are the backward-Euler rows of the previous level[path{k}]",
                      pr.pc + [T.b_or(*bad) if bad else T.b_const(False)], bound=f"nx={nx}, arbitrary previous level, any dt", replay=rp,
                      note="canonical-form identity" if not bad else None)
        job.prove(f"{tag}/reach[path{k}]", pr.pc, expect="sat")
    # translator validation: captured symbolic system vs the real system at concrete inputs
    _validate_system(job, mod, cls, nx)


def _validate_system(job, mod, cls, nx):
    import numpy as np
    t = np.array([0.0, 0.004, 0.015])
    if cls == "IdealReservoir":
        res, calls = real_capture(cls, nx, t)
        sym = paths(job, lambda: _run(mod, cls, nx, 2, None) + (list(SS.LinSolve.calls),), [])
    else:
        return
    r, fluid, ts, scalls = sym[0].value
    env = {"t0": 0.0, "dt1": 0.004}
    for j in range(nx):
        for c in range(nx):
            job.validate("captured matrix entry", evalf(scalls[0]["A"].rows[j][c], env), float(calls[0]["A"][j, c]), inputs={"j": j, "c": c, "nx": nx})
        job.validate("captured rhs entry", evalf(scalls[0]["b"][j], env), float(calls[0]["b"][j]), inputs={"j": j, "nx": nx})


def job_tolerance(job, cls, nx=4):
    mod = load_reservoir()
    job.encoded(mod, f"{cls}.simulate")
    job.assume_text("'rounding level relative to the right-hand side' is made precise as 1e-9 relative with an absolute floor of 1e-11; "
                    "a direct solve (spsolve) meets it by contract")
    tag = f"{cls}" + (f"[nx={nx}]" if nx != 4 else "")
    job.bound(**{f"tolerance_nx_{cls[:6]}": "4 and 201, 401, 1001 (a solver chosen by grid size is seen at these sizes; one step)"})
    defaults = scipy_defaults()
    for k, pr in enumerate(paths(job, lambda: _run(mod, cls, nx, 3 if nx == 4 else 2, None) + (list(SS.LinSolve.calls),), [], max_paths=16)):
        if pr.exc is not None:
            job.errors.append(f"{tag} tolerance run raised {pr.exc!r}")
            continue
        calls = pr.value[3]
        for i, c in enumerate(calls):
            if c["kind"] == "spsolve":
                job.record(f"{tag}/tolerance: step {i} uses a direct solve (exact by contract)", "unsat", 0.0, note="scipy.sparse.linalg.spsolve")
                continue
            rtol = c["kwargs"].get("rtol")
            atol = c["kwargs"].get("atol")
            rtol = Q(Fraction(repr(defaults["rtol"]))) if rtol is None else rtol
            atol = Q(Fraction(repr(defaults["atol"]))) if atol is None else atol
            B = fresh("B")
            from ..sx.sym import s_max
            allowed = s_max(atol, rtol * B)
            job.prove(f"{tag}/tolerance: step {i}: max(atol, rtol*B) <= 1e-9*B + 1e-11 for all B >= 0 (rtol={float(rtol)!r}, atol={float(atol)!r})",
                      [T.b_le0(T.p_neg(P(B))), T.b_lt(P(K("1e-9") * B + K("1e-11")), P(allowed))], bound="all B >= 0",
                      replay=(replay_tolerance, {"cls": cls, "nx": nx}))


def job_flag(job, cls, nx=4):
    mod = load_reservoir()
    job.encoded(mod, f"{cls}.simulate")
    tag = f"{cls}" + (f"[nx={nx}]" if nx != 4 else "")
    for bad_call in ((0, 1) if nx == 4 else (0,)):
        def pol(rec):
            return 1 if rec["index"] == bad_call else 0
        res = paths(job, lambda: _run(mod, cls, nx, 3 if nx == 4 else 2, pol) + (list(SS.LinSolve.calls),), [], catch=(Exception,), max_paths=16)
        for k, pr in enumerate(res):
            if pr.exc is not None:
                job.record(f"{tag}/flag: info != 0 at solve {bad_call} raises {type(pr.exc).__name__}[path{k}]", "unsat", 0.0)
                continue
            calls = pr.value[3]
            if all(c["kind"] == "spsolve" for c in calls):
                job.record(f"{tag}/flag: direct solve has no convergence flag (solve {bad_call})[path{k}]", "unsat", 0.0, note="spsolve")
                continue
            job.prove(f"{tag}/flag: a solve reporting info != 0 at step {bad_call} completes normally and is stored[path{k}]", pr.pc,
                      bound=f"nx={nx}", replay=(replay_flag, {"cls": cls, "nx": max(nx, 5)}))


# concrete replays run on the real code when the changed code uses something the engine does not model (harness.finish)
FALLBACK = [(replay_rows_buildup, {}), (replay_rows, {}), (replay_rows, {"cls": "IdealReservoir"}), (replay_rows, {"schedule": True}), (replay_rows, {"tdtype": "i8"}), (replay_tolerance, {}), (replay_flag, {}), (replay_series_time, {}), (replay_series_time, {"cls": "IdealReservoir"}), (replay_rows_after_recovery, {}), (replay_rows_after_recovery, {"cls": "IdealReservoir"})]


def jobs(tier):
    out = []
    nxs = (3, 4, 5) if tier == "quick" else (3, 4, 5, 6, 8, 10)
    for cls in ("SinglePhaseReservoir", "IdealReservoir"):
        for nx in nxs:
            out.append((f"rows-{cls[:6]}-{nx}", lambda j, c=cls, n=nx: job_rows(j, c, n, 4 if tier == "quick" else 5)))
        out.append((f"rows-sched-{cls[:6]}", lambda j, c=cls: job_rows(j, c, 4, 4, schedule=(c != "IdealReservoir"))))
        for nx in ((3, 4) if tier == "quick" else (3, 4, 5, 6)):
            out.append((f"rows-reach-{cls[:6]}-{nx}", lambda j, c=cls, n=nx: job_rows(j, c, n, 3, schedule=(c != "IdealReservoir"), reachable=True)))
        out.append((f"rows-reach-inttime-{cls[:6]}-3", lambda j, c=cls: job_rows(j, c, 3, 3, schedule=False, reachable=True, tdtype="i8")))
        out.append((f"rows-reach-after-recovery-{cls[:6]}-4", lambda j, c=cls: job_rows(j, c, 4, 3, schedule=False, reachable=True, after_recovery=True)))
        out.append((f"rows-reach-series-time-{cls[:6]}-3", lambda j, c=cls: job_rows(j, c, 3, 3, schedule=False, reachable=True, tseries=True)))
        if cls != "IdealReservoir":
            out.append(("rows-reach-reused-fluid-3", lambda j: job_rows(j, "SinglePhaseReservoir", 3, 3, reachable=True, reused_fluid=True)))
            out.append(("rows-reach-buildup-3", lambda j: job_rows(j, "SinglePhaseReservoir", 3, 3, schedule=True, reachable=True, buildup=True)))
        out.append((f"tolerance-{cls[:6]}", lambda j, c=cls: job_tolerance(j, c)))
        out.append((f"flag-{cls[:6]}", lambda j, c=cls: job_flag(j, c)))
        for big in ((201, 401) if tier == "quick" else (201, 401, 1001)):
            out.append((f"tolerance-{cls[:6]}-{big}", lambda j, c=cls, n=big: job_tolerance(j, c, n)))
            out.append((f"flag-{cls[:6]}-{big}", lambda j, c=cls, n=big: job_flag(j, c, n)))
    return out
