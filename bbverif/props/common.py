"""Helpers shared by the property modules."""
from __future__ import annotations

import random
from fractions import Fraction

from ..sx import lower as LW
from ..sx import terms as T
from ..sx import loader
from ..sx.sym import (Context, Q, QI, Sym, SymI, SymBool, K, explore, fresh, lift, concrete, simp, Unsupported)
from ..shims.np_shim import NP, MATH, BUILTINS, SymArray, SymRec, asarray, UNINIT, Uninit, UninitRead

TOL = Fraction(1, 10**9)


def base_rebind():
    return dict(np=NP(), math=MATH, **BUILTINS)


def load_sym(dotted, **extra):
    rb = base_rebind()
    rb.update(extra)
    return loader.load(dotted, rebind=rb)


def P(x) -> T.Poly:
    return lift(x).p


def box(job, _integer=(), **ranges):
    """Declare symbolic inputs with closed ranges; returns (dict name->Sym, list of BoolT).
    Names in `_integer` are symbolic *Python ints* (SymI): same ranges, integer kind for numpy's dtype rules."""
    vs, conds = {}, []
    for n, (lo, hi) in ranges.items():
        lo_q = Fraction(str(lo)) if lo is not None else None
        hi_q = Fraction(str(hi)) if hi is not None else None
        v = fresh(n, pos=(lo_q is not None and lo_q > 0), integer=n in _integer)
        vs[n] = v
        if lo_q is not None:
            conds.append(T.b_le(T.Poly.const(lo_q), v.p))
        if hi_q is not None:
            conds.append(T.b_le(v.p, T.Poly.const(hi_q)))
    return vs, conds


def not_close(a, b, tol=TOL, abs_tol=None):
    """BoolT: |a - b| > tol*|b| (+ abs_tol).  The *negated* property for an equality claim."""
    a, b = P(a), P(b)
    d = T.p_sub(a, b)
    if d.is_zero() or T.rational_equal(a, b):
        return T.b_const(False)
    tolp = T.Poly.const(tol)
    if T.is_nonneg(b):
        bound = T.p_mul(tolp, b)
    elif T.is_nonneg(T.p_neg(b)):
        bound = T.p_mul(tolp, T.p_neg(b))
    else:
        bound = T.p_mul(tolp, T.mkITE(T.b_le0(T.p_neg(b)), b, T.p_neg(b)))
    if abs_tol is not None:
        bound = T.p_add(bound, T.Poly.const(abs_tol))
    return T.b_or(T.b_lt(bound, d), T.b_lt(bound, T.p_neg(d)))


def feas():
    return LW.feasibility(timeout_s=10)


def paths(job, fn, assumptions, setup=None, max_paths=512, catch=(Exception,)):
    res = explore(fn, assumptions=assumptions, feasible=feas(), max_paths=max_paths, catch=catch, setup=setup)
    job.add_paths(len(res))
    return res


def check_defined(job, name, pr, bound=None, overflow=False, replay=None):
    """Every definedness condition recorded on the path must hold under the path condition.
    `overflow=True` checks the 'integer overflow' conditions of integer-dtype array arithmetic instead (only
    harnesses that bound their integer inputs can prove those)."""
    seen = set()
    n = 0
    for cond, why in pr.ctx.defined:
        if cond.id in seen or why.startswith("integer overflow") != overflow:
            continue
        seen.add(cond.id)
        n += 1
        job.prove(f"{name}/{'no-wrap' if overflow else 'defined'}[{n}]", pr.pc + [T.b_not(cond)], bound=bound, note=why[:120], replay=replay)
    return n


def rng(job, salt=0):
    return random.Random(job.seed * 1000003 + salt)


def evalf(x, env, ufs=None):
    return T.evalf(P(x), env, ufs)


def model_floats(model, names, default=None):
    out = {}
    for n in names:
        v = model.get(n)
        if v is None:
            v = default.get(n) if default else 0.0
        out[n] = float(v)
    return out


def uf_callable(model, name, default=1.0):
    """A concrete function agreeing with the solver's interpretation of an uninterpreted function at
    the argument tuples that occur in the model (nearest neighbour elsewhere)."""
    entries = [([float(a) for a in args], float(v)) for args, v in (model.get("__uf__", {}) or {}).get(name, [])]

    def f(*q):
        import numpy as np
        if not entries:
            return default
        def one(*s):
            best = min(entries, key=lambda e: sum((a - float(b)) ** 2 for a, b in zip(e[0], s)))
            return best[1]
        if any(hasattr(x, "__len__") for x in q):
            return np.vectorize(one)(*q)
        return one(*q)
    return f


# ------------------------------------------------------------------ effect checks: the caller's containers are left alone

def snapshot(x):
    """Identity snapshot of a caller-owned container (array, record array, frame, dict of arrays): the container objects and
    the element objects they hold.  Elements are immutable values, so 'same objects in the same places' is 'unchanged'."""
    from ..shims import pd_shim
    if isinstance(x, SymArray):
        if x.ndim == 2:
            return ("a2", x, [snapshot(r) for r in x.d], x.dtype_tag)
        return ("a1", x, list(x.d), x.dtype_tag)
    if isinstance(x, SymRec):
        return ("rec", x, {k: snapshot(v) for k, v in x.cols.items()})
    if isinstance(x, pd_shim.SymFrame):
        return ("frame", x, {k: snapshot(v) for k, v in x.cols.items()}, None if x.index_labels is None else list(x.index_labels))
    if isinstance(x, dict):
        return ("dict", x, {k: snapshot(v) for k, v in x.items()})
    return ("other", x, None)


def touched(snap):
    """None if the snapshotted container is as it was, else a short description of what changed."""
    kind, x = snap[0], snap[1]
    if kind == "a1":
        if x.dtype_tag != snap[3]:
            return "dtype changed"
        if len(x.d) != len(snap[2]) or any(a is not b for a, b in zip(x.d, snap[2])):
            return "elements changed"
        return None
    if kind == "a2":
        if len(x.d) != len(snap[2]):
            return "rows changed"
        for r in snap[2]:
            t = touched(r)
            if t:
                return t
        return None
    if kind in ("rec", "frame", "dict"):
        cols = x.cols if kind != "dict" else x
        if list(cols.keys()) != list(snap[2].keys()):
            return f"keys changed to {list(cols.keys())}"
        for k, sub in snap[2].items():
            if sub[0] != "other" and cols[k] is not sub[1]:
                return f"column {k!r} replaced"
            t = touched(sub) if sub[0] != "other" else None
            if t:
                return f"column {k!r}: {t}"
        if kind == "frame" and (None if x.index_labels is None else list(x.index_labels)) != snap[3]:
            return "index labels changed"
        return None
    return None
