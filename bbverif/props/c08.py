"""C08 - all pseudopressure routes agree and are strictly increasing in pressure.

Quadrature route: `gas.pseudopressure_Hussainy` with scipy's `quad` as a contract stub that records
the integrand closure and the limits.  Table routes: `fluid.build_pvt_gas` (gas correlations as
uninterpreted recording functions, small maximum pressure) and `fluids.pseudopressure` on the same
symbolic columns, compared row by row with the trapezoid rule of the *same* integrand 2p/(mu Z).
"""
from __future__ import annotations

from fractions import Fraction

from ..sx import terms as T
from ..shims import pd_shim
from ..shims import scipy_shim as SS
from ..shims.np_shim import SymArray
from ..sx.sym import QI
from .common import (P, box, check_defined, evalf, load_sym, model_floats, not_close, paths, rng, K, Q, Sym, lift,
                     simp, fresh, uf_callable)
from .c13 import _uf


def load_fluid_with_ufs():
    import bluebonnet.fluids.gas as _rg
    import bluebonnet.fluids.oil as _ro
    import bluebonnet.fluids.water as _rw
    real = {}
    for m_, names in ((_rg, ("z_factor_DAK", "density_DAK", "viscosity_Sutton", "compressibility_DAK", "b_factor_DAK")),
                      (_ro, ("b_o_Standing", "viscosity_beggs_robinson", "pressure_bubblepoint_Standing")),
                      (_rw, ("b_water_McCain", "viscosity_water_McCain"))):
        for n_ in names:
            real[n_] = getattr(m_, n_)
    # bound to the real signatures: keyword arguments and defaults are recorded as they would reach the real function
    ufs = {n: _uf(n, like=f) for n, f in real.items()}
    gas = load_sym("bluebonnet.fluids.gas", **SS.rebind())
    mod = load_sym("bluebonnet.fluids.fluid", pd=pd_shim.PD, make_nonhydrocarbon_properties=gas.make_nonhydrocarbon_properties,
                   pseudocritical_point_Sutton=gas.pseudocritical_point_Sutton, **ufs, **SS.rebind())
    return mod, gas, ufs


def replay_table_pp(model, n=4, descending=False, series=False):
    import numpy as np
    from bluebonnet.fluids import fluid as rf
    names = [f"p{k}" for k in range(n)] + [f"mu{k}" for k in range(n)] + [f"z{k}" for k in range(n)]
    m = model_floats(model, names, default={k: 1.0 for k in names})
    p = np.array([m[f"p{k}"] for k in range(n)])
    if np.any(np.diff(p) <= 0):
        p = np.cumsum(np.abs(p) + 1.0)
    mu = np.array([m[f"mu{k}"] for k in range(n)])
    z = np.array([m[f"z{k}"] for k in range(n)])
    if descending:
        p, mu, z = p[::-1].copy(), mu[::-1].copy(), z[::-1].copy()     # the same table listed from high pressure to low
    if series:
        # the three columns of a table (pandas Series with the default labels), as df["pressure"], df["viscosity"], df["z-factor"]
        import pandas as pd
        cols = (pd.Series(p.copy()), pd.Series(mu.copy()), pd.Series(z.copy()))
        try:
            got = np.asarray(rf.pseudopressure(*cols), float)
            again = np.asarray(rf.pseudopressure(*cols), float)
        except Exception as ex:  # noqa: BLE001
            return True, {"what": f"fluids.pseudopressure raised {ex!r} for columns passed as pandas Series", "inputs": m}
        if any(not np.array_equal(np.asarray(a, float), b) for a, b in zip(cols, (p, mu, z))) or not np.array_equal(got, again):
            return True, {"what": f"fluids.pseudopressure changed the Series it was given: viscosity {mu.tolist()} -> {cols[1].tolist()}, Z {z.tolist()} -> {cols[2].tolist()}; "
                                  f"first call {got.tolist()}, second call on the same Series {again.tolist()}", "inputs": m}
        if got.shape != p.shape or not np.all(np.isfinite(got)):
            return True, {"what": f"fluids.pseudopressure on pandas Series columns = {got.tolist()} for {len(p)} rows", "inputs": m}
    else:
        keep = (p.copy(), mu.copy(), z.copy())
        got = np.asarray(rf.pseudopressure(p, mu, z), float)
        # the caller's columns are inputs: a second transform of the same arrays (or of the two halves of the table, which are
        # views of them) is the same function of the same table
        again = np.asarray(rf.pseudopressure(p, mu, z), float)
        if any(not np.array_equal(a, b) for a, b in zip(keep, (p, mu, z))) or not np.array_equal(got, again):
            return True, {"what": f"fluids.pseudopressure changed its inputs: viscosity {keep[1].tolist()} -> {mu.tolist()}, Z {keep[2].tolist()} -> {z.tolist()}, "
                                  f"pressure {keep[0].tolist()} -> {p.tolist()}; first call {got.tolist()}, second call on the same arrays {again.tolist()}", "inputs": m}
    y = 2 * p / (mu * z)
    want = np.concatenate([[0.0], np.cumsum(np.diff(p) * (y[:-1] + y[1:]) / 2)])
    order = np.argsort(p)
    bad = bool(np.any(np.abs(got - want) > 1e-9 * abs(want).max()) or got[0] != 0 or np.any(np.diff(got[order]) <= 0))
    return bad, {"what": f"fluids.pseudopressure = {got.tolist()} vs trapezoid rule of 2p/(mu Z) = {want.tolist()}", "inputs": m}


def replay_hussainy(model, pstd=None):
    import bluebonnet.fluids.gas as rg
    m = model_floats(model, ["T", "p", "Tpc", "ppc", "sg", "pstd", "q"], default=dict(T=300.0, p=3000.0, Tpc=-80.0, ppc=650.0, sg=0.7, pstd=14.7, q=1000.0))
    if pstd is not None:
        m["pstd"] = pstd          # a reference pressure written as a constant by the caller (0 psia: the integral from vacuum)
    cap = {}
    orig = rg.quad

    def wrapper(f, a, b, **kw):
        cap.update(f=f, a=a, b=b)
        return orig(f, a, b, **kw)
    try:
        rg.quad = wrapper
        val = rg.pseudopressure_Hussainy(m["T"], m["p"], m["Tpc"], m["ppc"], m["sg"], m["pstd"])
    finally:
        rg.quad = orig
    q = m["q"]
    want = 2 * q / (rg.viscosity_Sutton(m["T"], q, m["Tpc"], m["ppc"], m["sg"]) * rg.z_factor_DAK(m["T"], q, m["Tpc"], m["ppc"]))
    got = cap["f"](q)
    problems = []
    if abs(got - want) > 1e-9 * abs(want):
        problems.append(f"integrand({q!r}) = {got!r} vs 2p/(mu Z) = {want!r}")
    if cap["a"] != m["pstd"] or cap["b"] != m["p"]:
        problems.append(f"limits ({cap['a']!r}, {cap['b']!r}) vs (standard pressure {m['pstd']!r}, p {m['p']!r})")
    return bool(problems), {"what": "; ".join(problems) or "integrand and limits as documented", "inputs": m, "value": val}


def replay_hussainy_value(model):
    """Real pseudopressure_Hussainy against an independent composite quadrature (250-psi panels, adaptive on each) of the
    library's own 2p/(mu Z): light and heavy gases (where Z dips sharply), intervals up to the top of the default table;
    and additivity through the pressure_standard argument."""
    import numpy as np
    from scipy.integrate import quad as _quad
    import bluebonnet.fluids.gas as rg
    problems = []
    for T_, sg, kind in ((100.0, 1.0, "wet gas"), (300.0, 0.7, "dry gas"), (150.0, 1.15, "wet gas")):
        Tpc, ppc = rg.pseudocritical_point_Sutton(sg, rg.make_nonhydrocarbon_properties(0.0, 0.0, 0.0), kind)

        def f(q):
            return 2 * q / (rg.viscosity_Sutton(T_, q, Tpc, ppc, sg) * rg.z_factor_DAK(T_, q, Tpc, ppc))
        for p_ in (3000.0, 8000.0, 13990.0):
            try:
                got = float(rg.pseudopressure_Hussainy(T_, p_, Tpc, ppc, sg))
                got_hi = float(rg.pseudopressure_Hussainy(T_, p_, Tpc, ppc, sg, 3000.0)) if p_ > 3000 else None
                got_lo = float(rg.pseudopressure_Hussainy(T_, 3000.0, Tpc, ppc, sg))
            except Exception as ex:  # noqa: BLE001
                return True, {"what": f"pseudopressure_Hussainy raised {ex!r} at T={T_}, p={p_}, gravity {sg} {kind}", "inputs": {}}
            edges = np.concatenate([np.arange(14.7, p_, 250.0), [p_]])
            want = sum(_quad(f, a, b, epsabs=0, epsrel=1e-11, limit=200)[0] for a, b in zip(edges[:-1], edges[1:]))
            if abs(got - want) > 1e-6 * abs(want):
                problems.append(f"gravity {sg} {kind}, T={T_} F, p={p_}: pseudopressure_Hussainy = {got!r} vs the integral of 2p/(mu Z) from 14.7 psia = {want!r} "
                                f"(relative difference {abs(got - want) / abs(want):.2e})")
            if got_hi is not None and abs((got - got_hi) - got_lo) > 1e-6 * abs(got):
                problems.append(f"gravity {sg} {kind}, T={T_} F: m(p={p_}) - m(p={p_}; from 3000) = {got - got_hi!r} vs m(3000) = {got_lo!r}: not additive through pressure_standard")
        # neighbouring rows of the default table at high pressure (10 psi apart, a relative difference below 1e-3): a short
        # interval is still an interval
        for a, b in ((9990.0, 10000.0), (13980.0, 13990.0), (14.7, 14.71)):
            try:
                got = float(rg.pseudopressure_Hussainy(T_, b, Tpc, ppc, sg, a))
            except Exception as ex:  # noqa: BLE001
                return True, {"what": f"pseudopressure_Hussainy raised {ex!r} for the interval ({a}, {b})", "inputs": {}}
            want = _quad(f, a, b, epsabs=0, epsrel=1e-11, limit=200)[0]
            if abs(got - want) > 1e-6 * abs(want):
                problems.append(f"gravity {sg} {kind}, T={T_} F: pseudopressure_Hussainy from {a} to {b} psia = {got!r} vs the integral {want!r}")
    return bool(problems), {"what": "; ".join(problems[:2]) or "pseudopressure_Hussainy is the integral to 1e-6 on light and heavy gases", "inputs": {}}


def job_hussainy(job):
    import bluebonnet.fluids.gas as _rg
    mu, z = _uf("viscosity_Sutton", like=_rg.viscosity_Sutton), _uf("z_factor_DAK", like=_rg.z_factor_DAK)
    gas = load_sym("bluebonnet.fluids.gas", viscosity_Sutton=mu, z_factor_DAK=z, **SS.rebind())
    job.encoded(gas, "pseudopressure_Hussainy")
    job.stub("scipy.integrate.quad: contract stub (returns the integral as an uninterpreted symbol; records the integrand "
             "closure and the limits)", "viscosity_Sutton, z_factor_DAK: positive uninterpreted recording functions")
    job.assume_text("quad contract: I(f,a,a) = 0, additive over adjacent intervals, positive for a positive integrand and a < b; "
                    "the numerical difference between QUADPACK and the 10-psi trapezoid rule is outside the claim")
    vs, dom = box(None, T=(60, 400), p=(15, 20000), Tpc=(-200, 100), ppc=(200, 1500), sg=("0.55", "1.2"), pstd=(10, 20), q=(10, 20000))
    a5 = tuple(vs[k] for k in ("T", "p", "Tpc", "ppc", "sg"))

    def run(with_std):
        SS.OptCalls.reset()
        SS.reset_names()
        if with_std in ("zero", "int zero"):
            v = gas.pseudopressure_Hussainy(*a5, Q(0) if with_std == "zero" else QI(0))
        else:
            v = gas.pseudopressure_Hussainy(*a5, vs["pstd"]) if with_std else gas.pseudopressure_Hussainy(*a5)
        return v, list(SS.OptCalls.quad)

    for with_std in (True, False, "zero", "int zero"):
        tag = "explicit standard pressure" if with_std is True else "default standard pressure" if with_std is False else \
            f"reference pressure 0 psia ({'float' if with_std == 'zero' else 'Python int'})"
        lo_ = vs["pstd"] if with_std is True else K("14.70") if with_std is False else Q(0)
        rp_h = replay_hussainy if with_std in (True, False) else (replay_hussainy, {"pstd": 0.0 if with_std == "zero" else 0})
        for k, pr in enumerate(paths(job, lambda: run(with_std), dom, catch=(Exception,))):
            if pr.exc is not None:
                job.prove(f"hussainy[{tag}]/raises {type(pr.exc).__name__}[path{k}]", pr.pc, bound="gas box", replay=replay_hussainy_value, note=repr(pr.exc)[:100])
                continue
            v, calls = pr.value
            if len(calls) == 0:
                # a path that answers without integrating (a shortcut): admissible only for the empty interval p == p_standard,
                # where the integral is 0
                job.prove(f"hussainy[{tag}]/a path without quadrature is taken only for p == standard pressure and returns 0[path{k}]",
                          pr.pc + [T.b_or(T.b_ne(P(vs["p"]), P(lo_)), T.b_not(T.b_eq0(P(v))))], bound="gas box", replay=replay_hussainy_value)
                continue
            if len(calls) != 1:
                job.errors.append("pseudopressure_Hussainy: expected exactly one quadrature call")
                continue
            c = calls[0]
            q = vs["q"]
            want = 2 * q / (mu(vs["T"], q, vs["Tpc"], vs["ppc"], vs["sg"]) * z(vs["T"], q, vs["Tpc"], vs["ppc"]))
            job.prove(f"hussainy[{tag}]/integrand==2p/(mu Z) at the caller's T, Tpc, ppc, gravity", pr.pc + [not_close(c["func"](q), want)],
                      bound="gas box", replay=replay_hussainy)
            job.prove(f"hussainy[{tag}]/integrand positive", pr.pc + [T.b_le0(P(c["func"](q)))], bound="gas box", replay=replay_hussainy)
            lo = lo_
            job.prove(f"hussainy[{tag}]/limits==(standard pressure, p)",
                      pr.pc + [T.b_or(T.b_ne(P(c["a"]), P(lo)), T.b_ne(P(c["b"]), P(vs["p"])))], bound="gas box", replay=rp_h)
            job.prove(f"hussainy[{tag}]/returns the integral", pr.pc + [T.b_ne(P(v), P(c["I"]))], bound="gas box", replay=replay_hussainy)
            job.prove(f"hussainy[{tag}]/reach", pr.pc, expect="sat")


def job_transform(job, n, descending=False, series=False):
    if not descending and not series:
        SS.selftest(job, job.seed)
    mod, gas, ufs = load_fluid_with_ufs()
    job.encoded(mod, "pseudopressure")
    job.bound(transform_rows=n)
    ps, dom = [], []
    for k in range(n):
        v = fresh(f"p{k}", pos=True)
        ps.append(v)
        if k:
            dom.append(T.b_lt(P(ps[k - 1]), P(v)))
    mus = [fresh(f"mu{k}", pos=True) for k in range(n)]
    zs = [fresh(f"z{k}", pos=True) for k in range(n)]
    if descending:
        # rows listed from high pressure to low (a depletion table): zero at the first row (the reference), each increment
        # the trapezoid of its own interval, increasing in *pressure*
        ps, mus, zs = ps[::-1], mus[::-1], zs[::-1]
    rp = (replay_table_pp, {"n": n, "descending": descending, "series": series})

    def mk(vals):
        if series:
            from ..shims.pd_shim import SymSeries
            return SymSeries(list(vals), "f8", list(range(n)))      # a table column: default labels 0..n-1
        return SymArray(vals)
    stag = ",columns passed as pandas Series" if series else ""
    box_ = {}

    def run():
        box_["c"] = c = (mk(ps), mk(mus), mk(zs))
        first = mod.pseudopressure(*c)
        box_["after"] = [list(a.d) for a in c]
        box_["again"] = mod.pseudopressure(*c)
        return first
    for k, pr in enumerate(paths(job, run, dom, catch=(Exception,))):
        if pr.exc is not None:
            job.prove(f"transform[{n}{stag}]/raises {type(pr.exc).__name__}[path{k}]", pr.pc, bound=f"{n} rows", replay=rp, note=repr(pr.exc)[:100])
            continue
        if not isinstance(pr.value, SymArray) or len(pr.value.d) != n or any(getattr(x, "__sx_nan__", False) for x in pr.value.d):
            job.prove(f"transform[{n}{stag}]/one finite value per row[path{k}]", pr.pc, bound=f"{n} rows", replay=rp)
            continue
        got = pr.value.d
        y = [2 * ps[j] / (mus[j] * zs[j]) for j in range(n)]
        want = [Q(0)]
        for j in range(n - 1):
            want.append(want[-1] + (ps[j + 1] - ps[j]) * (y[j] + y[j + 1]) / 2)
        job.prove(f"transform[{n}{',rows listed high to low' if descending else ''}]/rows==trapezoid of 2p/(mu Z)", pr.pc + [T.b_or(*[not_close(g, w, abs_tol=Fraction(0)) if j else T.b_not(T.b_eq0(P(g)))
                                                                             for j, (g, w) in enumerate(zip(got, want))])],
                  bound=f"{n} rows", replay=rp)
        job.prove(f"transform[{n}{',rows listed high to low' if descending else ''}]/strictly increasing in pressure", pr.pc + [T.b_or(*[(T.b_le(P(got[j]), P(got[j + 1])) if descending else T.b_le(P(got[j + 1]), P(got[j]))) for j in range(n - 1)])],
                  bound=f"{n} rows", replay=rp)
        # additivity over adjacent intervals: m[k] - m[0] = (m[j] - m[0]) + (m[k] - m[j]) is an identity of
        # differences; the claim with content is that each increment depends only on its own interval
        job.prove(f"transform[{n}{',rows listed high to low' if descending else ''}]/increment k depends only on rows k, k+1",
                  pr.pc + [T.b_or(*[not_close(got[j + 1] - got[j], (ps[j + 1] - ps[j]) * (y[j] + y[j + 1]) / 2, abs_tol=Fraction(0))
                                    for j in range(n - 1)])], bound=f"{n} rows", replay=rp)
        # the columns are inputs: unchanged by the call, and a second transform of the same containers gives the same rows
        changed = [not_close(a, b, abs_tol=Fraction(0)) for col, orig in zip(box_["after"], (ps, mus, zs)) for a, b in zip(col, orig)]
        ag = box_["again"]
        if not isinstance(ag, SymArray) or len(ag.d) != n:
            job.prove(f"transform[{n}{stag}]/second call on the same columns returns one value per row[path{k}]", pr.pc, bound=f"{n} rows", replay=rp)
        else:
            changed += [not_close(a, b, abs_tol=Fraction(0)) for a, b in zip(ag.d, got)]
            job.prove(f"transform[{n}{stag}{',rows listed high to low' if descending else ''}]/columns unchanged by the call; a second call on them returns the same rows[path{k}]",
                      pr.pc + [T.b_or(*changed)], bound=f"{n} rows, two calls", replay=rp)
        job.prove(f"transform[{n}{',rows listed high to low' if descending else ''}]/reach", pr.pc, expect="sat")


def replay_builder_vs_quad(model, dry="dry gas", pmax=45):
    """Real build_pvt_gas against the quadrature route for the same gas: pseudopressure differences between table rows vs
    pseudopressure_Hussainy at the Sutton point of the caller's composition (the 10-psi trapezoid rule is within 1e-3 of
    adaptive quadrature on these smooth integrands; a wrong composition or gravity moves the difference by percents)."""
    import numpy as np
    from bluebonnet.fluids import fluid as rf
    import bluebonnet.fluids.gas as rg
    m = model_floats(model, ["N2", "H2S", "CO2", "sg", "T"], default=dict(N2=0.02, H2S=0.15, CO2=0.01, sg=0.75, T=220.0))
    if abs(m["H2S"] - m["CO2"]) < 0.05:
        m["H2S"], m["CO2"] = 0.15, 0.01
    gv = {"N2": m["N2"], "H2S": m["H2S"], "CO2": m["CO2"], "Gas Specific Gravity": m["sg"], "Reservoir Temperature (deg F)": m["T"]}
    # the table for the other gas type is built first, as the symbolic run does (dry then wet): whatever the builder keeps
    # between calls must not leak into this one
    rf.build_pvt_gas(dict(gv), "wet gas" if dry == "dry gas" else "dry gas", 3000.0)
    df = rf.build_pvt_gas(gv, dry, 3000.0)
    tpc, ppc = rg.pseudocritical_point_Sutton(m["sg"], rg.make_nonhydrocarbon_properties(m["N2"], m["H2S"], m["CO2"]), dry)
    p = np.asarray(df["pressure"], float)
    pp = np.asarray(df["pseudopressure"], float)
    i, j = len(p) // 3, len(p) - 1
    quad = [float(rg.pseudopressure_Hussainy(m["T"], float(p[k]), tpc, ppc, m["sg"])) for k in (i, j)]
    got, want = pp[j] - pp[i], quad[1] - quad[0]
    bad = abs(got - want) > 2e-3 * abs(want)
    return bad, {"what": f"build_pvt_gas(..., {dry!r}): m({p[j]}) - m({p[i]}) = {got!r} from the table vs {want!r} by quadrature for the same composition "
                         f"(relative difference {abs(got - want) / abs(want):.2e})", "inputs": m}


def replay_builder(model, dry="dry gas", pmax=45):
    """Real build_pvt_gas on the model's composition: its pseudopressure column against the stand-alone transform of its own
    (pressure, viscosity, z-factor) columns, first row 0, strictly increasing."""
    import numpy as np
    from bluebonnet.fluids import fluid as rf
    m = model_floats(model, ["N2", "H2S", "CO2", "sg", "T"], default=dict(N2=0.0, H2S=0.0, CO2=0.0, sg=0.7, T=200.0))
    gv = {"N2": m["N2"], "H2S": m["H2S"], "CO2": m["CO2"], "Gas Specific Gravity": m["sg"], "Reservoir Temperature (deg F)": m["T"]}
    df = rf.build_pvt_gas(gv, dry, float(pmax))
    pp = np.asarray(df["pseudopressure"], float)
    alt = np.asarray(rf.pseudopressure(np.asarray(df["pressure"], float), np.asarray(df["viscosity"], float), np.asarray(df["z-factor"], float)), float)
    problems = []
    if pp.shape != alt.shape or np.any(np.abs(pp - alt) > 1e-9 * np.abs(alt).max()):
        problems.append(f"table pseudopressure {pp.tolist()} vs stand-alone transform of the same columns {alt.tolist()} (pressures {np.asarray(df['pressure'], float).tolist()})")
    if pp[0] != 0 or np.any(np.diff(pp) <= 0):
        problems.append(f"not 0 first / strictly increasing: {pp.tolist()}")
    return bool(problems), {"what": f"build_pvt_gas(..., {dry!r}, {pmax}): " + ("; ".join(problems) or "routes agree"), "inputs": m}


def replay_builder_int(model, dry="dry gas", pmax=45):
    """Real build_pvt_gas with the maximum pressure given as a Python int (as the default 14_000 is) and a reservoir
    temperature that is not a whole number: the integrand columns row by row against the stand-alone correlations at the
    caller's temperature."""
    import numpy as np
    from bluebonnet.fluids import fluid as rf
    import bluebonnet.fluids.gas as rg
    m = model_floats(model, ["N2", "H2S", "CO2", "sg", "T"], default=dict(N2=0.02, H2S=0.05, CO2=0.01, sg=0.75, T=212.75))
    if abs(m["T"] - round(m["T"])) < 0.05:
        m["T"] = float(int(m["T"])) + 0.37
    gv = {"N2": m["N2"], "H2S": m["H2S"], "CO2": m["CO2"], "Gas Specific Gravity": m["sg"], "Reservoir Temperature (deg F)": m["T"]}
    df = rf.build_pvt_gas(gv, dry, 3000)
    tpc, ppc = rg.pseudocritical_point_Sutton(m["sg"], rg.make_nonhydrocarbon_properties(m["N2"], m["H2S"], m["CO2"]), dry)
    p = np.asarray(df["pressure"], float)
    problems = []
    for k in (0, len(p) // 2, len(p) - 1):
        z, mu = float(rg.z_factor_DAK(m["T"], p[k], tpc, ppc)), float(rg.viscosity_Sutton(m["T"], p[k], tpc, ppc, m["sg"]))
        gz, gmu = float(np.asarray(df["z-factor"])[k]), float(np.asarray(df["viscosity"])[k])
        if abs(gz - z) > 1e-9 * abs(z) or abs(gmu - mu) > 1e-9 * abs(mu):
            problems.append(f"row {k} (p={p[k]}): table Z = {gz!r}, viscosity = {gmu!r} vs the correlations at T = {m['T']!r}: {z!r}, {mu!r}")
    return bool(problems), {"what": f"build_pvt_gas(..., {dry!r}, 3000 as a Python int), T = {m['T']!r}: " + ("; ".join(problems[:2]) or "integrand columns at the caller's temperature"),
                            "inputs": m}


def job_builder(job, pmax, int_pmax=False):
    mod, gas, ufs = load_fluid_with_ufs()
    job.encoded(mod, "build_pvt_gas", "pseudopressure")
    job.stub("gas correlations inside build_pvt_gas: uninterpreted recording functions; pandas.DataFrame: exact column container")
    job.bound(maximum_pressure=pmax)
    vs, dom = box(None, N2=(0, "0.2"), H2S=(0, "0.2"), CO2=(0, "0.2"), sg=("0.55", "1.2"), T=(60, 400))
    gv = {"N2": vs["N2"], "H2S": vs["H2S"], "CO2": vs["CO2"], "Gas Specific Gravity": vs["sg"], "Reservoir Temperature (deg F)": vs["T"]}
    for di, dry in enumerate(("dry gas", "wet gas", "dry gas")):       # the third build follows one for the other gas type with the same inputs
        dtag = dry + (", after a wet-gas build with the same inputs" if di == 2 else "")
        if int_pmax:
            dtag += ", maximum pressure a Python int"
        def build(dry=dry, di=di):
            pm = QI(pmax) if int_pmax else Q(pmax)
            if di == 2:
                # within one path (one process): a wet-gas table for the same inputs is built first; whatever the builder
                # keeps between calls must not leak into the dry-gas table
                mod.build_pvt_gas(dict(gv), "wet gas", pm)
            return mod.build_pvt_gas(gv, dry, pm)
        res = paths(job, build, dom, max_paths=64)
        for k, pr in enumerate(res):
            if pr.exc is not None:
                job.errors.append(f"build_pvt_gas[{dtag}] path {k} raised {pr.exc!r}")
                continue
            df = pr.value
            p, mu, z, pp = df["pressure"].d, df["viscosity"].d, df["z-factor"].d, df["pseudopressure"].d
            n = len(p)
            alt = mod.pseudopressure(SymArray(list(p)), SymArray(list(mu)), SymArray(list(z))).d
            job.prove(f"builder[{dtag}]/table route == stand-alone transform[path{k}]",
                      pr.pc + [T.b_or(*[not_close(a, b, abs_tol=Fraction(0)) for a, b in zip(pp, alt)])], bound=f"{n} rows",
                      replay=(replay_builder, {"dry": dry, "pmax": pmax}))
            job.prove(f"builder[{dtag}]/first row 0, strictly increasing[path{k}]",
                      pr.pc + [T.b_or(T.b_not(T.b_eq0(P(pp[0]))), *[T.b_le(P(pp[j + 1]), P(pp[j])) for j in range(n - 1)])], bound=f"{n} rows",
                      replay=(replay_builder, {"dry": dry, "pmax": pmax}))
            # the columns the table integrates are the quadrature route's integrand for the *caller's* gas: viscosity_Sutton and
            # z_factor_DAK at (T, p_row, Sutton point of the supplied composition[, gravity])
            tpc, ppc = gas.pseudocritical_point_Sutton(vs["sg"], gas.make_nonhydrocarbon_properties(vs["N2"], vs["H2S"], vs["CO2"]), dry)
            same = []
            for j in range(n):
                same.append(T.b_eq(P(mu[j]), P(ufs["viscosity_Sutton"](vs["T"], p[j], tpc, ppc, vs["sg"]))))
                same.append(T.b_eq(P(z[j]), P(ufs["z_factor_DAK"](vs["T"], p[j], tpc, ppc))))
            job.prove(f"builder[{dtag}]/integrand columns are viscosity_Sutton and z_factor_DAK at the Sutton point of the caller's composition[path{k}]",
                      pr.pc + [T.b_not(T.b_and(*same))], bound=f"{n} rows", replay=(replay_builder_int if int_pmax else replay_builder_vs_quad, {"dry": dry, "pmax": pmax}))
            job.prove(f"builder[{dtag}]/reach[path{k}]", pr.pc, expect="sat")


# concrete replays run on the real code when the changed code uses something the engine does not model (harness.finish)
FALLBACK = [(replay_builder, {}), (replay_builder, {"dry": "wet gas"}), (replay_builder_vs_quad, {}), (replay_builder_vs_quad, {"dry": "wet gas"}), (replay_hussainy, {}), (replay_hussainy_value, {}), (replay_builder_int, {})]


def jobs(tier):
    out = [("hussainy", job_hussainy), ("transform3", lambda j: job_transform(j, 3)), ("transform3-descending", lambda j: job_transform(j, 3, True)), ("transform3-series-columns", lambda j: job_transform(j, 3, False, True)), ("builder", lambda j: job_builder(j, 45)), ("builder-int-maximum-pressure", lambda j: job_builder(j, 45, True))]
    if tier != "quick":
        out += [("transform4", lambda j: job_transform(j, 4)), ("transform5", lambda j: job_transform(j, 5)),
                ("builder75", lambda j: job_builder(j, 75)), ("transform8", lambda j: job_transform(j, 8)),
                ("transform5-descending", lambda j: job_transform(j, 5, True)), ("builder100", lambda j: job_builder(j, 100)),
                ("transform16", lambda j: job_transform(j, 16)), ("transform12-descending", lambda j: job_transform(j, 12, True)),
                ("transform24", lambda j: job_transform(j, 24)), ("transform8-series-columns", lambda j: job_transform(j, 8, False, True)), ("builder60-int-maximum-pressure", lambda j: job_builder(j, 60, True))]
    return out
