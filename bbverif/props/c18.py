"""C18 - the pressure-history fit uses the library's forward model and honours its limits.

`forecast_pressure._obj_function` and `fit_production_pressure` are executed symbolically with
`FlowProperties` / `SinglePhaseReservoir` as recording stubs (their behaviour is C01-C04, C09), lmfit's
`Parameters` / `Minimizer` as contract stubs (values stay inside their declared [min, max]; what was
declared and handed over is recorded) and pandas / uniform_filter1d as exact models.  Where Nelder-Mead
ends up is outside the claim.
"""
from __future__ import annotations

import itertools
from fractions import Fraction

from ..sx import terms as T
from ..sx.sym import ctx
from ..shims import pd_shim
from ..shims import scipy_shim as SS
from ..shims.np_shim import SymArray
from .common import (snapshot, touched, P, box, evalf, load_sym, model_floats, not_close, paths, rng, K, Q, Sym, lift, simp, fresh)


class _Par:
    def __init__(self, name, value, min=None, max=None):
        self.name, self.value, self.min, self.max = name, value, min, max


class ParametersStub(dict):
    def add(self, name, value=None, min=None, max=None, **kw):
        self[name] = _Par(name, value, min, max)


class MinimizerStub:
    instances = []

    def __init__(self, fcn, params, fcn_args=(), **kw):
        self.fcn, self.params, self.fcn_args, self.kw = fcn, params, fcn_args, kw
        self.calls = []
        MinimizerStub.instances.append(self)

    def minimize(self, method=None, max_nfev=None, **kw):
        """Contract: every fitted value stays inside its declared [min, max]."""
        self.calls.append({"method": method, "max_nfev": max_nfev})
        out = ParametersStub()
        c = ctx()
        for name, p in self.params.items():
            v = fresh(f"fit_{name}")
            if p.min is not None:
                c.assume((lift(v) >= lift(p.min)).node)
            if p.max is not None:
                c.assume((lift(v) <= lift(p.max)).node)
            out[name] = _Par(name, v, p.min, p.max)

        class R:
            params = out
        return R()


class Rec:
    log = []


def _flow_stub(pvt_table, p_i):
    o = type("FlowPropsRec", (), {})()
    o.args = (pvt_table, p_i)
    Rec.log.append(("FlowProperties", o.args))
    return o


class _ResStub:
    def __init__(self, nx, pf, pi, fluid):
        self.args = (nx, pf, pi, fluid)
        Rec.log.append(("SinglePhaseReservoir", self.args))

    def simulate(self, t, pressure_fracface=None):
        self.sim = (t, pressure_fracface)
        Rec.log.append(("simulate", self.sim))

    def recovery_factor(self):
        n = len(self.sim[0])
        self.rf = SymArray([fresh(f"rf{k}") for k in range(n)], "f8")
        Rec.log.append(("recovery_factor", self.rf))
        return self.rf


def _load():
    return load_sym("bluebonnet.forecast.forecast_pressure", pd=pd_shim.PD, FlowProperties=_flow_stub, SinglePhaseReservoir=_ResStub,
                    Parameters=ParametersStub, Minimizer=MinimizerStub, **SS.rebind())


# ------------------------------------------------------------------ replay

def _real_data(model, pattern, keep_zero=False):
    import numpy as np
    import pandas as pd
    n = len(pattern)
    # the model's values are mapped into a physically sane range (the real fit must be able to run)
    gas = [min(max(abs(float(model.get(f"gas{k}") or (50.0 + 10 * k))), 1.0), 1e4) for k in range(n)]
    raw = [float(model.get(f"pr{k}") or (3000.0 - 100 * k)) for k in range(n)]
    if any(not 500.0 <= v <= 4000.0 for v in raw):
        # the solver's pressures lie outside the range in which the real fit can run: keep their ORDER (which day carries the
        # highest frac-face pressure is what the limits depend on), spread over 1500 .. 3500 psi
        uniq = sorted(set(raw))
        raw = [1500.0 + 2000.0 * uniq.index(v) / max(len(uniq) - 1, 1) for v in raw]
    pr = [min(max(v, 500.0), 4000.0) for v in raw]
    pr = [np.nan if pattern[k] == "nan" else pr[k] for k in range(n)]
    gas = [0.0 if pattern[k] == "zero" else np.nan if pattern[k] == "gasnan" else abs(gas[k]) + 1e-3 for k in range(n)]
    # "extragap": a productive day with a pressure reading whose OTHER column (water rate, choke, ...) has a gap: it stays
    if keep_zero:
        # with the zero-production filter off, a day the solver's model gives no production stays a zero-rate day (a shut-in
        # day whose pressure reading is part of the frac-face history)
        for k in range(n):
            g = model.get(f"gas{k}")
            if g is not None and float(g) <= 0 and pattern[k] == "ok":
                gas[k] = 0.0
    extra = [np.nan if pattern[k] == "extragap" else float(k) for k in range(n)]
    return pd.DataFrame({"Days": np.arange(n) + 1, "Gas": gas, "Pressure": pr, "Extra": extra})


def _dup_labels(n):
    """Index labels of two exports joined with pd.concat without ignore_index: 0..h-1, 0..n-h-1."""
    h = (n + 1) // 2
    return list(range(h)) + list(range(n - h))


def replay_fit(model, pattern=("ok", "ok", "ok", "ok"), filt=True, window=None, pvt_desc=False, dup_labels=False):
    import numpy as np
    import pandas as pd
    import warnings
    from bluebonnet.forecast import fit_production_pressure
    from bluebonnet.fluids import build_pvt_gas
    data = _real_data(model, pattern, keep_zero=not filt)
    if dup_labels:
        data.index = _dup_labels(len(data))
    gv = {"N2": 0.0, "H2S": 0.0, "CO2": 0.0, "Gas Specific Gravity": 0.65, "Reservoir Temperature (deg F)": 200.0}
    pvt = build_pvt_gas(gv, "dry gas", 6000)
    if pvt_desc:
        pvt = pvt.iloc[::-1].reset_index(drop=True)      # the same table listed from high pressure to low
    keep = data[(data["Gas"] > 0) & data["Pressure"].notna()] if filt else data
    if len(keep) < 2 or keep["Pressure"].isna().any():
        return False, {"what": "too few usable rows for a concrete replay"}
    imax, inmax = 5500.0, 1e5
    problems = []
    n = len(keep)
    cum = np.cumsum(keep["Gas"].to_numpy())
    want = {"tau": (30.0, 2.0 * (n - 1)), "M": (cum[-2], inmax), "p_initial": (keep["Pressure"].max(), imax)}
    # first guesses of the initial pressure above and below the highest frac-face pressure (the declared limits do not
    # depend on the guess)
    data0, pvt0 = data.copy(deep=True), pvt.copy(deep=True)
    for guess in (4000.0, max(float(keep["Pressure"].max()) - 700.0, 100.0)):
        with warnings.catch_warnings():
            warnings.simplefilter("ignore")
            try:
                res = fit_production_pressure(data, pvt, guess, filter_window_size=window, pressure_imax=imax, inplace_max=inmax,
                                              filter_zero_prod_days=filt, n_iter=3)
            except Exception as ex:  # noqa: BLE001
                return True, {"what": f"fit_production_pressure raised {ex!r} on {len(keep)} usable rows of {len(data)} "
                                      f"(rows without production or pressure must be excluded)", "inputs": {"pattern": list(pattern)}}
        p = res.params
        for k, (lo, hi) in want.items():
            if abs(p[k].min - lo) > 1e-9 * (1 + abs(lo)) or abs(p[k].max - hi) > 1e-9 * (1 + abs(hi)):
                problems.append(f"first guess {guess}: {k} limits [{p[k].min!r}, {p[k].max!r}] vs declared [{lo!r}, {hi!r}]")
            if not (p[k].min - 1e-9 <= p[k].value <= p[k].max + 1e-9):
                problems.append(f"first guess {guess}: {k} = {p[k].value!r} outside its limits")
        if not data.equals(data0) or list(data.columns) != list(data0.columns):
            problems.append("the caller's production table was modified by fit_production_pressure")
        if not pvt.equals(pvt0) or list(pvt.columns) != list(pvt0.columns):
            problems.append("the caller's PVT table was modified by fit_production_pressure")
        if p["p_initial"].value < keep["Pressure"].max() - 1e-9:
            problems.append(f"first guess {guess}: fitted p_initial {p['p_initial'].value!r} below the highest frac-face pressure {keep['Pressure'].max()!r}")
        if problems:
            break
    return bool(problems), {"what": "; ".join(problems[:3]) or "limits as declared, fitted values inside", "inputs": {"pattern": list(pattern)}}


def replay_obj(model):
    import numpy as np
    import warnings
    from bluebonnet.forecast import forecast_pressure as fp
    from bluebonnet.flow import FlowProperties, SinglePhaseReservoir
    from bluebonnet.fluids import build_pvt_gas
    from lmfit import Parameters
    gv = {"N2": 0.0, "H2S": 0.0, "CO2": 0.0, "Gas Specific Gravity": 0.65, "Reservoir Temperature (deg F)": 200.0}
    pvt = build_pvt_gas(gv, "dry gas", 6000)
    days = np.arange(6.0)
    pf = np.array([3000.0, 2800.0, 2500.0, 2500.0, 2200.0, 2000.0])
    tau, M, pi = 400.0, 5000.0, 4500.0
    with warnings.catch_warnings():
        warnings.simplefilter("ignore")
        r = SinglePhaseReservoir(80, pi, pi, FlowProperties(pvt, pi))
        r.simulate(days / tau, pressure_fracface=pf)
        prod = M * r.recovery_factor()
        par = Parameters()
        par.add("tau", value=tau)
        par.add("M", value=M)
        par.add("p_initial", value=pi)
        res = fp._obj_function(par, days, prod, pvt, pf)
        # the same record when the well already had produced 250 before the first sample (cumulative production does not
        # start at 0: a table cut at a later date, or rows filtered before the fit): the objective is off by exactly -250
        res2 = fp._obj_function(par, days, prod + 250.0, pvt, pf)
        # a table with the user's own diffusivity column whose pseudopressure is referenced to a pressure ABOVE the final
        # frac-face pressure: the scaled frac-face value is negative and recovery_factor() rises past 1 - the objective is
        # still M * recovery_factor - production, whatever range the forward model's curve takes
        import pandas as pd
        pt = np.arange(500.0, 6001.0, 100.0)
        own = pd.DataFrame({"pressure": pt, "pseudopressure": (pt - 2950.0) * 1000.0, "alpha": np.full(len(pt), 2.0)})
        days3 = np.array([0.0, 100.0, 400.0, 1000.0, 1600.0])
        pf3 = np.array([2600.0, 2300.0, 2000.0, 2000.0, 2000.0])
        r3 = SinglePhaseReservoir(80, pi, pi, FlowProperties(own, pi))
        r3.simulate(days3 / tau, pressure_fracface=pf3)
        rf3 = np.asarray(r3.recovery_factor(), float)
        res3 = np.asarray(fp._obj_function(par, days3, M * rf3, own, pf3), float)
    if bool(np.any(np.abs(res3) > 1e-9 * (1 + np.abs(M * rf3)))):
        return True, {"what": f"table with its own diffusivity column and a pseudopressure reference above the final frac-face pressure (recovery_factor reaches {rf3.max():.3f}): "
                              f"objective at the generating parameters = {res3.tolist()} (must be 0)"}
    bad = bool(np.any(np.abs(res) > 1e-9 * (1 + np.abs(prod))))
    if not bad and bool(np.any(np.abs(np.asarray(res2) + 250.0) > 1e-9 * (251 + np.abs(prod)))):
        return True, {"what": f"objective for cumulative production shifted by 250 at the generating parameters = {np.asarray(res2).tolist()} (must be -250 everywhere: "
                              f"M * recovery - production)"}
    return bad, {"what": f"objective at the generating parameters = {np.asarray(res).tolist()} (must be 0)"}


def replay_obj_second(model):
    """Two wells, two gases, one initial pressure, one process: the objective of the second well at ITS generating
    parameters must be zero (the forward model must be built on the table handed to that call)."""
    import numpy as np
    import warnings
    from bluebonnet.forecast import forecast_pressure as fp
    from bluebonnet.flow import FlowProperties, SinglePhaseReservoir
    from bluebonnet.fluids import build_pvt_gas
    from lmfit import Parameters
    days = np.arange(6.0)
    pf = np.array([3000.0, 2800.0, 2500.0, 2500.0, 2200.0, 2000.0])
    tau, M, pi = 400.0, 5000.0, 4500.0
    worst = []
    with warnings.catch_warnings():
        warnings.simplefilter("ignore")
        for sg, T_ in ((0.6, 150.0), (0.9, 300.0)):
            gv = {"N2": 0.0, "H2S": 0.0, "CO2": 0.0, "Gas Specific Gravity": sg, "Reservoir Temperature (deg F)": T_}
            pvt = build_pvt_gas(gv, "dry gas", 6000)
            r = SinglePhaseReservoir(80, pi, pi, FlowProperties(pvt, pi))
            r.simulate(days / tau, pressure_fracface=pf)
            prod = M * r.recovery_factor()
            par = Parameters()
            par.add("tau", value=tau)
            par.add("M", value=M)
            par.add("p_initial", value=pi)
            res = fp._obj_function(par, days, prod, pvt, pf)
            worst.append(float(np.abs(res).max() / (1 + np.abs(prod).max())))
    bad = worst[-1] > 1e-9
    return bad, {"what": f"objective at the generating parameters, first gas then second gas at the same p_initial: relative sizes {worst} (must be 0)"}


def replay_obj_dict_table(model):
    """Real objective evaluated twice at the generating parameters with the PVT table given as a plain dict of arrays (a
    Mapping is a documented table type): both evaluations are zero and the caller's table is as it was."""
    import numpy as np
    import warnings
    from bluebonnet.forecast import forecast_pressure as fp
    from bluebonnet.flow import FlowProperties, SinglePhaseReservoir
    from bluebonnet.fluids import build_pvt_gas
    from lmfit import Parameters
    gv = {"N2": 0.0, "H2S": 0.0, "CO2": 0.0, "Gas Specific Gravity": 0.65, "Reservoir Temperature (deg F)": 200.0}
    frame = build_pvt_gas(gv, "dry gas", 6000)
    table = {c: np.array(frame[c], dtype=float) for c in frame.columns}
    keep = {c: v.copy() for c, v in table.items()}
    days = np.arange(6.0)
    pf = np.array([3000.0, 2800.0, 2500.0, 2500.0, 2200.0, 2000.0])
    tau, M, pi = 400.0, 5000.0, 4500.0
    with warnings.catch_warnings():
        warnings.simplefilter("ignore")
        r = SinglePhaseReservoir(80, pi, pi, FlowProperties(frame, pi))
        r.simulate(days / tau, pressure_fracface=pf)
        prod = M * np.asarray(r.recovery_factor(), float)
        par = Parameters()
        par.add("tau", value=tau)
        par.add("M", value=M)
        par.add("p_initial", value=pi)
        problems = []
        for call in (1, 2):
            res = np.asarray(fp._obj_function(par, days, prod, table, pf), float)
            if np.any(np.abs(res) > 1e-9 * (1 + np.abs(prod))):
                problems.append(f"evaluation {call} at the generating parameters with a dict table: objective {res.tolist()} (must be 0)")
            changed = [c for c in keep if c not in table or not np.array_equal(table[c], keep[c])] + [c for c in table if c not in keep]
            if changed:
                problems.append(f"after evaluation {call} the caller's dict table differs in {changed}")
    return bool(problems), {"what": "; ".join(problems[:2]) or "dict table: objective zero on both evaluations, table untouched"}


# ------------------------------------------------------------------ jobs

def job_objective_dict_table(job):
    """The objective with the library's OWN FlowProperties (executed symbolically) on a PVT table given as a dict of arrays:
    two evaluations in a row (an optimiser makes hundreds) hand the same flow properties to the reservoir and leave the
    caller's table alone."""
    from . import c09
    from .common import snapshot, touched
    fpmod = c09._load()
    mod = load_sym("bluebonnet.forecast.forecast_pressure", pd=pd_shim.PD, FlowProperties=fpmod.FlowProperties, SinglePhaseReservoir=_ResStub,
                   Parameters=ParametersStub, Minimizer=MinimizerStub, **SS.rebind())
    job.encoded(mod, "_obj_function")
    job.encoded(fpmod, "FlowProperties.__init__")
    job.stub("SinglePhaseReservoir: recording stub; FlowProperties: the library's own class on a symbolic 3-row table")
    n = 3
    tab, ps, dom = c09._table(n, c09.LONG)
    days = SymArray([fresh(f"day{k}") for k in range(n)], "f8")
    prod = SymArray([fresh(f"prod{k}") for k in range(n)], "f8")
    pf = SymArray([fresh(f"pf{k}") for k in range(n)], "f8")
    tau, M, pi = fresh("tau", pos=True), fresh("M"), fresh("p_init", pos=True)
    dom = dom + [T.b_le(P(ps[0]), P(pi)), T.b_le(P(pi), P(ps[-1]))]
    par = ParametersStub()
    par.add("tau", value=tau)
    par.add("M", value=M)
    par.add("p_initial", value=pi)

    def run():
        import warnings
        Rec.log.clear()
        SS.reset_names()
        table = {k: v.copy() for k, v in tab.items()}
        snap = snapshot(table)
        with warnings.catch_warnings():
            warnings.simplefilter("ignore")
            mod._obj_function(par, days, prod, table, pf)
            t1 = touched(snap)
            mod._obj_function(par, days, prod, table, pf)
        fluids = [e[1][3] for e in Rec.log if e[0] == "SinglePhaseReservoir"]
        return t1, touched(snap), [(f.m_i, list(f.pvt_props["m-scaled"].d)) for f in fluids]
    for k, pr in enumerate(paths(job, run, dom, catch=(Exception,), max_paths=64)):
        if pr.exc is not None:
            job.prove(f"objective[dict table]/raises {type(pr.exc).__name__}[path{k}]", pr.pc, bound="3-row table", replay=replay_obj_dict_table, note=repr(pr.exc)[:100])
            continue
        t1, t2, fl = pr.value
        if t1 or t2:
            job._violation(f"objective[dict table]/the caller's PVT table is left alone by an evaluation[path{k}]", {},
                           {"what": f"after the first evaluation: {t1}; after the second: {t2}", "replayer": "replay_obj_dict_table", "replayer_kwargs": {}}, None)
        else:
            job.record(f"objective[dict table]/the caller's PVT table is left alone by an evaluation[path{k}]", "unsat", 0.0, note="effect check on the path")
        if len(fl) == 2:
            diff = [T.b_not(T.b_eq0(T.p_sub(P(fl[0][0]), P(fl[1][0]))))] + [T.b_not(T.b_eq0(T.p_sub(P(a), P(b)))) for a, b in zip(fl[0][1], fl[1][1])]
            job.prove(f"objective[dict table]/two evaluations in a row build the same flow properties[path{k}]", pr.pc + [T.b_or(*diff)], bound="3-row table",
                      replay=replay_obj_dict_table)
        job.prove(f"objective[dict table]/reach[path{k}]", pr.pc, expect="sat")


def job_objective(job):
    mod = _load()
    job.encoded(mod, "_obj_function")
    job.stub("FlowProperties, SinglePhaseReservoir: recording stubs (constructor arguments, simulate arguments, a symbolic recovery array)",
             "lmfit Parameters: value containers")
    n = 3
    days = SymArray([fresh(f"day{k}") for k in range(n)], "f8")
    prod = SymArray([fresh(f"prod{k}") for k in range(n)], "f8")
    pf = SymArray([fresh(f"pf{k}") for k in range(n)], "f8")
    tau, M, pi = fresh("tau", pos=True), fresh("M"), fresh("p_init", pos=True)
    pvt = object()
    par = ParametersStub()
    par.add("tau", value=tau)
    par.add("M", value=M)
    par.add("p_initial", value=pi)

    def run():
        Rec.log.clear()
        out = mod._obj_function(par, days, prod, pvt, pf)
        return out, list(Rec.log)

    for k, pr in enumerate(paths(job, run, [])):
        out, log = pr.value
        kinds = [e[0] for e in log]
        ok = kinds == ["FlowProperties", "SinglePhaseReservoir", "simulate", "recovery_factor"]
        facts = []
        if ok:
            fpa, rsa, sima, rf = log[0][1], log[1][1], log[2][1], log[3][1]
            ok = fpa[0] is pvt and rsa[3] is not None and sima[1] is pf
            facts += [T.b_eq(P(fpa[1]), P(pi)), T.b_eq(P(rsa[2]), P(pi))]
            facts += [T.b_eq(P(a), P(d / tau)) for a, d in zip(sima[0].d, days.d)]
            facts += [T.b_eq(P(o), P(M * r_ - q)) for o, r_, q in zip(out.d, rf.d, prod.d)]
        job.record(f"objective/builds FlowProperties(pvt_table, p_initial), a single-phase reservoir on it, simulate(.., pressure_fracface=history)[path{k}]",
                   "unsat" if ok else "sat", 0.0, note=str(kinds))
        if not ok:
            job._violation("objective/forward model calls", {}, {"what": f"objective does not run the library's forward model as documented: {kinds}",
                                                                 "replayer": "replay_obj", "replayer_kwargs": {}}, None)
            continue
        job.prove(f"objective/== M * recovery_factor(days / tau) - production with p_initial from the parameters[path{k}]",
                  pr.pc + [T.b_not(T.b_and(*facts))], bound="3 days", replay=replay_obj)
    # a second evaluation on the same loaded module with ANOTHER table (and the same parameters): the forward model of that
    # evaluation must be built on the table handed to it - nothing may be carried over from the first call
    pvt2 = object()

    def run2():
        Rec.log.clear()
        mod._obj_function(par, days, prod, pvt, pf)
        n1 = len(Rec.log)
        out = mod._obj_function(par, days, prod, pvt2, pf)
        return out, list(Rec.log[n1:])

    for k, pr in enumerate(paths(job, run2, [])):
        out, log = pr.value
        res_ = [e for e in log if e[0] == "SinglePhaseReservoir"]
        ok = len(res_) == 1 and getattr(res_[0][1][3], "args", (None,))[0] is pvt2
        facts = [T.b_eq(P(res_[0][1][3].args[1]), P(pi))] if ok else []
        job.record(f"objective/second evaluation with another table builds its forward model on that table[path{k}]", "unsat" if ok else "sat", 0.0,
                   note=str([e[0] for e in log]))
        if not ok:
            okr, det = replay_obj_second({})
            if okr:
                job._violation("objective/second evaluation uses the table of an earlier call", {}, dict(det, replayer="replay_obj_second", replayer_kwargs={}), None)
            else:
                job.errors.append("objective: second evaluation does not rebuild the flow properties symbolically but the real code gives a zero objective - harness too strict")
            continue
        job.prove(f"objective/second evaluation: p_initial of the rebuilt flow properties[path{k}]", pr.pc + [T.b_not(T.b_and(*facts))], bound="two calls", replay=replay_obj_second)


def job_fit(job, pattern, filt, window, pvt_desc=False, dup_labels=False):
    mod = _load()
    job.encoded(mod, "fit_production_pressure")
    job.stub("lmfit Parameters / Minimizer: contract stubs (declared limits recorded; fitted values inside them)",
             "pandas DataFrame: exact column container; scipy.ndimage.uniform_filter1d: exact reflect-mode mean")
    short = tuple(pattern)
    pattern = tuple(pattern) + ("sure",) * FILLER      # enough surely-productive days for tau's range [30, 2(n-1)] to be non-empty
    n = len(pattern)
    job.bound(production_rows=n, rows_with_uncertain_production=len(short))
    gas = [Q(0) if pattern[k] == "zero" else pd_shim.NA if pattern[k] == "gasnan" else fresh(f"gas{k}", pos=(pattern[k] in ("sure", "extragap"))) for k in range(n)]
    prs = [pd_shim.NA if pattern[k] == "nan" else fresh(f"pr{k}", pos=True) for k in range(n)]
    days = [Q(k + 1) for k in range(n)]
    frame = pd_shim.SymFrame()
    frame.cols = {"Days": SymArray(days, "f8"), "Gas": SymArray(gas, "f8"), "Pressure": SymArray(prs, "f8"), "Extra": SymArray([pd_shim.NA if pattern[k] == "extragap" else Q(7) for k in range(n)], "f8")}
    if dup_labels:
        # two monthly exports joined with pd.concat without ignore_index: every label occurs twice; rows are days, not labels
        frame.index_labels = _dup_labels(n)
        job.bound(production_index="row labels 0..h-1, 0..n-h-1 (two exports concatenated, labels repeat)")
    p0, imax, inmax = fresh("p_guess", pos=True), fresh("imax", pos=True), fresh("inmax", pos=True)
    # the PVT table: a 3-row frame (pressure increasing or, `pvt_desc`, listed from high to low - the forward model only
    # interpolates it, so both are the same table); it must reach the forward model as the caller's object
    pv = [fresh("pvt_p0", pos=True)]
    for k_ in (1, 2):
        pv.append(pv[-1] + fresh(f"pvt_dp{k_}", pos=True))
    pvt = pd_shim.SymFrame()
    pvt.cols = {c: SymArray(list(reversed(v)) if pvt_desc else list(v), "f8") for c, v in
                (("pressure", pv), ("pseudopressure", [fresh(f"pvt_m{k_}", pos=True) for k_ in range(3)]), ("z-factor", [fresh(f"pvt_z{k_}", pos=True) for k_ in range(3)]),
                 ("compressibility", [fresh(f"pvt_c{k_}", pos=True) for k_ in range(3)]), ("viscosity", [fresh(f"pvt_mu{k_}", pos=True) for k_ in range(3)]))}
    tag = f"fit[{','.join(short)}+{FILLER} productive days;filter={filt};window={window}{';PVT table listed high to low' if pvt_desc else ''}{';row labels repeat' if dup_labels else ''}]"

    def run():
        MinimizerStub.instances.clear()
        SS.reset_names()
        snaps = (snapshot(frame), snapshot(pvt))
        res = mod.fit_production_pressure(frame, pvt, p0, filter_window_size=window, pressure_imax=imax, inplace_max=inmax,
                                          filter_zero_prod_days=filt, n_iter=Q(17))
        return res, list(MinimizerStub.instances), [t for t in (touched(snaps[0]), touched(snaps[1])) if t]

    rp = (replay_fit, {"pattern": [("ok" if q == "sure" else q) for q in pattern], "filt": filt, "window": window, "pvt_desc": pvt_desc, "dup_labels": dup_labels})
    res = paths(job, run, [], catch=(Exception,), max_paths=64)
    for k, pr in enumerate(res):
        if pr.exc is not None:
            # at least FILLER (>= 2) surely productive rows with a pressure survive the filter on every path, so the fit
            # must be set up: an exception here means a row that should have been excluded got through (or the set-up broke)
            if filt or not any(q in ("nan", "gasnan") for q in pattern):
                job.prove(f"{tag}/raises {type(pr.exc).__name__} although {FILLER} usable rows exist[path{k}]", pr.pc, bound=f"{n} rows", replay=rp,
                          note=str(pr.exc)[:80])
            else:
                job.record(f"{tag}/path{k} raises {type(pr.exc).__name__}", "info", 0.0, note=str(pr.exc)[:80])
            continue
        out, minis, was_touched = pr.value
        if was_touched:
            job._violation(f"{tag}/the caller's production and PVT tables are left alone[path{k}]", {},
                           {"what": "; ".join(was_touched), "replayer": "replay_fit", "replayer_kwargs": rp[1]}, None)
        else:
            job.record(f"{tag}/the caller's production and PVT tables are left alone[path{k}]", "unsat", 0.0, note="effect check on the path")
        if len(minis) != 1:
            job.errors.append(f"{tag}: expected one Minimizer")
            continue
        mz = minis[0]
        time, cum, pvt_used, pf = mz.fcn_args
        # which rows must have been kept on this path
        keep = []
        for j in range(n):
            if not filt:
                keep.append(j)
                continue
            if pattern[j] in ("nan", "zero", "gasnan"):
                continue
            if pattern[j] in ("sure", "extragap"):
                keep.append(j)
                continue
            d = [v for b, v in pr.ctx.decisions if True]
            gpos = T.b_lt(T.ZERO, P(gas[j]))
            from ..sx.sym import known_truth
            prev = pr.ctx
            import bbverif.sx.sym as S_
            old = S_.Context.current
            S_.Context.current = pr.ctx
            try:
                kt = known_truth(gpos)
            finally:
                S_.Context.current = old
            if kt is None:
                job.errors.append(f"{tag}: row {j} neither kept nor dropped on path {k}")
                kt = False
            if kt:
                keep.append(j)
        m = len(keep)
        struct_ok = (len(time) == m and all(concrete_eq(time.d[i], i) for i in range(m)) and len(cum) == m and len(pf) == m and pvt_used is pvt
                     and mz.fcn is mod._obj_function and mz.calls and mz.calls[0]["method"] == "Nelder" and concrete_eq(mz.calls[0]["max_nfev"], 17))
        job.record(f"{tag}/rows kept iff Gas > 0 and pressure present; time = 0..n-1; Nelder-Mead with the iteration budget[path{k}]",
                   "unsat" if struct_ok else "sat", 0.0, note=f"kept rows {keep}")
        if not struct_ok:
            job._violation(f"{tag}/structure[path{k}]", {}, {"what": f"kept rows {keep}: time {time.d}, {len(cum)} cumulative values, {len(pf)} pressures",
                                                            "replayer": "replay_fit", "replayer_kwargs": rp[1]}, None)
            continue
        if m < 2:
            continue
        facts = []
        run_sum = Q(0)
        for i, j in enumerate(keep):
            run_sum = run_sum + gas[j]
            facts.append(T.b_eq(P(cum.d[i]), P(run_sum)))
            if window in (None, 1):
                facts.append(T.b_eq(P(pf.d[i]), P(prs[j])))
        par = mz.params
        from ..sx.sym import s_max
        pmax = pf.d[0]
        for v in pf.d[1:]:
            pmax = s_max(pmax, v)
        facts += [T.b_eq(P(par["tau"].min), T.Poly.const(30)), T.b_eq(P(par["tau"].max), T.Poly.const(2 * (m - 1))),
                  T.b_eq(P(par["M"].min), P(cum.d[m - 2])), T.b_eq(P(par["M"].max), P(inmax)),
                  T.b_eq(P(par["p_initial"].min), P(pmax)), T.b_eq(P(par["p_initial"].max), P(imax)),
                  T.b_eq(P(par["p_initial"].value), P(p0)), T.b_eq(P(par["M"].value), P(cum.d[m - 1]))]
        job.prove(f"{tag}/cumulative sum, pressures and the declared limits tau in [30, 2(n-1)], M in [cum[-2], inplace_max], "
                  f"p_initial in [max p_f, pressure_imax][path{k}]", pr.pc + [T.b_not(T.b_and(*facts))], bound=f"{n} rows", replay=rp)
        job.prove(f"{tag}/reach[path{k}]", pr.pc, expect="sat")
        fit = out.params
        outside = []
        for name in ("tau", "M", "p_initial"):
            outside += [T.b_lt(P(fit[name].value), P(par[name].min)), T.b_lt(P(par[name].max), P(fit[name].value))]
        job.prove(f"{tag}/fitted tau, M, p_initial inside their declared limits (p_initial >= highest frac-face pressure)[path{k}]",
                  pr.pc + [T.b_or(*outside, T.b_lt(P(fit["p_initial"].value), P(pmax)))], bound=f"{n} rows", replay=rp)


FILLER = 16


def concrete_eq(x, v):
    from ..sx.sym import concrete
    c = concrete(x)
    return c is not None and c == v


# concrete replays run on the real code when the changed code uses something the engine does not model (harness.finish)
_OK19 = ["ok"] * 19
FALLBACK = [(replay_fit, {"pattern": _OK19}), (replay_fit, {"pattern": _OK19, "window": 1}), (replay_fit, {"pattern": ["ok", "nan"] + _OK19}),
            (replay_fit, {"pattern": ["ok", "zero"] + _OK19, "window": 1}), (replay_fit, {"pattern": ["ok", "nan"] + _OK19, "window": 1}),
            (replay_fit, {"pattern": _OK19, "pvt_desc": True}), (replay_fit, {"pattern": _OK19, "filt": False}), (replay_obj, {}), (replay_obj_second, {})]


def jobs(tier):
    out = [("objective", job_objective), ("objective-dict-table", job_objective_dict_table)]
    pats = [("ok", "ok", "ok"), ("ok", "zero", "ok", "ok"), ("ok", "nan", "ok", "ok"), ("ok", "gasnan", "ok", "ok")]
    if tier != "quick":
        pats += [("zero", "ok", "nan", "ok", "ok"), ("ok", "ok", "ok", "ok", "ok"), ("ok", "zero", "zero", "ok", "gasnan", "ok", "ok"),
                 ("nan", "ok", "ok", "zero", "ok", "ok", "ok", "ok"), ("ok", "gasnan", "zero", "ok", "nan", "ok", "ok", "zero", "ok", "ok"),
                 ("ok",) * 6]
    for p in pats:
        for filt in (True, False):
            if not filt and ("nan" in p or "gasnan" in p):
                continue
            for w in (None, 1):
                out.append((f"fit-{'-'.join(p)}-{filt}-{w}", lambda j, p=p, f=filt, w=w: job_fit(j, p, f, w)))
    out.append(("fit-ok-extragap-ok-True-None", lambda j: job_fit(j, ("ok", "extragap", "ok"), True, None)))
    out.append(("fit-ok-ok-ok-True-None-pvt-descending", lambda j: job_fit(j, ("ok", "ok", "ok"), True, None, True)))
    out.append(("fit-ok-zero-ok-ok-True-None-row-labels-repeat", lambda j: job_fit(j, ("ok", "zero", "ok", "ok"), True, None, False, True)))
    return out
