"""C16 - multiphase storage is a pressure derivative; diffusivity is mobility over it.

`compressibility_combined_func`, `lambda_combined_func`, `alpha_multiphase` are executed with the PVT
and rel-perm interpolators replaced by positive uninterpreted functions (so a verdict covers every
table).  Reference: the storage function of docs/background.md differenced over +-0.5 psi (the
documentation's `S_g/b_o` in the gas term is read as `S_g/B_g`, as in its own three-phase section).
"""
from __future__ import annotations

from fractions import Fraction

from ..sx import terms as T
from .common import (P, box, check_defined, evalf, load_sym, model_floats, not_close, paths, rng, K, Q, Sym, lift,
                     simp, fresh, uf_callable)
from .c13 import _uf
from ..shims import pd_shim
from ..shims import scipy_shim as SS

PVT_FUNCS = ("Bo", "Bg", "Bw", "Rs", "Rv", "mu_o", "mu_g", "mu_w")
KR_FUNCS = ("kro", "krg", "krw")
RHO = ("rho_o0", "rho_g0", "rho_w0")


def _load():
    return load_sym("bluebonnet.flow.flowproperties", pd=pd_shim.PD, **SS.rebind())


def storage(pvt, p, So, Sg, Sw, phi):
    """Documented stored mass per unit volume (relative to the reference density)."""
    return phi * (pvt["rho_o0"] * (pvt["Rv"](p) * Sg / pvt["Bg"](p) + So / pvt["Bo"](p))
                  + pvt["rho_g0"] * (pvt["Rs"](p) * So / pvt["Bo"](p) + Sg / pvt["Bg"](p))
                  + pvt["rho_w0"] * Sw / pvt["Bw"](p))


def mobility(pvt, kr, p, So):
    """Documented total mass mobility."""
    og = kr["krg"](So) / (pvt["mu_g"](p) * pvt["Bg"](p))
    oo = kr["kro"](So) / (pvt["mu_o"](p) * pvt["Bo"](p))
    return (pvt["rho_o0"] * (pvt["Rv"](p) * og + oo) + pvt["rho_g0"] * (pvt["Rs"](p) * oo + og)
            + pvt["rho_w0"] * kr["krw"](So) / (pvt["mu_w"](p) * pvt["Bw"](p)))


def _sym_env(int_p=False):
    vs, dom = box(None, _integer=("p",) if int_p else (), p=(15, 20000), So=(0, 1), Sw=(0, 1), phi=("0.001", 1), phi2=("0.001", 1), rho_o0=("0.1", 100),
                  rho_g0=("0.001", 10), rho_w0=("0.1", 100))
    dom.append(T.b_le(P(vs["So"] + vs["Sw"]), T.ONE))
    pvt = {k: _uf(k) for k in PVT_FUNCS}
    pvt.update({k: vs[k] for k in RHO})
    kr = {k: _uf(k) for k in KR_FUNCS}
    return vs, dom, pvt, kr


def _real_env(model):
    names = ["p", "So", "Sw", "phi", "phi2"] + list(RHO)
    m = model_floats(model, names, default=dict(p=3000.0, So=0.6, Sw=0.1, phi=0.1, phi2=0.2, rho_o0=50.0, rho_g0=0.05, rho_w0=62.4))
    pvt = {k: uf_callable(model, k, 1.0) for k in PVT_FUNCS}
    pvt.update({k: m[k] for k in RHO})
    kr = {k: uf_callable(model, k, 0.5) for k in KR_FUNCS}
    return m, pvt, kr


def replay_c(model, mode="reference", int_p=False):
    from bluebonnet.flow import flowproperties as fp
    m, pvt, kr = _real_env(model)
    if int_p:
        m["p"] = int(round(m["p"]))          # a pressure given as a Python int (whole psi)
    if mode == "constant":
        pvt.update({k: (lambda q, _v=float(pvt[k](m["p"] + 0.5)): _v) for k in PVT_FUNCS})
    got = float(fp.compressibility_combined_func(m["p"], m["So"], m["phi"], m["Sw"], pvt))
    Sg = 1 - m["So"] - m["Sw"]
    want = storage(pvt, m["p"] + 0.5, m["So"], Sg, m["Sw"], m["phi"]) - storage(pvt, m["p"] - 0.5, m["So"], Sg, m["Sw"], m["phi"])
    if mode == "phi":
        got2 = float(fp.compressibility_combined_func(m["p"], m["So"], m["phi2"], m["Sw"], pvt))
        bad = abs(got * m["phi2"] - got2 * m["phi"]) > 1e-9 * (abs(got * m["phi2"]) + 1e-300)
        return bad, {"what": f"c(phi={m['phi']!r}) = {got!r}, c(phi={m['phi2']!r}) = {got2!r}: not proportional to porosity", "inputs": m}
    scale = abs(storage(pvt, m["p"], m["So"], Sg, m["Sw"], m["phi"]))
    bad = abs(got - want) > 1e-9 * scale
    return bad, {"what": f"compressibility_combined_func = {got!r} vs difference of the documented storage function over "
                         f"+-0.5 psi = {want!r}" + (" (pressure-independent tables)" if mode == "constant" else ""), "inputs": m}


def replay_lambda(model, which="lambda"):
    from bluebonnet.flow import flowproperties as fp
    m, pvt, kr = _real_env(model)
    lam = float(fp.lambda_combined_func(m["p"], m["So"], pvt, kr))
    want = float(mobility(pvt, kr, m["p"], m["So"]))
    if which == "lambda":
        return abs(lam - want) > 1e-9 * abs(want), {"what": f"lambda_combined_func = {lam!r} vs documented mobility sum {want!r}", "inputs": m}
    c = float(fp.compressibility_combined_func(m["p"], m["So"], m["phi"], m["Sw"], pvt))
    al = float(fp.alpha_multiphase(m["p"], m["So"], m["phi"], m["Sw"], pvt, kr))
    return abs(al * c - lam) > 1e-9 * abs(lam), {"what": f"alpha_multiphase = {al!r} vs lambda/c = {lam / c if c else float('inf')!r}", "inputs": m}


def job_storage(job, int_p=False):
    mod = _load()
    job.encoded(mod, "compressibility_combined_func", "lambda_combined_func", "alpha_multiphase")
    job.stub("PVT interpolators pvt[...] and rel-perm interpolators kr[...]: positive uninterpreted functions of "
             "their argument (the verdict covers every table)")
    job.assume_text("docs/background.md gas storage term S_g/b_o is read as S_g/B_g (documentation typo)")
    job.bound(multiphase="scalar state (p, So, Sw) with So+Sw<=1, porosity in [0.001,1], reference densities positive")
    vs, dom, pvt, kr = _sym_env(int_p)
    if int_p:
        job.bound(pressure_kind="a Python int (whole psi)")
    p, So, Sw, phi = vs["p"], vs["So"], vs["Sw"], vs["phi"]
    Sg = 1 - So - Sw
    res = paths(job, lambda: (mod.compressibility_combined_func(p, So, phi, Sw, pvt),
                              mod.compressibility_combined_func(p, So, vs["phi2"], Sw, pvt),
                              mod.lambda_combined_func(p, So, pvt, kr),
                              mod.alpha_multiphase(p, So, phi, Sw, pvt, kr)), dom)
    for k, pr in enumerate(res):
        if pr.exc is not None:
            job.errors.append(f"storage path {k} raised {pr.exc!r}")
            continue
        c, c2, lam, al = pr.value
        want = storage(pvt, p + K("0.5"), So, Sg, Sw, phi) - storage(pvt, p - K("0.5"), So, Sg, Sw, phi)
        scale = storage(pvt, p + K("0.5"), So, Sg, Sw, phi) + storage(pvt, p - K("0.5"), So, Sg, Sw, phi)
        tolb = T.p_mul(T.Poly.const(Fraction(1, 10**9)), P(scale))
        d = T.p_sub(P(c), P(want))
        neq = T.b_const(False) if d.is_zero() else T.b_or(T.b_lt(tolb, d), T.b_lt(tolb, T.p_neg(d)))
        itag = "[pressure a Python int]" if int_p else ""
        job.prove(f"c==difference of documented storage over +-0.5 psi{itag}[path{k}]", pr.pc + [neq], bound="any table",
                  replay=(replay_c, {"mode": "reference", "int_p": int_p}))
        if int_p:
            job.prove(f"reach{itag}[path{k}]", pr.pc, expect="sat")
            continue
        # pressure-independent tables
        const = [T.b_eq(P(pvt[f](p + K("0.5"))), P(pvt[f](p - K("0.5")))) for f in ("Bo", "Bg", "Bw", "Rs", "Rv")]
        job.prove(f"c==0 for pressure-independent tables[path{k}]", pr.pc + const + [T.b_not(T.b_eq0(P(c)))], bound="any constant table",
                  replay=(replay_c, {"mode": "constant"}))
        job.prove(f"c proportional to porosity[path{k}]", pr.pc + [not_close(c * vs["phi2"], c2 * phi, abs_tol=Fraction(0))] if False else
                  pr.pc + [T.b_not(T.b_eq0(T.p_sub(P(c * vs["phi2"]), P(c2 * phi))))], bound="any table",
                  replay=(replay_c, {"mode": "phi"}))
        job.prove(f"lambda==documented mobility sum[path{k}]", pr.pc + [not_close(lam, mobility(pvt, kr, p, So))], bound="any table",
                  replay=(replay_lambda, {"which": "lambda"}))
        job.prove(f"alpha*c==lambda[path{k}]", pr.pc + [T.b_not(T.b_eq0(P(c))), not_close(al * c, lam)], bound="any table, c != 0",
                  replay=(replay_lambda, {"which": "alpha"}))
        job.prove(f"reach[path{k}]", pr.pc, expect="sat")
    if int_p:
        return
    # translator validation with concrete callables
    import math
    from bluebonnet.flow import flowproperties as fp
    real_pvt = {"Bo": lambda q: 1.1 + 2e-5 * q, "Bg": lambda q: 5.0 / q, "Bw": lambda q: 1.0 - 3e-6 * q, "Rs": lambda q: 0.1 * q,
                "Rv": lambda q: 1e-5 * q, "mu_o": lambda q: 1.0 + 1e-4 * q, "mu_g": lambda q: 0.02 + 1e-6 * q, "mu_w": lambda q: 0.5,
                "rho_o0": 50.0, "rho_g0": 0.05, "rho_w0": 62.4}
    real_kr = {"kro": lambda s: s**2, "krg": lambda s: (1 - s) ** 2, "krw": lambda s: 0.0 * s}
    ufs = {k: v for k, v in real_pvt.items() if callable(v)}
    ufs.update(real_kr)
    for env in (dict(p=3000.0, So=0.6, Sw=0.1, phi=0.1, phi2=0.3), dict(p=800.0, So=0.3, Sw=0.2, phi=0.25, phi2=0.05)):
        e = dict(env, rho_o0=50.0, rho_g0=0.05, rho_w0=62.4)
        c, c2, lam, al = res[0].value
        job.validate("compressibility_combined_func", evalf(c, e, ufs), float(fp.compressibility_combined_func(env["p"], env["So"], env["phi"], env["Sw"], real_pvt)), rel=1e-7, inputs=env)
        job.validate("lambda_combined_func", evalf(lam, e, ufs), float(fp.lambda_combined_func(env["p"], env["So"], real_pvt, real_kr)), inputs=env)
        job.validate("alpha_multiphase", evalf(al, e, ufs), float(fp.alpha_multiphase(env["p"], env["So"], env["phi"], env["Sw"], real_pvt, real_kr)), rel=1e-6, inputs=env)


COLS = ("Bo", "Bg", "Bw", "Rs", "Rv", "mu_o", "mu_g", "mu_w", "So")


def replay_tabulated(model, n=3, order="ascending", node=1, sw_zero=False, rebuilt=False):
    """from_table on the model's table (rows in the given order): tabulated alpha vs lambda/c evaluated with
    independently built (sorted) interpolators."""
    import warnings
    import numpy as np
    from scipy.interpolate import interp1d
    from bluebonnet.flow import flowproperties as fp
    names = [f"p{k}" for k in range(n)] + [f"{c}{k}" for c in COLS for k in range(n)] + list(RHO) + \
        [f"{c}{k}" for c in KR_FUNCS for k in range(2)] + ["phi", "Sw"]
    m = model_floats(model, names, default={k: 0.5 for k in names})
    ps = np.array([m[f"p{k}"] for k in range(n)])
    if np.any(np.diff(ps) < 1.0):
        ps = ps[0] + np.arange(n) * max(1.0, float(np.max(np.abs(np.diff(ps)))))
    tab = {"pressure": ps, "pseudopressure": np.zeros(n)}
    for c in COLS:
        tab[c] = np.array([m[f"{c}{k}"] for k in range(n)])
    tab["So"] = np.clip(tab["So"], 0.0, 1.0)
    krp = {"So": np.array([0.0, 1.0]), "Sg": np.array([1.0, 0.0]), "Sw": np.array([0.0, 0.0])}
    if sw_zero:
        # no water in the reservoir (Sw = 0.0 exactly) with a rel-perm table that was measured at connate water 0.1
        m["Sw"] = 0.0
        krp = {"So": np.array([0.0, 0.9]), "Sg": np.array([0.9, 0.0]), "Sw": np.array([0.1, 0.1])}
        tab["So"] = np.clip(tab["So"], 0.0, 0.9)
    for c in KR_FUNCS:
        krp[c] = np.array([m[f"{c}{k}"] for k in range(2)])
    ref_pvt = {c: interp1d(ps, tab[c], fill_value="extrapolate") for c in COLS}
    ref_pvt.update({k: m[k] for k in RHO})
    ref_kr = {c: interp1d(krp["So"], krp[c]) for c in KR_FUNCS}
    given = {k: (v[::-1].copy() if order == "descending" else v) for k, v in tab.items()}
    with warnings.catch_warnings():
        warnings.simplefilter("ignore")
        with np.errstate(all="ignore"):
            try:
                if rebuilt:
                    # the same dict was used for an earlier build with other fluid columns and then edited in place (a
                    # history-matching loop that adjusts the table between builds)
                    final = {c: given[c].copy() for c in COLS if c != "So"}
                    for j_, c in enumerate(final):
                        given[c][:] = final[c] * (1.5 + 0.25 * j_)
                    fp.FlowPropertiesTwoPhase.from_table(given, krp, {k: m[k] for k in RHO}, m["phi"], m["Sw"], float(ps[node]))
                    for c in final:
                        given[c][:] = final[c]
                obj = fp.FlowPropertiesTwoPhase.from_table(given, krp, {k: m[k] for k in RHO}, m["phi"], m["Sw"], float(ps[node]))
            except Exception as ex:  # noqa: BLE001
                return True, {"what": f"from_table raised {ex!r} on an admissible table in {order} row order", "inputs": m}
            got = np.asarray(obj.pvt_props["alpha"], float)
            pg = np.asarray(given["pressure"], float)
            want = np.array([float(fp.alpha_multiphase(float(pg[j]), float(given["So"][j]), m["phi"], m["Sw"], ref_pvt, ref_kr)) for j in range(n)])
    ok = np.isfinite(want)
    bad = bool(np.any(np.abs(got[ok] - want[ok]) > 1e-7 * np.abs(want[ok])))
    return bad, {"what": f"from_table ({order} rows{', second build after the same dict was edited in place' if rebuilt else ''}): tabulated alpha {got.tolist()} vs total mobility / storage derivative of the same table "
                         f"{want.tolist()}", "inputs": m}


def job_tabulated(job, n, order, node=1, sw_zero=False, rebuilt=False):
    """`FlowPropertiesTwoPhase.from_table(...).pvt_props['alpha']` row by row against lambda/c of the same table, rows
    listed in ascending or descending pressure order (lab reports list pressures top-down; the library's interpolators
    sort, so both are the same table)."""
    mod = _load()
    job.encoded(mod, "FlowPropertiesTwoPhase.from_table", "alpha_multiphase", "lambda_combined_func", "compressibility_combined_func")
    job.stub("scipy interp1d: exact piecewise-linear model incl. argsort of the abscissae / assume_sorted")
    job.bound(tabulated_rows=n, row_order=order, spacing="neighbouring table pressures at least 1 psi apart (the +-0.5 psi probes stay in the neighbouring intervals)")
    ps, dom = [], []
    for k in range(n):
        v = fresh(f"p{k}", pos=True)
        ps.append(v)
        if k:
            dom.append(T.b_le(P(ps[k - 1] + 1), P(v)))
    dom += [T.b_le(T.Poly.const(10), P(ps[0])), T.b_le(P(ps[-1]), T.Poly.const(30000))]
    from ..shims.np_shim import SymArray
    cols = {"pressure": list(ps), "pseudopressure": [Q(0)] * n}
    for c in COLS:
        cols[c] = [fresh(f"{c}{k}", pos=True) for k in range(n)]
        if c == "So":
            dom += [T.b_le(P(v), T.ONE) for v in cols[c]]
    krt = {"So": SymArray([Q(0), Q(1)], "f8"), "Sg": SymArray([Q(1), Q(0)], "f8"), "Sw": SymArray([Q(0), Q(0)], "f8")}
    if sw_zero:
        krt = {"So": SymArray([Q(0), Q(9, 10)], "f8"), "Sg": SymArray([Q(9, 10), Q(0)], "f8"), "Sw": SymArray([Q(1, 10), Q(1, 10)], "f8")}
        dom += [T.b_le(P(v), T.Poly.const(Fraction(9, 10))) for v in cols["So"]]
        job.bound(water="Sw = 0.0 exactly (no water) with a rel-perm table measured at connate water 0.1 (So rows 0 .. 0.9)")
    for c in KR_FUNCS:
        krt[c] = SymArray([fresh(f"{c}{k}", pos=True) for k in range(2)], "f8")
    vs, rdom = box(None, rho_o0=("0.1", 100), rho_g0=("0.001", 10), rho_w0=("0.1", 100), phi=("0.01", 1), Sw=(0, "0.5"))
    if sw_zero:
        vs["Sw"] = Q(0)
    dom = dom + rdom
    ref = {k: vs[k] for k in RHO}
    idx = list(range(n)) if order == "ascending" else list(range(n - 1, -1, -1))
    rp = (replay_tabulated, {"n": n, "order": order, "node": node, "sw_zero": sw_zero, "rebuilt": rebuilt})
    old = {c: [fresh(f"old_{c}{k}", pos=True) for k in range(n)] for c in COLS if c != "So"} if rebuilt else {}

    def run():
        tab = {k: SymArray([v[j] for j in idx], "f8") for k, v in cols.items()}
        if rebuilt:
            # the same dict served an earlier build with other fluid columns and was then edited in place
            for c, vals in old.items():
                tab[c][:] = SymArray([vals[j] for j in idx], "f8")
            mod.FlowPropertiesTwoPhase.from_table(tab, krt, ref, vs["phi"], vs["Sw"], ps[node])
            for c in old:
                tab[c][:] = SymArray([cols[c][j] for j in idx], "f8")
        obj = mod.FlowPropertiesTwoPhase.from_table(tab, krt, ref, vs["phi"], vs["Sw"], ps[node])
        ref_pvt = {c: SS.Interp1d(SymArray(list(ps), "f8"), SymArray(list(cols[c]), "f8"), fill_value="extrapolate") for c in COLS}
        ref_pvt.update(ref)
        ref_kr = {c: SS.Interp1d(krt["So"], krt[c]) for c in KR_FUNCS}
        want = [mod.alpha_multiphase(ps[j], cols["So"][j], vs["phi"], vs["Sw"], ref_pvt, ref_kr) for j in idx]
        return obj.pvt_props["alpha"], want

    res = paths(job, run, dom, max_paths=64)
    normal = reached = 0
    for k, pr in enumerate(res):
        tag = f"tabulated[{n} rows,{order}{',Sw=0.0' if sw_zero else ''}{',second build after the same dict was edited in place' if rebuilt else ''}]"
        if pr.exc is not None:
            if isinstance(pr.exc, SS.NonMonotoneAbscissae):
                continue            # a scaled pseudopressure that is not monotone: C15's subject
            job.prove(f"{tag}/raises {type(pr.exc).__name__}[path{k}]", pr.pc, bound=f"{n}-row table", note=repr(pr.exc)[:100], replay=rp)
            continue
        normal += 1
        got, want = pr.value
        if len(got.d) != n:
            job.errors.append(f"{tag}: alpha column has {len(got.d)} rows")
            continue
        for j in range(n):
            d = T.p_sub(P(got.d[j]), P(want[j]))
            if d.is_zero() or T.rational_equal(P(got.d[j]), P(want[j])):
                job.record(f"{tag}/alpha[{j}]==lambda/c of the same table[path{k}]", "unsat", 0.0, note="syntactically identical")
            else:
                job.prove(f"{tag}/alpha[{j}]==lambda/c of the same table[path{k}]", pr.pc + [T.b_not(T.b_eq0(d))], bound=f"{n}-row table", replay=rp)
        # a path explored because its feasibility could not be settled may be infeasible (its obligations are then vacuous
        # but harmless); what excludes a vacuous harness is that at least one constructing path is reachable
        v = job.prove(f"{tag}/reach[path{k}]", pr.pc, expect="info", timeout=min(job.timeout, 120))
        reached += v == "sat"
    if not normal:
        job.errors.append(f"tabulated[{n},{order}]: no path constructs the object")
    elif not reached:
        job.errors.append(f"tabulated[{n},{order}]: no constructing path has a reachability witness (vacuous harness?)")


# concrete replays run on the real code when the changed code uses something the engine does not model (harness.finish)
FALLBACK = [(replay_c, {}), (replay_c, {"mode": "constant"}), (replay_c, {"mode": "phi"}), (replay_lambda, {}), (replay_tabulated, {}), (replay_tabulated, {"order": "descending"}), (replay_tabulated, {"rebuilt": True})]


def jobs(tier):
    out = [("storage", job_storage), ("storage-int-pressure", lambda j: job_storage(j, True)), ("tabulated-3-asc", lambda j: job_tabulated(j, 3, "ascending")),
           ("tabulated-3-desc", lambda j: job_tabulated(j, 3, "descending")), ("tabulated-3-asc-no-water", lambda j: job_tabulated(j, 3, "ascending", 1, True)),
           ("tabulated-3-asc-rebuilt", lambda j: job_tabulated(j, 3, "ascending", 1, False, True))]
    if tier != "quick":
        out += [("tabulated-4-asc", lambda j: job_tabulated(j, 4, "ascending", 2)), ("tabulated-4-desc", lambda j: job_tabulated(j, 4, "descending", 2))]
    return out
