"""C19 - the Fluid facade and the PVT-table builder reproduce the underlying correlations.

Every stand-alone correlation is replaced, inside the `fluid` module, by an uninterpreted recording
function; all object fields are distinct symbols, so a swapped or dropped argument changes the
term the facade returns.  `pseudocritical_point_Sutton` and `make_nonhydrocarbon_properties` are
the library's own code, executed symbolically.
"""
from __future__ import annotations

from fractions import Fraction

from ..sx import terms as T
from ..shims import scipy_shim as SS
from ..shims.np_shim import SymArray
from .common import (P, box, check_defined, evalf, load_sym, model_floats, not_close, paths, rng, K, Q, Sym, lift,
                     simp, fresh)
from .c08 import load_fluid_with_ufs


def replay_facade(model, method="oil_FVF", reassigned=False, container="array", three=False, dtype="f8"):
    import numpy as np
    from bluebonnet.fluids import Fluid
    from bluebonnet.fluids import gas, oil, water
    m = model_floats(model, ["T", "api", "gg", "rsi", "S", "Swi", "p0", "p1", "p2", "Tpc", "ppc"],
                     default=dict(T=200.0, api=35.0, gg=0.8, rsi=650.0, S=5.0, Swi=0.1, p0=1500.0, p1=3500.0, p2=800.0, Tpc=-72.0, ppc=653.0))
    if reassigned:
        # built for one fluid, then its public attributes are set to the witness' values (Fluid is a plain mutable dataclass)
        f = Fluid(150.0, 28.0, 0.65, 400.0, 2.0, 0.2)
        if reassigned == "used" and method != "pressure_bubblepoint":
            p_ = np.array([m["p0"], m["p1"]])
            getattr(f, method)(*((p_, m["Tpc"], m["ppc"]) if method.startswith("gas") else (p_,)))
        f.temperature, f.api_gravity, f.gas_specific_gravity, f.solution_gor_initial, f.salinity = m["T"], m["api"], m["gg"], m["rsi"], m["S"]
    else:
        f = Fluid(m["T"], m["api"], m["gg"], m["rsi"], m["S"], m["Swi"])
    p = np.array([m["p0"], m["p1"]] + ([m["p2"]] if three else []))
    if dtype != "f8":
        p = np.array([int(round(x)) for x in p], dtype="int64")      # whole psi in an integer-typed array
    ref = {
        "water_FVF": lambda q: water.b_water_McCain(m["T"], q),
        "water_viscosity": lambda q: water.viscosity_water_McCain(m["T"], q, m["S"]),
        "gas_FVF": lambda q: gas.b_factor_DAK(m["T"], q, m["Tpc"], m["ppc"]),
        "gas_viscosity": lambda q: gas.viscosity_Sutton(m["T"], q, m["Tpc"], m["ppc"], m["gg"]),
        "oil_FVF": lambda q: oil.b_o_Standing(m["T"], q, m["api"], m["gg"], m["rsi"]),
        "oil_viscosity": lambda q: oil.viscosity_beggs_robinson(m["T"], q, m["api"], m["gg"], m["rsi"]),
    }
    if method == "pressure_bubblepoint":
        got, want = f.pressure_bubblepoint(), oil.pressure_bubblepoint_Standing(m["T"], m["api"], m["gg"], m["rsi"])
        return abs(got - want) > 1e-12 * abs(want), {"what": f"Fluid.pressure_bubblepoint {got!r} vs stand-alone {want!r}", "inputs": m}
    if container == "series":
        # the pressure column of a table whose rows were re-ordered (index labels 1, 0 in row order)
        import pandas as pd
        p_in = pd.Series(p, index=[1, 0])
    elif container == "reversed view":
        p_in = p[::-1].copy()[::-1]          # same values, negative stride
    elif container == "list":
        p_in = p.tolist()
    else:
        p_in = p
    args = (p_in, m["Tpc"], m["ppc"]) if method.startswith("gas") else (p_in,)
    before = np.array(p, copy=True)
    try:
        raw = getattr(f, method)(*args)
        got = np.array(raw, dtype=float, copy=True)
    except Exception as ex:  # noqa: BLE001
        return True, {"what": f"Fluid.{method} raised {ex!r} on a {container} of pressures", "inputs": m}
    if container == "array" and (not np.array_equal(p, before) or raw is p):
        return True, {"what": f"Fluid.{method} modified (or returned) the caller's pressure array: {before.tolist()} -> {np.asarray(p).tolist()}", "inputs": m}
    want = np.array([float(ref[method](q)) for q in p])
    bad = got.shape != want.shape or bool(np.any(np.abs(got - want) > 1e-12 * np.abs(want)))
    if not bad and three:
        # orders whose sorting permutation is not its own inverse, and a repeated pressure
        for q in ([2500.0, 500.0, 4000.0, 1500.0], [3000.0, 1000.0, 3000.0], [m["p1"], m["p2"], m["p0"]]):
            q = np.array(q) if dtype == "f8" else np.array([int(round(x)) for x in q], dtype="int64")
            a2 = (q, m["Tpc"], m["ppc"]) if method.startswith("gas") else (q,)
            try:
                g2 = np.array(getattr(f, method)(*a2), dtype=float)
            except Exception as ex:  # noqa: BLE001
                return True, {"what": f"Fluid.{method} raised {ex!r} on pressures {q.tolist()}", "inputs": m}
            w2 = np.array([float(ref[method](x)) for x in q])
            if g2.shape != w2.shape or bool(np.any(np.abs(g2 - w2) > 1e-12 * np.abs(w2))):
                return True, {"what": f"Fluid.{method} (pressures {q.tolist()}) = {g2.tolist()} vs stand-alone correlation {w2.tolist()}", "inputs": m}
    return bad, {"what": f"Fluid.{method} ({container} of pressures {p.tolist()}) = {got.tolist()} vs stand-alone correlation {want.tolist()}", "inputs": m}


def replay_sutton(model, case="no contaminants", fluid="dry gas"):
    from bluebonnet.fluids import gas
    m = model_floats(model, ["sg", "N2", "H2S", "CO2"], default=dict(sg=0.7, N2=0.02, H2S=0.01, CO2=0.03))
    if case == "no contaminants":
        t, p = gas.pseudocritical_point_Sutton(m["sg"], gas.make_nonhydrocarbon_properties(0.0, 0.0, 0.0), fluid)
        g = m["sg"]
        wt, wp = ((120.1 + 429 * g - 62.9 * g * g, 671.1 - 14 * g - 34.3 * g * g) if fluid == "dry gas"
                  else (164.3 + 357.7 * g - 67.7 * g * g, 744 - 125.4 * g + 5.9 * g * g))
        bad = abs(t + 459.67 - wt) > 1e-9 * wt or abs(p - wp) > 1e-9 * wp
        return bad, {"what": f"no contaminants: ({t + 459.67!r} R, {p!r}) vs hydrocarbon-only Sutton ({wt!r}, {wp!r})", "inputs": m}
    if case == "kept":
        # the composition of gas A is built, then the one of gas B; A's composition still describes gas A
        m2 = model_floats(model, ["N2b", "H2Sb", "CO2b"], default=dict(N2b=0.1, H2Sb=0.15, CO2b=0.0))
        if abs(m2["N2b"] - m["N2"]) + abs(m2["H2Sb"] - m["H2S"]) + abs(m2["CO2b"] - m["CO2"]) < 0.01:
            m2 = dict(N2b=min(m["N2"] + 0.08, 0.3), H2Sb=min(m["H2S"] + 0.1, 0.3), CO2b=m["CO2"] / 2)
        props_a = gas.make_nonhydrocarbon_properties(m["N2"], m["H2S"], m["CO2"])
        first = gas.pseudocritical_point_Sutton(m["sg"], props_a, fluid)
        gas.make_nonhydrocarbon_properties(m2["N2b"], m2["H2Sb"], m2["CO2b"])
        again = gas.pseudocritical_point_Sutton(m["sg"], props_a, fluid)
        bad = any(abs(x - y) > 1e-12 * abs(x) for x, y in zip(first, again))
        return bad, {"what": f"pseudocritical point of gas A from its composition array: {first!r}; from the same array after the composition of another gas "
                             f"({m2}) was built: {again!r}", "inputs": dict(m, **m2)}
    a = gas.pseudocritical_point_Sutton(m["sg"], gas.make_nonhydrocarbon_properties(m["N2"], m["H2S"], m["CO2"]), fluid)
    b = gas.pseudocritical_point_Sutton(m["sg"], gas.make_nonhydrocarbon_properties(m["N2"], m["H2S"], m["CO2"], ("Helium", 0.0, 4.0, 9.4, 33.0)), fluid)
    bad = any(abs(x - y) > 1e-9 * abs(x) for x, y in zip(a, b))
    return bad, {"what": f"zero-fraction extra component changes the pseudocritical point: {a!r} vs {b!r}", "inputs": m}


def _plain_obligations(job, f, dom, want, p, dtype="f8"):
    n = len(p.d)
    rkw = {"three": True} if n >= 3 else {}
    if dtype != "f8":
        rkw["dtype"] = dtype
    for name, (args, ref) in want.items():
        def run_plain():
            snap = list(p.d)
            out = getattr(f, name)(*args)
            touched = len(p.d) != len(snap) or any(a is not b for a, b in zip(p.d, snap)) or out is p
            p.d[:] = snap
            return out, touched
        for k, pr in enumerate(paths(job, run_plain, dom)):
            if pr.exc is not None:
                job.prove(f"facade/{name} raises[{n} pressures, path{k}]", pr.pc, bound=f"{n} pressures", replay=(replay_facade, dict(rkw, method=name)), note=repr(pr.exc)[:80])
                continue
            got, touched = pr.value
            if touched:
                job._violation(f"facade/{name} leaves the caller's pressure array alone[path{k}]", {},
                               {"what": "the pressure array was written to (or returned) by the method", "replayer": "replay_facade", "replayer_kwargs": dict(rkw, method=name)}, None)
            else:
                job.record(f"facade/{name} leaves the caller's pressure array alone[path{k}]", "unsat", 0.0, note="effect check on the path: same elements, result is another object")
            if not isinstance(got, SymArray) or len(got) != n:
                job.prove(f"facade/{name}: result has one element per pressure[{n} pressures, path{k}]", pr.pc, bound=f"{n} pressures", replay=(replay_facade, dict(rkw, method=name)))
                continue
            job.prove(f"facade/{name}==stand-alone correlation element-wise[{n} pressures in any order, path{k}]" if n != 2 else f"facade/{name}==stand-alone correlation element-wise[path{k}]",
                      pr.pc + [T.b_or(*[not_close(got.d[j], ref(p.d[j]), abs_tol=Fraction(0)) for j in range(n)])], bound=f"{n} pressures",
                      replay=(replay_facade, dict(rkw, method=name)))


def _container_obligations(job, f, vs, dom, want, p, names=None):
    # the same through other containers of pressures: a pandas Series whose index labels are not 0..n-1 in row order (a
    # column of a re-ordered table; positions, not labels, pair pressures with results) and a plain list
    from ..shims import pd_shim
    # ... and a reversed view of another array (np.flip / p[::-1]: logical order p0, p1, memory order p1, p0)
    for cont, mk in (("series", lambda: pd_shim.SymSeries([vs["p0"], vs["p1"]], "f8", [1, 0])),
                     ("reversed view", lambda: SymArray([vs["p1"], vs["p0"]], "f8")[::-1])):
        for name, (args, ref) in want.items():
            if names is not None and name not in names:
                continue
            def run_c():
                return getattr(f, name)(mk(), *args[1:])
            rp = (replay_facade, {"method": name, "container": cont})
            for k, pr in enumerate(paths(job, run_c, dom)):
                if pr.exc is not None:
                    job.prove(f"facade/{name}[{cont}] raises[path{k}]", pr.pc, bound="2 pressures", replay=rp, note=repr(pr.exc)[:80])
                    continue
                got = pr.value
                if not isinstance(got, SymArray) or len(got) != 2:
                    job.errors.append(f"facade/{name}[{cont}]: result is not a length-2 array")
                    continue
                job.prove(f"facade/{name}[{cont} of pressures{', labels 1,0' if cont == 'series' else ''}]==stand-alone correlation element-wise by position[path{k}]",
                          pr.pc + [T.b_or(*[not_close(got.d[j], ref(p.d[j]), abs_tol=Fraction(0)) for j in range(2)])], bound="2 pressures", replay=rp)


def job_facade_gas(job):
    """The gas methods of the facade on a re-ordered pressure column (used by C07: density / FVF / viscosity consistency
    is stated for the values the caller gets back, position by position)."""
    mod, gas, ufs = load_fluid_with_ufs()
    job.encoded(mod, "Fluid.gas_FVF", "Fluid.gas_viscosity")
    job.stub("stand-alone gas correlations imported by fluid.py: uninterpreted recording functions of their arguments")
    vs, dom = box(None, T=(60, 400), api=(10, 60), gg=("0.5", "1.5"), rsi=(0, 3000), S=(0, 25), Swi=(0, 1), p0=(15, 20000), p1=(15, 20000),
                  Tpc=(-200, 100), ppc=(200, 1500))
    f = mod.Fluid(vs["T"], vs["api"], vs["gg"], vs["rsi"], vs["S"], vs["Swi"])
    p = SymArray([vs["p0"], vs["p1"]], "f8")
    T_, gg = vs["T"], vs["gg"]
    want = {"gas_FVF": ((p, vs["Tpc"], vs["ppc"]), lambda q: ufs["b_factor_DAK"](T_, q, vs["Tpc"], vs["ppc"])),
            "gas_viscosity": ((p, vs["Tpc"], vs["ppc"]), lambda q: ufs["viscosity_Sutton"](T_, q, vs["Tpc"], vs["ppc"], gg))}
    _plain_obligations(job, f, dom, want, p)
    _container_obligations(job, f, vs, dom, want, p)
    job.prove("facade-gas/reach", dom, expect="sat")


from ..harness import replay_crosshair  # noqa: E402,F401  (looked up in this module by --replay)

CH_HEADER = '''import sys
sys.path.insert(0, "{SRC}")
from bluebonnet.fluids.gas import pseudocritical_point_Sutton, make_nonhydrocarbon_properties
from bluebonnet.fluids.fluid import build_pvt_gas
NONHC = make_nonhydrocarbon_properties(0.01, 0.02, 0.03)
GAS = {"N2": 0.01, "H2S": 0.02, "CO2": 0.03, "Gas Specific Gravity": 0.7, "Reservoir Temperature (deg F)": 200.0}


'''
CH_FUNCS = {
    "unknown_fluid_rejected": '''def unknown_fluid_rejected(fluid: str) -> bool:
    """
    pre: fluid != "dry gas" and fluid != "wet gas"
    pre: len(fluid) <= 9
    post: _ == True
    """
    try:
        pseudocritical_point_Sutton(0.7, NONHC, fluid)
    except ValueError:
        return True
    return False
''',
    "unknown_fluid_rejected_by_builder": '''def unknown_fluid_rejected_by_builder(fluid: str) -> bool:
    """
    pre: fluid != "dry gas" and fluid != "wet gas"
    pre: len(fluid) <= 9
    post: _ == True
    """
    try:
        build_pvt_gas(GAS, fluid, 35.0)
    except ValueError:
        return True
    return False
''',
}


def job_unknown_fluid(job):
    """'an unknown fluid type is rejected' for every string of up to 9 characters other than the two accepted names
    (the fluid type is a string: CrossHair executes the unmodified functions on a symbolic str)."""
    import bluebonnet.fluids.gas as rg
    job.functions["bluebonnet/fluids/gas.py::pseudocritical_point_Sutton"] = __import__("hashlib").sha256(
        __import__("inspect").getsource(rg.pseudocritical_point_Sutton).encode()).hexdigest()[:16]
    job.stub("none (CrossHair runs the unmodified functions with the real numpy; only the string argument is symbolic)")
    job.bound(unknown_fluid="every str of length <= 9 other than 'dry gas' / 'wet gas'")
    # one condition per run: CrossHair's per-condition budget is CPU time
    for fn, body in CH_FUNCS.items():
        src = CH_HEADER + body
        job.crosshair(f"sutton/{fn.replace('_', ' ')}", src, fn, bound="str of length <= 9", timeout=60 if job.tier == "quick" else 240)


def _reassigned_obligations(job, mod, vs, dom, want, p, names=None):
    T_, api, gg, rsi, S = (vs[k] for k in ("T", "api", "gg", "rsi", "S"))
    old_vals = {k_: fresh(f"old_{k_}", pos=True) for k_ in ("T", "api", "gg", "rsi", "S")}
    for name, (args, ref) in want.items():
        if names is not None and name not in names:
            continue
        for used_before in (False, True):
            def run_reassigned():
                g = mod.Fluid(old_vals["T"], old_vals["api"], old_vals["gg"], old_vals["rsi"], old_vals["S"], vs["Swi"])
                if used_before:
                    getattr(g, name)(*args)          # the method has already answered for the old fluid (anything cached then is stale now)
                g.temperature, g.api_gravity, g.gas_specific_gravity, g.solution_gor_initial, g.salinity = T_, api, gg, rsi, S
                return getattr(g, name)(*args)
            how = "after a first call and reassigning the attributes" if used_before else "after reassigning the attributes"
            for k, pr in enumerate(paths(job, run_reassigned, dom)):
                rp = (replay_facade, {"method": name, "reassigned": "used" if used_before else True})
                if pr.exc is not None:
                    job.prove(f"facade/{name} {how} raises[path{k}]", pr.pc, bound="2 pressures", replay=rp, note=repr(pr.exc)[:80])
                    continue
                got = pr.value
                job.prove(f"facade/{name} {how}==stand-alone correlation at the current attributes[path{k}]",
                          pr.pc + [T.b_or(*[not_close(got.d[j], ref(p.d[j]), abs_tol=Fraction(0)) for j in range(2)])], bound="2 pressures", replay=rp)


def job_facade_oil_reassigned(job):
    """The oil methods of the facade on an object whose oil parameters are changed after it has been used (C12: the
    bubble-point behaviour is that of the object's current fluid)."""
    mod, gas, ufs = load_fluid_with_ufs()
    job.encoded(mod, "Fluid.oil_FVF", "Fluid.oil_viscosity")
    job.stub("stand-alone oil correlations imported by fluid.py: uninterpreted recording functions of their arguments")
    vs, dom = box(None, T=(60, 400), api=(10, 60), gg=("0.5", "1.5"), rsi=(0, 3000), S=(0, 25), Swi=(0, 1), p0=(15, 20000), p1=(15, 20000))
    p = SymArray([vs["p0"], vs["p1"]], "f8")
    T_, api, gg, rsi = vs["T"], vs["api"], vs["gg"], vs["rsi"]
    want = {"oil_FVF": ((p,), lambda q: ufs["b_o_Standing"](T_, q, api, gg, rsi)),
            "oil_viscosity": ((p,), lambda q: ufs["viscosity_beggs_robinson"](T_, q, api, gg, rsi))}
    _reassigned_obligations(job, mod, vs, dom, want, p)
    _container_obligations(job, mod.Fluid(T_, api, gg, rsi, vs["S"], vs["Swi"]), vs, dom, want, p)
    job.prove("facade-oil/reach", dom, expect="sat")


def job_facade_three(job, dtype="f8", n=3):
    """Three pressures in any order (sorted, unsorted, with repeats) through every facade method: one result per pressure,
    in the caller's order."""
    mod, gas, ufs = load_fluid_with_ufs()
    job.encoded(mod, "Fluid.water_FVF", "Fluid.water_viscosity", "Fluid.gas_FVF", "Fluid.gas_viscosity", "Fluid.oil_FVF", "Fluid.oil_viscosity")
    job.stub("stand-alone correlations imported by fluid.py: uninterpreted recording functions of their arguments")
    job.bound(facade_array_length=n, order="any (no ordering assumed between the three pressures; equal pressures allowed)",
              pressure_dtype={"f8": "float64", "i8": "int64 (whole psi)"}[dtype])
    vs, dom = box(None, T=(60, 400), api=(10, 60), gg=("0.5", "1.5"), rsi=(0, 3000), S=(0, 25), Swi=(0, 1), Tpc=(-200, 100), ppc=(200, 1500),
                  **{f"p{k}": (15, 20000) for k in range(n)})
    f = mod.Fluid(vs["T"], vs["api"], vs["gg"], vs["rsi"], vs["S"], vs["Swi"])
    p = SymArray([vs[f"p{k}"] for k in range(n)], dtype)
    T_, api, gg, rsi, S = (vs[k] for k in ("T", "api", "gg", "rsi", "S"))
    want = {
        "water_FVF": ((p,), lambda q: ufs["b_water_McCain"](T_, q)),
        "water_viscosity": ((p,), lambda q: ufs["viscosity_water_McCain"](T_, q, S)),
        "gas_FVF": ((p, vs["Tpc"], vs["ppc"]), lambda q: ufs["b_factor_DAK"](T_, q, vs["Tpc"], vs["ppc"])),
        "gas_viscosity": ((p, vs["Tpc"], vs["ppc"]), lambda q: ufs["viscosity_Sutton"](T_, q, vs["Tpc"], vs["ppc"], gg)),
        "oil_FVF": ((p,), lambda q: ufs["b_o_Standing"](T_, q, api, gg, rsi)),
        "oil_viscosity": ((p,), lambda q: ufs["viscosity_beggs_robinson"](T_, q, api, gg, rsi)),
    }
    _plain_obligations(job, f, dom, want, p, dtype=dtype)
    job.prove("facade-three/reach", dom, expect="sat")


def job_facade(job):
    mod, gas, ufs = load_fluid_with_ufs()
    job.encoded(mod, "Fluid.water_FVF", "Fluid.water_viscosity", "Fluid.gas_FVF", "Fluid.gas_viscosity", "Fluid.oil_FVF",
                "Fluid.oil_viscosity", "Fluid.pressure_bubblepoint")
    job.stub("stand-alone correlations imported by fluid.py: uninterpreted recording functions of their arguments")
    job.bound(facade_array_length=2)
    vs, dom = box(None, T=(60, 400), api=(10, 60), gg=("0.5", "1.5"), rsi=(0, 3000), S=(0, 25), Swi=(0, 1), p0=(15, 20000), p1=(15, 20000),
                  Tpc=(-200, 100), ppc=(200, 1500))
    f = mod.Fluid(vs["T"], vs["api"], vs["gg"], vs["rsi"], vs["S"], vs["Swi"])
    p = SymArray([vs["p0"], vs["p1"]], "f8")
    T_, api, gg, rsi, S = (vs[k] for k in ("T", "api", "gg", "rsi", "S"))
    want = {
        "water_FVF": ((p,), lambda q: ufs["b_water_McCain"](T_, q)),
        "water_viscosity": ((p,), lambda q: ufs["viscosity_water_McCain"](T_, q, S)),
        "gas_FVF": ((p, vs["Tpc"], vs["ppc"]), lambda q: ufs["b_factor_DAK"](T_, q, vs["Tpc"], vs["ppc"])),
        "gas_viscosity": ((p, vs["Tpc"], vs["ppc"]), lambda q: ufs["viscosity_Sutton"](T_, q, vs["Tpc"], vs["ppc"], gg)),
        "oil_FVF": ((p,), lambda q: ufs["b_o_Standing"](T_, q, api, gg, rsi)),
        "oil_viscosity": ((p,), lambda q: ufs["viscosity_beggs_robinson"](T_, q, api, gg, rsi)),
    }
    _plain_obligations(job, f, dom, want, p)
    _container_obligations(job, f, vs, dom, want, p)
    # the facade answers for the object's CURRENT attributes: an object built for one fluid whose public attributes are then
    # reassigned must answer for the new values (nothing frozen at construction time)
    _reassigned_obligations(job, mod, vs, dom, want, p)
    for k, pr in enumerate(paths(job, lambda: f.pressure_bubblepoint(), dom)):
        job.prove(f"facade/pressure_bubblepoint==stand-alone[path{k}]",
                  pr.pc + [not_close(pr.value, ufs["pressure_bubblepoint_Standing"](T_, api, gg, rsi), abs_tol=Fraction(0))], bound="-",
                  replay=(replay_facade, {"method": "pressure_bubblepoint"}))
    job.prove("facade/reach", dom, expect="sat")


def job_table(job, pmax):
    mod, gas, ufs = load_fluid_with_ufs()
    job.encoded(mod, "build_pvt_gas")
    job.encoded(gas, "pseudocritical_point_Sutton", "make_nonhydrocarbon_properties")
    job.bound(maximum_pressure=pmax)
    vs, dom = box(None, N2=(0, "0.2"), H2S=(0, "0.2"), CO2=(0, "0.2"), sg=("0.55", "1.2"), T=(60, 400))
    gv = {"N2": vs["N2"], "H2S": vs["H2S"], "CO2": vs["CO2"], "Gas Specific Gravity": vs["sg"], "Reservoir Temperature (deg F)": vs["T"]}
    for dry in ("dry gas", "wet gas"):
        def run():
            df = mod.build_pvt_gas(gv, dry, Q(pmax))
            nh = gas.make_nonhydrocarbon_properties(vs["N2"], vs["H2S"], vs["CO2"])
            tpc, ppc = gas.pseudocritical_point_Sutton(vs["sg"], nh, dry)
            return df, tpc, ppc
        for k, pr in enumerate(paths(job, run, dom, max_paths=64)):
            if pr.exc is not None:
                job.errors.append(f"build_pvt_gas[{dry}] raised {pr.exc!r}")
                continue
            df, tpc, ppc = pr.value
            p = df["pressure"].d
            grid = [Q(10 * (j + 1)) for j in range(len(p))]
            ok_grid = len(p) == len([g for g in range(10, 10**6, 10) if g < pmax]) and all(a == b for a, b in zip(p, grid))
            job.record(f"table[{dry}]/10-psi grid from 10 up to but excluding the maximum[path{k}]", "unsat" if ok_grid else "sat", 0.0,
                       note=f"pressures {[float(x) for x in p]}")
            if not ok_grid:
                job._violation(f"table[{dry}]/grid", {}, {"what": f"pressure grid {[float(x) for x in p]} for maximum {pmax}", "replayer": "replay_grid",
                                                          "replayer_kwargs": {"pmax": pmax}}, None)
            T_, sg = vs["T"], vs["sg"]
            rows = []
            for j, q in enumerate(p):
                rows += [not_close(df["z-factor"].d[j], ufs["z_factor_DAK"](T_, q, tpc, ppc), abs_tol=Fraction(0)),
                         not_close(df["Density"].d[j], ufs["density_DAK"](T_, q, tpc, ppc, sg), abs_tol=Fraction(0)),
                         not_close(df["viscosity"].d[j], ufs["viscosity_Sutton"](T_, q, tpc, ppc, sg), abs_tol=Fraction(0)),
                         not_close(df["compressibility"].d[j], ufs["compressibility_DAK"](T_, q, tpc, ppc), abs_tol=Fraction(0)),
                         T.b_not(T.b_eq0(T.p_sub(P(df["temperature"].d[j]), P(T_))))]
            job.prove(f"table[{dry}]/every row == correlations at (T, p_row, Sutton point[, gravity])[path{k}]",
                      pr.pc + [T.b_or(*rows)], bound=f"{len(p)} rows", replay=(replay_grid, {"pmax": pmax, "dry": dry}))
            job.prove(f"table[{dry}]/reach[path{k}]", pr.pc, expect="sat")


def replay_grid(model, pmax=45, dry="dry gas"):
    import numpy as np
    from bluebonnet.fluids import build_pvt_gas, gas
    m = model_floats(model, ["N2", "H2S", "CO2", "sg", "T"], default=dict(N2=0.02, H2S=0.01, CO2=0.03, sg=0.7, T=250.0))
    gv = {"N2": m["N2"], "H2S": m["H2S"], "CO2": m["CO2"], "Gas Specific Gravity": m["sg"], "Reservoir Temperature (deg F)": m["T"]}
    df = build_pvt_gas(gv, dry, pmax)
    p = df["pressure"].to_numpy()
    want = np.arange(10.0, pmax, 10.0)
    problems = []
    if len(p) != len(want) or np.any(p != want):
        problems.append(f"grid {p.tolist()} vs {want.tolist()}")
    tpc, ppc = gas.pseudocritical_point_Sutton(m["sg"], gas.make_nonhydrocarbon_properties(m["N2"], m["H2S"], m["CO2"]), dry)
    for j, q in enumerate(p[:3]):
        for col, ref in (("z-factor", gas.z_factor_DAK(m["T"], q, tpc, ppc)), ("Density", gas.density_DAK(m["T"], q, tpc, ppc, m["sg"])),
                         ("viscosity", gas.viscosity_Sutton(m["T"], q, tpc, ppc, m["sg"])), ("compressibility", gas.compressibility_DAK(m["T"], q, tpc, ppc))):
            if abs(df[col].iloc[j] - ref) > 1e-9 * abs(ref):
                problems.append(f"row {j} {col} = {df[col].iloc[j]!r} vs stand-alone {ref!r}")
    return bool(problems), {"what": "; ".join(problems[:3]) or "table rows equal the stand-alone correlations", "inputs": m}


def job_sutton(job):
    gas = load_sym("bluebonnet.fluids.gas", **SS.rebind())
    job.encoded(gas, "pseudocritical_point_Sutton", "make_nonhydrocarbon_properties")
    vs, dom = box(None, sg=("0.55", "1.2"), N2=(0, "0.2"), H2S=("0.0001", "0.2"), CO2=(0, "0.2"))
    g = vs["sg"]
    hc = {"dry gas": (K("120.1") + 429 * g - K("62.9") * g * g, K("671.1") - 14 * g - K("34.3") * g * g),
          "wet gas": (K("164.3") + K("357.7") * g - K("67.7") * g * g, 744 - K("125.4") * g + K("5.9") * g * g)}
    for fluid in ("dry gas", "wet gas"):
        for k, pr in enumerate(paths(job, lambda: gas.pseudocritical_point_Sutton(g, gas.make_nonhydrocarbon_properties(Q(0), Q(0), Q(0)), fluid), dom)):
            if pr.exc is not None:
                job.errors.append(f"sutton[{fluid}] no contaminants raised {pr.exc!r}")
                continue
            t, p = pr.value
            job.prove(f"sutton[{fluid}]/no contaminants == hydrocarbon-only correlation[path{k}]",
                      pr.pc + [T.b_or(not_close(t + K("459.67"), hc[fluid][0]), not_close(p, hc[fluid][1]))], bound="gravity 0.55..1.2",
                      replay=(replay_sutton, {"case": "no contaminants", "fluid": fluid}))
        # two gases in one process: the composition array built for gas A still describes gas A after gas B's was built
        vb, domb = box(None, N2b=(0, "0.2"), H2Sb=("0.0001", "0.2"), CO2b=(0, "0.2"))

        def kept():
            props_a = gas.make_nonhydrocarbon_properties(vs["N2"], vs["H2S"], vs["CO2"])
            first = gas.pseudocritical_point_Sutton(g, props_a, fluid)
            gas.make_nonhydrocarbon_properties(vb["N2b"], vb["H2Sb"], vb["CO2b"])
            return first, gas.pseudocritical_point_Sutton(g, props_a, fluid)
        for k, pr in enumerate(paths(job, kept, dom + domb, max_paths=64)):
            if pr.exc is not None:
                job.errors.append(f"sutton[{fluid}] second composition raised {pr.exc!r}")
                continue
            (t1, p1), (t2, p2) = pr.value
            job.prove(f"sutton[{fluid}]/a composition array still describes its gas after another gas's was built[path{k}]",
                      pr.pc + [T.b_or(not_close(t1, t2, abs_tol=Fraction(0)), not_close(p1, p2, abs_tol=Fraction(0)))], bound="two composition boxes",
                      replay=(replay_sutton, {"case": "kept", "fluid": fluid}))
        extra = ("Helium", Q(0), Q(4), K("9.4"), K("33.0"))

        def both():
            a = gas.pseudocritical_point_Sutton(g, gas.make_nonhydrocarbon_properties(vs["N2"], vs["H2S"], vs["CO2"]), fluid)
            b = gas.pseudocritical_point_Sutton(g, gas.make_nonhydrocarbon_properties(vs["N2"], vs["H2S"], vs["CO2"], extra), fluid)
            return a, b
        for k, pr in enumerate(paths(job, both, dom, max_paths=64)):
            if pr.exc is not None:
                job.errors.append(f"sutton[{fluid}] extra component raised {pr.exc!r}")
                continue
            (t1, p1), (t2, p2) = pr.value
            job.prove(f"sutton[{fluid}]/zero-fraction extra component changes nothing[path{k}]",
                      pr.pc + [T.b_or(not_close(t1, t2, abs_tol=Fraction(0)), not_close(p1, p2, abs_tol=Fraction(0)))], bound="composition box",
                      replay=(replay_sutton, {"case": "extra", "fluid": fluid}))
            job.prove(f"sutton[{fluid}]/reach[path{k}]", pr.pc, expect="sat")
    res = paths(job, lambda: gas.pseudocritical_point_Sutton(g, gas.make_nonhydrocarbon_properties(vs["N2"], vs["H2S"], vs["CO2"]), "condensate"), dom,
                catch=(ValueError,))
    ok = all(isinstance(r.exc, ValueError) for r in res) and res
    job.record("sutton/unknown fluid type rejected", "unsat" if ok else "sat", 0.0, note=f"{len(res)} path(s), all raise ValueError" if ok else "accepted")
    if not ok:
        job._violation("sutton/unknown fluid type rejected", {}, {"what": "fluid='condensate' accepted", "replayer": "replay_unknown_fluid", "replayer_kwargs": {}}, None)
    # translator validation
    from bluebonnet.fluids import gas as rg
    for env, fl in ((dict(sg=0.65, N2=0.03, H2S=0.012, CO2=0.018), "dry gas"), (dict(sg=0.8, N2=0.05, H2S=0.01, CO2=0.04), "wet gas")):
        rt, rp_ = rg.pseudocritical_point_Sutton(env["sg"], rg.make_nonhydrocarbon_properties(env["N2"], env["H2S"], env["CO2"]), fl)
        for pr in paths(job, lambda: gas.pseudocritical_point_Sutton(g, gas.make_nonhydrocarbon_properties(vs["N2"], vs["H2S"], vs["CO2"]), fl), dom):
            try:
                if not all(T.evalf(c, env) for c in pr.pc):
                    continue
            except T.EvalError:
                continue
            job.validate("pseudocritical_point_Sutton.T", evalf(pr.value[0], env), float(rt), inputs=env)
            job.validate("pseudocritical_point_Sutton.p", evalf(pr.value[1], env), float(rp_), inputs=env)
            break


def replay_unknown_fluid(model):
    from bluebonnet.fluids import gas
    # 'condensate' and the near misses of the two accepted names (letter case, white space, separators, truncations): each of
    # them is another string, hence an unknown fluid type
    near = ["condensate", "", "gas", "dry", "oil"]
    for name in ("dry gas", "wet gas"):
        near += [name.title(), name.upper(), name.capitalize(), name.replace(" ", ""), name.replace(" ", "_"), name.replace(" ", "-"), name.replace(" ", "  "),
                 " " + name, name + " ", name + "\n", name[:-1], name[1:], name + "es", name.split()[0].upper() + " gas"]
    accepted = []
    for f in near:
        try:
            gas.pseudocritical_point_Sutton(0.7, gas.make_nonhydrocarbon_properties(0.01, 0.01, 0.01), f)
        except ValueError:
            continue
        except Exception as ex:  # noqa: BLE001
            accepted.append(f"{f!r} -> {type(ex).__name__} instead of ValueError")
            continue
        accepted.append(repr(f))
    if not accepted:
        return False, {"what": f"{len(near)} unknown fluid types rejected"}
    return True, {"what": "unknown fluid type(s) accepted: " + ", ".join(accepted[:6])}


def _jobs_extra():
    return [("unknown-fluid", job_unknown_fluid)]


# concrete replays run on the real code when the changed code uses something the engine does not model (harness.finish)
FALLBACK = [(replay_sutton, {"case": "kept"})] + [(replay_facade, {"method": m_}) for m_ in ("water_FVF", "water_viscosity", "gas_FVF", "gas_viscosity", "oil_FVF", "oil_viscosity", "pressure_bubblepoint")] + [(replay_facade, {"method": "oil_viscosity", "reassigned": "used"}), (replay_facade, {"method": "gas_viscosity", "container": "series"}), (replay_grid, {}), (replay_sutton, {}), (replay_unknown_fluid, {})]


def jobs(tier):
    out = [("facade", job_facade), ("facade-three-pressures", job_facade_three), ("facade-three-pressures-int64", lambda j: job_facade_three(j, "i8")), ("table45", lambda j: job_table(j, 45)), ("sutton", job_sutton), ("unknown-fluid", job_unknown_fluid)]
    if tier != "quick":
        out.append(("table75", lambda j: job_table(j, 75)))
        out.append(("facade-four-pressures", lambda j: job_facade_three(j, "f8", 4)))
        out.append(("table50", lambda j: job_table(j, 50)))
        out.append(("facade-four-pressures-int64", lambda j: job_facade_three(j, "i8", 4)))
        out.append(("facade-five-pressures", lambda j: job_facade_three(j, "f8", 5)))
        out.append(("table60", lambda j: job_table(j, 60)))
    return out
