"""C13 - hand-coded derivative functions equal the true derivatives of their parents.

The parent's own source is executed on symbolic inputs; the resulting canonical term is
differentiated by the rules of calculus (equivalent to forward-mode AD of the parent's code,
no step-size error) and compared with the hand-coded derivative function executed on the same
inputs.  z3 decides  exists inputs in the box: |d(parent) - hand| > 1e-9 |hand|.
"""
from __future__ import annotations

from fractions import Fraction

from ..sx import terms as T
from .common import (P, box, check_defined, evalf, load_sym, model_floats, not_close, paths, rng, K, Sym, lift,
                     simp)

OIL_BOX = dict(T=(80, 350), api=(12, 55), gg=("0.56", "1.3"), rsi=(20, 2500))
OIL_TESTS = [dict(T=200.0, api=35.0, gg=0.8, rsi=650.0, p=3000.0), dict(T=200.0, api=35.0, gg=0.8, rsi=650.0, p=2000.0)]


def _var_atom(s: Sym):
    (m, c), = s.p.terms.items()
    return T.atom_by_id(m[0][0])


# ------------------------------------------------------------------ replays (real code, real libraries)

def _richardson(f, x, h):
    d1 = (f(x + h) - f(x - h)) / (2 * h)
    d2 = (f(x + h / 2) - f(x - h / 2)) / h
    return (4 * d2 - d1) / 3


def replay_dbw(model):
    from bluebonnet.fluids import water
    m = model_floats(model, ["T", "p"])
    # b_water_McCain is a quadratic in pressure: the extrapolated central difference has no truncation error and, with a step
    # of 10 psi or more, rounding error below 1e-10 relative - a constant that differs between the derivative and its parent
    # in the sixth digit (relative effect 3e-8 .. 1e-6) has to be visible here
    num = _richardson(lambda p: water.b_water_McCain(m["T"], p), m["p"], max(10.0, 1e-2 * m["p"]))
    hand = water.b_water_McCain_dp(m["T"], m["p"])
    bad = abs(num - hand) > 2e-9 * abs(hand) + 1e-18
    return bad, {"what": f"dBw/dp: numerical derivative of b_water_McCain {num!r} vs b_water_McCain_dp {hand!r}",
                 "inputs": m}


def replay_dgor(model, int_p=False, after_other_gas=False):
    from bluebonnet.fluids import oil
    m = model_floats(model, ["T", "p", "api", "gg", "rsi"], default=dict(T=200.0, p=2000.0, api=35.0, gg=0.8, rsi=650.0))
    if after_other_gas:
        # the same calls for an oil that differs only in its gas gravity come first
        m2 = model_floats(model, ["gg_other", "p_other"], default=dict(gg_other=1.25 if m["gg"] < 0.9 else 0.58, p_other=1000.0))
        if abs(m2["gg_other"] - m["gg"]) < 0.2:
            m2["gg_other"] = 1.25 if m["gg"] < 0.9 else 0.58
        oil.solution_gor_Standing(m["T"], m2["p_other"], m["api"], m2["gg_other"], m["rsi"])
        oil.dgor_dpressure_Standing(m["T"], m2["p_other"], m["api"], m2["gg_other"], m["rsi"])
    if int_p:
        m["p"] = int(round(m["p"]))          # a pressure given as a Python int (the docstring's own example: 2_000)
    a = (m["T"], m["api"], m["gg"], m["rsi"])
    pb = oil.pressure_bubblepoint_Standing(*a)
    f = lambda p: oil.solution_gor_Standing(m["T"], p, m["api"], m["gg"], m["rsi"])
    h = max(1e-3, 1e-4 * m["p"])
    # the branch point itself: the solver's p equals p_b only under the exp/ln abstraction, so the replay evaluates the
    # real functions at the real bubble point (bit for bit) and just above it, where the parent is the constant R_si
    # (its own branch is `pressure >= p_b`) and the property demands a zero derivative
    import math
    for q in (pb, math.nextafter(pb, math.inf)):
        if f(q) == m["rsi"]:
            hand_b = oil.dgor_dpressure_Standing(m["T"], q, m["api"], m["gg"], m["rsi"])
            if hand_b != 0.0:
                m2 = dict(m, p=q)
                return True, {"what": f"dRs/dp at the bubble point p = {q!r}: solution_gor_Standing is the constant initial GOR there "
                                      f"(derivative 0) but dgor_dpressure_Standing returns {hand_b!r}", "inputs": m2}
    if abs(m["p"] - pb) <= 2 * h:
        return False, {"what": "too close to the bubble point for a finite-difference replay", "inputs": m}
    num = _richardson(f, float(m["p"]), h)
    hand = float(oil.dgor_dpressure_Standing(m["T"], m["p"], m["api"], m["gg"], m["rsi"]))
    bad = abs(num - hand) > 1e-6 * abs(hand) + 1e-12
    return bad, {"what": f"dRs/dp: numerical derivative of solution_gor_Standing {num!r} vs dgor_dpressure_Standing "
                         f"{hand!r} (bubble point {pb!r})", "inputs": m}


def replay_dbo(model):
    from bluebonnet.fluids import oil
    m = model_floats(model, ["T", "api", "gg", "rs"])
    f = lambda r: oil.b_o_bubblepoint_Standing(m["T"], m["api"], m["gg"], r)
    num = _richardson(f, m["rs"], max(1e-3, 1e-4 * m["rs"]))
    hand = oil.db_o_dgor_Standing(m["T"], m["api"], m["gg"], m["rs"])
    bad = abs(num - hand) > 1e-6 * abs(hand)
    return bad, {"what": f"dBo/dRs: numerical derivative of b_o_bubblepoint_Standing {num!r} vs db_o_dgor_Standing "
                         f"{hand!r}", "inputs": m}


def replay_co(model, side="below", defaults=False):
    from bluebonnet.fluids import oil, gas
    m = model_floats(model, ["T", "p", "api", "gg", "rsi", "tpc", "ppc", "tstd", "pstd"],
                     default=dict(T=200.0, p=1000.0, api=35.0, gg=0.8, rsi=650.0, tpc=-72.2, ppc=653.0, tstd=60.0, pstd=14.7))
    a5 = (m["T"], m["p"], m["api"], m["gg"], m["rsi"])
    pb = oil.pressure_bubblepoint_Standing(m["T"], m["api"], m["gg"], m["rsi"])
    if defaults:
        # standard conditions left to the defaults on both sides: the library's own gas FVF is b_factor_DAK(T, p, Tpc, ppc)
        if m["p"] >= pb:
            m["p"] = 0.7 * float(pb)
            a5 = (m["T"], m["p"], m["api"], m["gg"], m["rsi"])
        got = oil.oil_compressibility_Standing(*a5, m["tpc"], m["ppc"])
        bg = gas.b_factor_DAK(m["T"], m["p"], m["tpc"], m["ppc"])
        rs = oil.solution_gor_Standing(*a5)
        want = (bg - oil.db_o_dgor_Standing(m["T"], m["api"], m["gg"], rs)) * oil.dgor_dpressure_Standing(*a5) \
            / oil.b_o_bubblepoint_Standing(m["T"], m["api"], m["gg"], m["rsi"])
        return abs(got - want) > 1e-9 * abs(want), {"what": f"standard conditions left to their defaults: oil_compressibility_Standing {got!r} vs the combination with "
                                                             f"the library's own b_factor_DAK(T, p, Tpc, ppc) {want!r}", "inputs": m}
    # exactly AT the bubble point (the value a caller gets from pressure_bubblepoint_Standing, bit for bit - the solver's
    # p == p_b cannot be hit in doubles): the undersaturated correlation applies there
    import math
    for q in (float(pb), math.nextafter(float(pb), math.inf)):
        a_b = (m["T"], q, m["api"], m["gg"], m["rsi"])
        got_b = float(oil.oil_compressibility_Standing(*a_b, m["tpc"], m["ppc"], m["tstd"], m["pstd"]))
        want_b = float(oil.oil_compressibility_undersat_Spivey(*a_b))
        if abs(got_b - want_b) > 1e-9 * abs(want_b):
            return True, {"what": f"at the bubble point p = {q!r}: oil_compressibility_Standing = {got_b!r} vs the undersaturated correlation {want_b!r}", "inputs": dict(m, p=q)}
    got = oil.oil_compressibility_Standing(*a5, m["tpc"], m["ppc"], m["tstd"], m["pstd"])
    if m["p"] >= pb:
        want = oil.oil_compressibility_undersat_Spivey(*a5)
    else:
        bg = gas.b_factor_DAK(m["T"], m["p"], m["tpc"], m["ppc"], m["tstd"], m["pstd"])
        rs = oil.solution_gor_Standing(*a5)
        want = (bg - oil.db_o_dgor_Standing(m["T"], m["api"], m["gg"], rs)) * oil.dgor_dpressure_Standing(*a5) \
            / oil.b_o_bubblepoint_Standing(m["T"], m["api"], m["gg"], m["rsi"])
    bad = abs(got - want) > 1e-9 * abs(want)
    if not bad and side == "below":
        # the solver's point need not be where the real correlations differ: gassy, high-bubble-point oils near their
        # bubble point (where B_g and dB_o/dR_s are of the same size) and lean oils at low pressure
        for T_, api, gg, rsi in ((150.0, 35.0, 0.8, 2400.0), (100.0, 45.0, 0.9, 2500.0), (250.0, 30.0, 0.7, 1700.0), (200.0, 35.0, 0.8, 650.0), (120.0, 20.0, 1.1, 60.0)):
            pb2 = float(oil.pressure_bubblepoint_Standing(T_, api, gg, rsi))
            for f in (1 - 2e-6, 1 - 8e-6, 0.98, 0.9, 0.6, 0.2):       # just below the bubble point first: a tolerance window around it
                a = (T_, f * pb2, api, gg, rsi)
                got2 = float(oil.oil_compressibility_Standing(*a, m["tpc"], m["ppc"], m["tstd"], m["pstd"]))
                bg = gas.b_factor_DAK(a[0], a[1], m["tpc"], m["ppc"], m["tstd"], m["pstd"])
                rs = oil.solution_gor_Standing(*a)
                want2 = float((bg - oil.db_o_dgor_Standing(T_, api, gg, rs)) * oil.dgor_dpressure_Standing(*a) / oil.b_o_bubblepoint_Standing(T_, api, gg, rsi))
                if abs(got2 - want2) > 1e-9 * abs(want2):
                    return True, {"what": f"oil_compressibility_Standing(T={T_}, p={a[1]!r} = {f} p_b, API={api}, gas gravity {gg}, GOR {rsi}) = {got2!r} vs its "
                                          f"defining combination {want2!r}", "inputs": dict(m, T=T_, p=a[1], api=api, gg=gg, rsi=rsi)}
    return bad, {"what": f"oil_compressibility_Standing {got!r} vs its defining combination {want!r} "
                         f"(p={'>=' if m['p'] >= pb else '<'} bubble point {pb!r})", "inputs": m}


# ------------------------------------------------------------------ jobs

def replay_dbw_array(model):
    """Real b_water_McCain_dp on a float64 pressure grid (ndarray and Series): element by element the derivative of the
    parent (central differences, Richardson) at the caller's pressures, and the caller's grid is left as it was."""
    import numpy as np
    import pandas as pd
    from bluebonnet.fluids import water
    m = model_floats(model, ["T", "p", "p2"], default=dict(T=200.0, p=1500.0, p2=6000.0))
    grid = np.array([m["p"], m["p2"], 0.5 * (m["p"] + m["p2"])], dtype=float)
    problems = []
    for label, mk in (("ndarray", lambda g: g.copy()), ("Series", lambda g: pd.Series(g.copy()))):
        arg = mk(grid)
        try:
            got = np.asarray(water.b_water_McCain_dp(m["T"], arg), float)
        except Exception as ex:  # noqa: BLE001
            problems.append(f"{label}: b_water_McCain_dp raised {ex!r} on a float64 pressure grid")
            continue
        if not np.array_equal(np.asarray(arg, float), grid):
            problems.append(f"{label}: the caller's pressure grid {grid.tolist()} was overwritten with {np.asarray(arg, float).tolist()}")
        for j, q in enumerate(grid):
            num = _richardson(lambda x: float(water.b_water_McCain(m["T"], x)), float(q), max(1e-2, 1e-4 * q))
            if got.shape != grid.shape or abs(got[j] - num) > 1e-6 * abs(num) + 1e-14:
                problems.append(f"{label}: element {j} (p={q!r}): b_water_McCain_dp = {got[j] if got.shape == grid.shape else got!r} vs the parent's derivative {num!r}")
                break
    return bool(problems), {"what": "; ".join(problems[:2]) or "array form: derivative of the parent, grid left alone", "inputs": m}


def job_water(job):
    water = load_sym("bluebonnet.fluids.water")
    job.encoded(water, "b_water_McCain", "b_water_McCain_dp")
    job.bound(water_box="T in [60,400] F, p in [14.7,20000] psia")
    vs, dom = box(job, T=(60, 400), p=("14.7", 20000))
    res = paths(job, lambda: (water.b_water_McCain(vs["T"], vs["p"]), water.b_water_McCain_dp(vs["T"], vs["p"])), dom)
    for k, pr in enumerate(res):
        parent, hand = pr.value
        d = T.diff(P(parent), _var_atom(vs["p"]))
        job.prove(f"water/dBw_dp[path{k}]", pr.pc + [not_close(simp(d), hand)], bound="T,p box",
                  replay=replay_dbw, note="syntactic" if d == P(hand) else None)
        job.prove(f"water/reach[path{k}]", pr.pc, expect="sat")
    # the same on a float64 pressure grid: element by element the scalar result, and the caller's grid is left alone (a
    # derivative evaluated on a grid that is then re-used - c_w = -dBw/dp / Bw - must see the caller's pressures)
    from ..shims.np_shim import SymArray
    from .common import snapshot, touched, fresh
    p2 = fresh("p2", pos=True)
    dom2 = dom + [T.b_le(T.Poly.const(Fraction("14.7")), P(p2)), T.b_le(P(p2), T.Poly.const(20000))]

    def run_arr():
        arr = SymArray([vs["p"], p2], "f8")
        snap = snapshot(arr)
        out = water.b_water_McCain_dp(vs["T"], arr)
        return out, [water.b_water_McCain_dp(vs["T"], q) for q in (vs["p"], p2)], touched(snap)
    for k, pr in enumerate(paths(job, run_arr, dom2, catch=(Exception,))):
        if pr.exc is not None:
            job.prove(f"water/dBw_dp on a pressure grid raises {type(pr.exc).__name__}[path{k}]", pr.pc, bound="T,p box", replay=replay_dbw_array)
            continue
        out, scal, was = pr.value
        if was:
            job._violation(f"water/dBw_dp leaves the caller's pressure grid alone[path{k}]", {}, {"what": was, "replayer": "replay_dbw_array", "replayer_kwargs": {}}, None)
        else:
            job.record(f"water/dBw_dp leaves the caller's pressure grid alone[path{k}]", "unsat", 0.0, note="effect check on the path")
        if not isinstance(out, SymArray) or len(out.d) != 2:
            job.prove(f"water/dBw_dp on a pressure grid: one value per pressure[path{k}]", pr.pc, bound="T,p box", replay=replay_dbw_array)
            continue
        job.prove(f"water/dBw_dp on a pressure grid == scalar results element by element[path{k}]",
                  pr.pc + [T.b_or(*[not_close(out.d[j], scal[j], abs_tol=Fraction(0)) for j in range(2)])], bound="T,p box", replay=replay_dbw_array)
        check_defined(job, f"water/path{k}", pr)
        # translator validation against the real functions
        from bluebonnet.fluids import water as rw
        r = rng(job, 1)
        for t, p in [(200.0, 4000.0), (400.0, 3000.0)] + [(r.uniform(60, 400), r.uniform(15, 20000)) for _ in range(4)]:
            env = dict(T=t, p=p)
            job.validate("b_water_McCain", evalf(parent, env), float(rw.b_water_McCain(t, p)), inputs=env)
            job.validate("b_water_McCain_dp", evalf(hand, env), float(rw.b_water_McCain_dp(t, p)), inputs=env)


def job_dgor(job, int_p=False, after_other_gas=False):
    oil = load_sym("bluebonnet.fluids.oil")
    job.encoded(oil, "solution_gor_Standing", "dgor_dpressure_Standing", "pressure_bubblepoint_Standing")
    job.bound(oil_box="T 80..350 F, API 12..55, gas gravity 0.56..1.3, initial GOR 20..2500, p 15..20000 psia")
    vs, dom = box(job, _integer=("p",) if int_p else (), p=(15, 20000), **OIL_BOX)
    itag = "[pressure a Python int]" if int_p else ""
    if int_p:
        job.bound(pressure_kind="a Python int (whole psi), as in the function's own docstring example")
    a = (vs["T"], vs["p"], vs["api"], vs["gg"], vs["rsi"])
    if after_other_gas:
        # two oils in one process that differ only in the gravity of their gas: the derivative for the second is the
        # derivative of ITS solution GOR (whatever the first evaluation left behind)
        itag += "[after the same calls for an oil with another gas gravity]"
        v2, d2 = box(None, gg_other=("0.56", "1.3"), p_other=(15, 20000))
        dom = dom + d2
        b = (vs["T"], v2["p_other"], vs["api"], v2["gg_other"], vs["rsi"])

        def run2():
            oil.solution_gor_Standing(*b)
            oil.dgor_dpressure_Standing(*b)
            return oil.solution_gor_Standing(*a), oil.dgor_dpressure_Standing(*a)
        res = paths(job, run2, dom, max_paths=64)
    else:
        res = paths(job, lambda: (oil.solution_gor_Standing(*a), oil.dgor_dpressure_Standing(*a)), dom)
    if len(res) < 2:
        job.errors.append(f"dgor: expected a path on each side of the bubble point, got {len(res)}")
    from bluebonnet.fluids import oil as ro
    for k, pr in enumerate(res):
        parent, hand = pr.value
        d = T.diff(P(parent), _var_atom(vs["p"]))
        job.prove(f"oil/dRs_dp{itag}[path{k}]", pr.pc + [not_close(simp(d), hand, abs_tol=Fraction(0))], bound="oil box",
                  replay=(replay_dgor, {"int_p": int_p, "after_other_gas": after_other_gas}))
        job.prove(f"oil/dRs_dp{itag}/reach[path{k}]", pr.pc, expect="sat")
        check_defined(job, f"oil/dRs_dp{itag}/path{k}", pr)
        if int_p or after_other_gas:
            continue
        for tcase in OIL_TESTS:
            env = dict(tcase)
            try:
                if not all(T.evalf(c, env) for c in pr.pc):
                    continue
            except T.EvalError:
                continue
            ra = (env["T"], env["p"], env["api"], env["gg"], env["rsi"])
            job.validate("solution_gor_Standing", evalf(parent, env), float(ro.solution_gor_Standing(*ra)), inputs=env)
            job.validate("dgor_dpressure_Standing", evalf(hand, env), float(ro.dgor_dpressure_Standing(*ra)), inputs=env)


def job_dbo(job):
    oil = load_sym("bluebonnet.fluids.oil")
    job.encoded(oil, "b_o_bubblepoint_Standing", "db_o_dgor_Standing")
    vs, dom = box(job, T=(80, 350), api=(12, 55), gg=("0.56", "1.3"), rs=(1, 2500))
    a = (vs["T"], vs["api"], vs["gg"], vs["rs"])
    res = paths(job, lambda: (oil.b_o_bubblepoint_Standing(*a), oil.db_o_dgor_Standing(*a)), dom)
    from bluebonnet.fluids import oil as ro
    for k, pr in enumerate(res):
        parent, hand = pr.value
        d = T.diff(P(parent), _var_atom(vs["rs"]))
        job.prove(f"oil/dBo_dRs[path{k}]", pr.pc + [not_close(simp(d), hand)], bound="oil box, Rs 1..2500",
                  replay=replay_dbo)
        job.prove(f"oil/dBo_dRs/reach[path{k}]", pr.pc, expect="sat")
        check_defined(job, f"oil/dBo_dRs/path{k}", pr)
        r = rng(job, 2)
        for env in [dict(T=200.0, api=35.0, gg=0.8, rs=650.0)] + \
                [dict(T=r.uniform(80, 350), api=r.uniform(12, 55), gg=r.uniform(.56, 1.3), rs=r.uniform(1, 2500))
                 for _ in range(4)]:
            ra = (env["T"], env["api"], env["gg"], env["rs"])
            job.validate("b_o_bubblepoint_Standing", evalf(parent, env), float(ro.b_o_bubblepoint_Standing(*ra)), inputs=env)
            job.validate("db_o_dgor_Standing", evalf(hand, env), float(ro.db_o_dgor_Standing(*ra)), inputs=env)


def _uf(name, pos=True, like=None):
    """Recording stand-in for a library function: an uninterpreted function of its arguments.  `like` = the real function:
    calls are bound to its signature (keyword arguments, defaults applied), so that an argument passed by keyword, dropped
    or left to its default shows up in the recorded argument list exactly as it would reach the real function."""
    sig = None
    if like is not None:
        import inspect
        sig = inspect.signature(like)

    def f(*args, **kwargs):
        from ..shims.np_shim import SymArray
        if sig is not None:
            ba = sig.bind(*args, **kwargs)
            ba.apply_defaults()
            # an optional argument left at (or passed as) None reaches the real function as "not given": it is not part of the
            # argument list of the uninterpreted function; any other value in its place is
            args = tuple(K(repr(v)) if isinstance(v, (int, float)) and not isinstance(v, bool) else v for v in ba.arguments.values() if v is not None)
        elif kwargs:
            raise TypeError(f"{name}() stub called with keyword arguments {sorted(kwargs)} but no signature to bind them to")
        arrs = [a for a in args if isinstance(a, SymArray)]
        if arrs:
            n = len(arrs[0])
            return SymArray([f(*[(a.d[j] if isinstance(a, SymArray) else a) for a in args]) for j in range(n)], "f8")
        return simp(T.mkUF(name, [P(a) for a in args], pos))
    f.__name__ = name
    return f


def job_co(job, real_parts=False, defaults=False):
    """oil_compressibility_Standing: Spivey call at/above p_b; defining combination below.
    `defaults`: standard conditions left to the defaults, here and in the library's own gas FVF."""
    import bluebonnet.fluids.gas as _rg
    import bluebonnet.fluids.oil as _ro
    stubs = dict(oil_compressibility_undersat_Spivey=_uf("Spivey", like=_ro.oil_compressibility_undersat_Spivey), b_factor_DAK=_uf("Bg", like=_rg.b_factor_DAK))
    if not real_parts:
        stubs.update(solution_gor_Standing=_uf("Rs", like=_ro.solution_gor_Standing), db_o_dgor_Standing=_uf("dBodRs", like=_ro.db_o_dgor_Standing),
                     b_o_bubblepoint_Standing=_uf("Bob", like=_ro.b_o_bubblepoint_Standing))
    oil = load_sym("bluebonnet.fluids.oil", **stubs)
    ref = load_sym("bluebonnet.fluids.oil")  # the library's own functions for the reference combination
    job.encoded(oil, "oil_compressibility_Standing")
    job.encoded(ref, "dgor_dpressure_Standing", "pressure_bubblepoint_Standing")
    job.stub("oil_compressibility_undersat_Spivey, b_factor_DAK" +
             ("" if real_parts else ", solution_gor_Standing, db_o_dgor_Standing, b_o_bubblepoint_Standing") +
             ": uninterpreted functions of their arguments (recording stubs)")
    vs, dom = box(job, p=(15, 20000), tpc=(-200, 100), ppc=(300, 1200), tstd=(32, 100), pstd=(10, 20), **OIL_BOX)
    T_, p, api, gg, rsi = vs["T"], vs["p"], vs["api"], vs["gg"], vs["rsi"]
    a5 = (T_, p, api, gg, rsi)

    def run():
        got = oil.oil_compressibility_Standing(*a5, vs["tpc"], vs["ppc"], *(() if defaults else (vs["tstd"], vs["pstd"])))
        pb = ref.pressure_bubblepoint_Standing(T_, api, gg, rsi)
        above = bool(p >= pb)
        if above:
            want = stubs["oil_compressibility_undersat_Spivey"](*a5)
        else:
            bg = stubs["b_factor_DAK"](T_, p, vs["tpc"], vs["ppc"], *(() if defaults else (vs["tstd"], vs["pstd"])))
            if real_parts:
                rs = ref.solution_gor_Standing(*a5)
                want = (bg - ref.db_o_dgor_Standing(T_, api, gg, rs)) * ref.dgor_dpressure_Standing(*a5) \
                    / ref.b_o_bubblepoint_Standing(T_, api, gg, rsi)
            else:
                rs = stubs["solution_gor_Standing"](*a5)
                want = (bg - stubs["db_o_dgor_Standing"](T_, api, gg, rs)) * ref.dgor_dpressure_Standing(*a5) \
                    / stubs["b_o_bubblepoint_Standing"](T_, api, gg, rsi)
        return got, want, above

    res = paths(job, run, dom)
    tag = ("real" if real_parts else "uf") + (",default standard conditions" if defaults else "")
    sides = set()
    for k, pr in enumerate(res):
        if pr.exc is not None:
            job.errors.append(f"co[{tag}] path {k} raised {pr.exc!r}")
            continue
        got, want, above = pr.value
        sides.add(above)
        job.prove(f"oil/c_o[{tag}][{'above' if above else 'below'}]", pr.pc + [not_close(got, want)],
                  bound="oil box x pseudocritical box", replay=(replay_co, {"defaults": defaults}))
        job.prove(f"oil/c_o[{tag}]/reach[{'above' if above else 'below'}]", pr.pc, expect="sat")
    if sides != {True, False}:
        job.errors.append(f"co[{tag}]: both sides of the bubble point must be explored, got {sides}")


def jobs(tier):
    return [("water", job_water), ("dgor", job_dgor), ("dgor-int-pressure", lambda j: job_dgor(j, True)), ("dgor-after-another-gas-gravity", lambda j: job_dgor(j, False, True)), ("dbo", job_dbo),
            ("co-uf", lambda j: job_co(j, False)), ("co-real", lambda j: job_co(j, True)), ("co-uf-default-standard-conditions", lambda j: job_co(j, False, True))] + \
        ([] if tier == "quick" else [("co-real-default-standard-conditions", lambda j: job_co(j, True, True)),
                                     ("dgor-int-pressure-after-another-gas-gravity", lambda j: job_dgor(j, True, True))])
