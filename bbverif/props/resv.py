"""Shared pieces of the reservoir harnesses (C01-C04, C10, C17): the `fluid*` contract stub of
FlowProperties (what C09 establishes for every real table), symbolic grids and linear-solve policies."""
from __future__ import annotations

from fractions import Fraction

from ..sx import terms as T
from ..sx.sym import ctx
from ..shims import scipy_shim as SS
from ..shims.np_shim import SymArray
from .common import P, load_sym, fresh, simp, lift, Q, K, Sym


def load_reservoir(**extra):
    return load_sym("bluebonnet.flow.reservoir", **SS.rebind(), **extra)


class FluidStub:
    """Contract of a FlowProperties object: m_i > 0; alpha an (uninterpreted) positive function of scaled
    pseudopressure; m_scaled_func maps a frac-face pressure <= p_i into [0, m_i] (one fresh value per
    distinct argument, equal arguments give equal values; values may be negative unless `nonneg`)."""

    def __init__(self, name="", density_rows=0, nonneg=False, unbounded=False):
        self.name = name
        self.nonneg = nonneg
        self.unbounded = unbounded      # frac-face pressures above the initial pressure (build-up / injection) are admitted
        self.m_i = fresh(f"m_i{name}", pos=True)
        self._mf = {}
        self.pvt_props = {}
        if density_rows:
            ms = [Q(0)]
            for k in range(1, density_rows):
                ms.append(ms[-1] + fresh(f"dms{k}{name}", pos=True))
            rho = [fresh(f"rho0{name}", pos=True)]
            for k in range(1, density_rows):
                rho.append(rho[-1] + fresh(f"drho{k}{name}", pos=True))
            self.pvt_props = {"m-scaled": SymArray(ms, "f8"), "density": SymArray(rho, "f8")}

    @property
    def alpha(self):
        a = self.__dict__.get("_alpha_obj")
        if a is None:
            a = self.__dict__["_alpha_obj"] = _AlphaStub(self)
        return a

    def m_scaled_func(self, p):
        if isinstance(p, SymArray):
            return p._map(self.m_scaled_func, "f8")
        key = lift(p).p
        v = self._mf.get(key)
        if v is None:
            v = fresh(f"mf{self.name}[{len(self._mf)}]")
            self._mf[key] = v
            c = ctx()
            # the frac-face value is anywhere at or below the initial value: scaled pseudopressure may be negative below the
            # reference pressure of a rescaled table (rescale_pseudopressure maps a chosen pressure to 0)
            if self.nonneg:
                c.assume((lift(v) >= 0).node)
            if not self.unbounded:
                c.assume((lift(v) <= self.m_i).node)
        return v


class _AlphaStub:
    """FlowProperties.alpha: callable (an uninterpreted positive function of scaled pseudopressure) that also looks like
    the scipy interpolator it really is: `.x` / `.y` are the table nodes it was built from.  The node attributes exist
    only once the code under analysis reads them; from then on every value the function takes lies within the node values'
    range (the clipped lookup C09 establishes)."""

    def __init__(self, fluid):
        self.fluid = fluid
        self.apps = []
        self.nodes = None
        self.pending = []

    def __call__(self, m):
        if isinstance(m, SymArray):
            return m._map(self.__call__, "f8")
        v = simp(T.mkUF(f"alpha{self.fluid.name}", [lift(m).p], True))
        if isinstance(v, Sym) and all(v.p != w.p for w in self.apps):
            self.apps.append(v)
            if self.nodes is not None:
                self._bound(v)
        return v

    def _bound(self, v):
        from ..sx.sym import s_min, s_max
        ys = self.nodes[1].d
        lo, hi = ys[0], ys[0]
        for y in ys[1:]:
            lo, hi = s_min(lo, y), s_max(hi, y)
        from ..sx.sym import Context
        c = Context.current
        if c is None:
            # a reference term built by the harness after the path ended: the harness adds `pending` to its query
            self.pending += [(lift(v) >= lift(lo)).node, (lift(v) <= lift(hi)).node]
            return
        c.assume((lift(v) >= lift(lo)).node)
        c.assume((lift(v) <= lift(hi)).node)

    def _make(self):
        if self.nodes is None:
            n = self.fluid.name
            x0 = fresh(f"alpha_x0{n}")
            xs = [x0, x0 + fresh(f"alpha_dx1{n}", pos=True), None]
            xs[2] = xs[1] + fresh(f"alpha_dx2{n}", pos=True)
            self.nodes = (SymArray(xs, "f8"), SymArray([fresh(f"alpha_y{k}{n}", pos=True) for k in range(3)], "f8"))
            for v in self.apps:
                self._bound(v)
        return self.nodes

    @property
    def x(self):
        return self._make()[0]

    @property
    def y(self):
        return self._make()[1]


def times(nt, prefix="t", strict=True):
    """Non-decreasing (strictly increasing) symbolic time grid as t0 + positive increments."""
    ts = [fresh(f"{prefix}0")]
    dom = []
    for k in range(1, nt):
        d = fresh(f"d{prefix}{k}", pos=True)
        ts.append(ts[-1] + d)
    return SymArray(ts, "f8"), dom


def policy_exact():
    def pol(rec):
        SS.exact_solve(rec)
        return 0
    return pol


def policy_havoc_then_exact(havoc_calls, invariant):
    """Calls whose index is in `havoc_calls` return an arbitrary vector constrained only by
    `invariant(rec)` (a list of BoolT to assume); the others solve exactly."""
    def pol(rec):
        if rec["index"] in havoc_calls:
            c = ctx()
            for b in invariant(rec):
                c.assume(b)
        else:
            SS.exact_solve(rec)
        return 0
    return pol


def rows_of(res):
    """Stored pseudopressure as list of lists."""
    return [list(r.d) for r in res.pseudopressure.d]


class MemoSolve:
    """Ideal linear solve, memoised: syntactically identical systems (A, b) get the same unknown
    symbols (sound: the real routine is deterministic), so equal runs produce equal terms."""

    def __init__(self):
        self.entries = []          # (raw key, unknowns)

    def __call__(self, rec):
        # systems are compared modulo the equalities decided so far on this path (e.g. "the two grids coincide
        # here"): stored systems are re-normalised at every lookup because equalities may have been decided since
        c = ctx()
        n = c.normal
        raw = (tuple(tuple(lift(a).p for a in row) for row in rec["A"].rows), tuple(lift(v).p for v in rec["b"]))
        norm = lambda k: (tuple(tuple(n(a) for a in row) for row in k[0]), tuple(n(v) for v in k[1]))
        key = norm(raw)
        for k0, x in self.entries:
            if k0 == raw or (c.subst and norm(k0) == key):
                rec["x"][:] = x
                return 0
        self.entries.append((raw, list(rec["x"])))
        SS.exact_solve(rec)
        return 0
