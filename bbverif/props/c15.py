"""C15 - multiphase pseudopressure is the pressure integral of total mobility.

`pseudopressure_threephase` is executed on a symbolic N-row pressure / saturation grid with the PVT
and rel-perm interpolators as positive uninterpreted functions and compared, row by row, with the
trapezoid rule of the documented integrand (docs/background.md) on the same grid.  Then
`FlowPropertiesTwoPhase.from_table` is executed on a symbolic table (exact piecewise-linear
interpolators) and the scaled pseudopressure it stores is checked.
"""
from __future__ import annotations

from fractions import Fraction

from ..sx import terms as T
from ..shims import pd_shim
from ..shims import scipy_shim as SS
from ..shims.np_shim import SymArray
from .common import (P, box, check_defined, evalf, load_sym, model_floats, not_close, paths, rng, K, Q, Sym, lift,
                     simp, fresh, uf_callable)
from .c13 import _uf
from .c16 import mobility, PVT_FUNCS, KR_FUNCS, RHO, _load


def _grid(n, prefix="p"):
    """Strictly increasing positive grid p0 < p1 < ... as p0 + positive increments."""
    ps, dom = [], []
    for k in range(n):
        v = fresh(f"{prefix}{k}", pos=True)
        ps.append(v)
        if k:
            dom.append(T.b_lt(P(ps[k - 1]), P(v)))
    dom.append(T.b_le(T.Poly.const(10), P(ps[0])))
    dom.append(T.b_le(P(ps[-1]), T.Poly.const(30000)))
    return ps, dom


def replay_pp(model, n=3, mode="reference", labelled=False, pdtype="f8", krw_zero_row=None, kr_identity=False):
    import numpy as np
    from bluebonnet.flow import flowproperties as fp
    names = [f"p{k}" for k in range(n)] + [f"So{k}" for k in range(n)] + list(RHO) + ["scale"]
    m = model_floats(model, names, default=dict(rho_o0=50.0, rho_g0=0.05, rho_w0=62.4, scale=2.0, **{f"So{k}": 0.3 + 0.1 * k for k in range(n)},
                                                **{f"p{k}": 1000.0 * (k + 1) for k in range(n)}))
    pvt = {k: uf_callable(model, k, 1.0) for k in PVT_FUNCS}
    pvt.update({k: m[k] for k in RHO})
    kr = {k: uf_callable(model, k, 0.5) for k in KR_FUNCS}
    p = np.array([m[f"p{k}"] for k in range(n)])
    so = np.array([m[f"So{k}"] for k in range(n)])
    if kr_identity:
        # straight-line relative permeabilities written the obvious way: kro returns the saturation array it was given
        so = np.clip(so, 0.05, 0.85)
        kr["kro"] = lambda s: s
        kr["krg"] = lambda s: 0.9 - s
    if krw_zero_row is not None:
        # water immobile at the saturation of one row (a Corey curve with a critical saturation), mobile elsewhere
        if len(set(np.round(so, 12).tolist())) < n:
            so = np.linspace(0.3, 0.8, n)
        s0 = float(so[krw_zero_row])
        base_w = kr["krw"]
        kr["krw"] = lambda s: np.where(np.isclose(s, s0, rtol=0, atol=1e-12), 0.0, np.abs(np.vectorize(base_w)(s)) + 0.05) if hasattr(s, "__len__") \
            else (0.0 if abs(s - s0) <= 1e-12 else abs(base_w(s)) + 0.05)
    if pdtype != "f8":
        # an integer-typed pressure column (pd.read_csv of a 0, 10, 20, ... table, np.arange): whole, strictly increasing psi
        q = [int(round(p[0]))]
        for v in p[1:]:
            q.append(max(int(round(v)), q[-1] + 1))
        p = np.array(q, dtype={"i8": "int64", "i4": "int32"}[pdtype])
    if labelled:
        # the columns of a DataFrame whose rows were put in order with sort_values: labels n-1 .. 0
        import pandas as pd
        lab = list(range(n - 1, -1, -1))
        p_in, so_in = pd.Series(p, index=lab), pd.Series(so, index=lab)
    else:
        p_in, so_in = p, so
    so_before = np.array(so, copy=True)
    try:
        got = np.asarray(fp.pseudopressure_threephase(p_in, so_in, pvt, kr), dtype=float)
    except (KeyError, IndexError, ValueError, TypeError) as ex:
        return True, {"what": f"pseudopressure_threephase raised {ex!r} on an admissible table", "inputs": m}
    if not np.array_equal(np.asarray(so_in, float), so_before):
        return True, {"what": f"pseudopressure_threephase changed the caller's saturation array from {so_before.tolist()} to {np.asarray(so_in, float).tolist()}", "inputs": m}
    so = so_before
    lam = np.array([float(mobility(pvt, kr, p[k], so[k])) for k in range(n)])
    want = np.concatenate([[0.0], np.cumsum(np.diff(p) * (lam[:-1] + lam[1:]) / 2)])
    if mode == "reference":
        bad = bool(np.any(np.abs(got - want) > 1e-9 * (np.abs(want).max() + 1e-300)))
        return bad, {"what": f"pseudopressure_threephase = {got.tolist()} vs trapezoid rule of the documented mobility "
                             f"{want.tolist()} (mobility {lam.tolist()})", "inputs": m}
    if mode == "increasing":
        bad = bool(got[0] != 0 or np.any(np.diff(got) <= 0))
        return bad, {"what": f"pseudopressure_threephase = {got.tolist()} for positive mobility {lam.tolist()}: not 0 at the "
                             f"first row and strictly increasing", "inputs": m}
    pvt2 = dict(pvt)
    for k in RHO:
        pvt2[k] = pvt[k] * m["scale"]
    got2 = np.asarray(fp.pseudopressure_threephase(p_in, so_in, pvt2, kr), dtype=float)
    bad = bool(np.any(np.abs(got2 - m["scale"] * got) > 1e-9 * (np.abs(got2).max() + 1e-300)))
    return bad, {"what": f"mobility scaled by {m['scale']!r}: {got2.tolist()} vs {m['scale']!r} x {got.tolist()}", "inputs": m}


def job_pp(job, n, labelled=False, pdtype="f8", krw_zero_row=None, kr_identity=False):
    mod = _load()
    job.encoded(mod, "pseudopressure_threephase")
    job.stub("pvt[...] / kr[...] interpolators: positive uninterpreted functions; scipy cumulative_trapezoid: exact")
    job.bound(grid_rows=n, grids="any strictly increasing (uniform or not) pressure grid in [10, 30000] psia")
    ps, dom = _grid(n)
    so, sdom = [], []
    for k in range(n):
        v = fresh(f"So{k}")
        so.append(v)
        sdom += [T.b_le0(T.p_neg(P(v))), T.b_le(P(v), T.ONE)]
    vs, rdom = box(None, rho_o0=("0.1", 100), rho_g0=("0.001", 10), rho_w0=("0.1", 100), scale=("0.01", 100))
    dom = dom + sdom + rdom
    pvt = {k: _uf(k) for k in PVT_FUNCS}
    pvt.update({k: vs[k] for k in RHO})
    pvt2 = dict(pvt)
    for k in RHO:
        pvt2[k] = vs[k] * vs["scale"]
    kr = {k: _uf(k) for k in KR_FUNCS}
    parr, soarr = SymArray(ps, "f8"), SymArray(so, "f8")
    ltag = ""
    if kr_identity:
        # straight-line oil / gas relative permeabilities written as plain functions of the array they are given: kro returns
        # its argument (the caller's own array object), krg = 0.9 - So
        kr = dict(kr, kro=lambda s: s, krg=lambda s: Q(9, 10) - s)
        dom = dom + [T.b_lt(T.ZERO, P(v)) for v in so] + [T.b_lt(P(v), T.Poly.const(Fraction(9, 10))) for v in so]
        ltag = ",kro returns the saturation array it is given"
        job.bound(rel_perm_callables="kro(So) = So (the same array object), krg(So) = 0.9 - So; 0 < So < 0.9")
    if krw_zero_row is not None:
        # water is immobile at the saturation of one row and mobile at the others (relative-permeability curves have a critical
        # saturation): the water term is then present at some rows and exactly zero at that one
        base_w, s0 = kr["krw"], so[krw_zero_row]
        dom = dom + [T.b_not(T.b_eq0(T.p_sub(P(so[j]), P(s0)))) for j in range(n) if j != krw_zero_row]

        def krw(s):
            if isinstance(s, SymArray):
                return SymArray([krw(e) for e in s.d], "f8")
            return Q(0) if P(s) == P(s0) else base_w(s)
        kr = dict(kr, krw=krw)
        ltag = f",krw = 0 at row {krw_zero_row} only"
        job.bound(water_mobility=f"krw is exactly 0 at the saturation of row {krw_zero_row} and positive at the other rows")
    if pdtype != "f8":
        parr = SymArray(ps, pdtype)
        ltag = f",{ {'i8': 'int64', 'i4': 'int32'}[pdtype] } pressure column"
        job.bound(integer_pressures="the pressure column has an integer dtype (whole psi), saturations float64")
    if labelled:
        # pandas columns of a frame that was sorted into increasing pressure: values in order, labels n-1 .. 0
        lab = list(range(n - 1, -1, -1))
        parr, soarr = pd_shim.SymSeries(ps, "f8", lab), pd_shim.SymSeries(so, "f8", lab)
        ltag = ",Series labelled n-1..0"
        job.bound(labelled_rows="pressure and So are pandas Series whose index labels are n-1..0 in row order (a table put in "
                                "order with sort_values); positions, not labels, define the grid")
    hold = {}

    def run_pp():
        # fresh containers on every path (same elements): whatever the call does to the caller's arrays is seen, and does not
        # leak into the next path
        pa, sa = parr.copy(), soarr.copy()
        first = mod.pseudopressure_threephase(pa, sa, pvt, kr)
        hold["touched"] = [nm for nm, arr, ref in (("pressure", pa, parr), ("So", sa, soarr)) if len(arr.d) != len(ref.d) or any(P(x) != P(y) for x, y in zip(arr.d, ref.d))]
        return first, mod.pseudopressure_threephase(parr.copy(), soarr.copy(), pvt2, kr), list(hold["touched"])
    res = paths(job, run_pp, dom)
    for k, pr in enumerate(res):
        if pr.exc is not None:
            if isinstance(pr.exc, (KeyError, IndexError, ValueError, TypeError)):
                job.prove(f"pp[{n}{ltag}]/raises {type(pr.exc).__name__}[path{k}]", pr.pc, bound=f"{n} rows", note=repr(pr.exc)[:100],
                          replay=(replay_pp, {"n": n, "mode": "reference", "labelled": labelled, "pdtype": pdtype, "krw_zero_row": krw_zero_row, "kr_identity": kr_identity}))
            else:
                job.errors.append(f"pseudopressure path {k} raised {pr.exc!r}")
            continue
        got, got2, was = pr.value
        if was:
            job._violation(f"pp[{n}{ltag}]/the caller's pressure and saturation arrays are left alone[path{k}]", {},
                           {"what": f"pseudopressure_threephase wrote to the caller's {', '.join(was)} array", "replayer": "replay_pp",
                            "replayer_kwargs": {"n": n, "mode": "reference", "labelled": labelled, "pdtype": pdtype, "krw_zero_row": krw_zero_row, "kr_identity": kr_identity}}, None)
        else:
            job.record(f"pp[{n}{ltag}]/the caller's pressure and saturation arrays are left alone[path{k}]", "unsat", 0.0, note="effect check on the path")
        lam = [mobility(pvt, kr, ps[j], so[j]) for j in range(n)]
        want = [Q(0)]
        for j in range(n - 1):
            want.append(want[-1] + (ps[j + 1] - ps[j]) * (lam[j] + lam[j + 1]) / 2)
        if len(got) != n:
            job.errors.append(f"pseudopressure has {len(got)} rows for {n} pressures")
            continue
        scale = want[-1]
        tolb = T.p_mul(T.Poly.const(Fraction(1, 10**9)), P(scale))
        for j in range(n):
            d = T.p_sub(P(got.d[j]), P(want[j]))
            neq = T.b_const(False) if d.is_zero() else T.b_or(T.b_lt(tolb, d), T.b_lt(tolb, T.p_neg(d)))
            job.prove(f"pp[{n}{ltag}]/row{j}==trapezoid of documented mobility[path{k}]", pr.pc + [neq], bound=f"{n} rows, any table",
                      replay=(replay_pp, {"n": n, "mode": "reference", "labelled": labelled, "pdtype": pdtype, "krw_zero_row": krw_zero_row, "kr_identity": kr_identity}))
        job.prove(f"pp[{n}{ltag}]/first row 0[path{k}]", pr.pc + [T.b_not(T.b_eq0(P(got.d[0])))], bound=f"{n} rows",
                  replay=(replay_pp, {"n": n, "mode": "increasing", "labelled": labelled, "pdtype": pdtype, "krw_zero_row": krw_zero_row, "kr_identity": kr_identity}))
        job.prove(f"pp[{n}{ltag}]/strictly increasing for positive mobility[path{k}]",
                  pr.pc + [T.b_or(*[T.b_le(P(got.d[j + 1]), P(got.d[j])) for j in range(n - 1)])], bound=f"{n} rows",
                  replay=(replay_pp, {"n": n, "mode": "increasing", "labelled": labelled, "pdtype": pdtype, "krw_zero_row": krw_zero_row, "kr_identity": kr_identity}))
        job.prove(f"pp[{n}{ltag}]/homogeneous in mobility[path{k}]",
                  pr.pc + [T.b_or(*[T.b_not(T.b_eq0(T.p_sub(P(got2.d[j]), P(vs["scale"] * got.d[j])))) for j in range(n)])],
                  bound=f"{n} rows", replay=(replay_pp, {"n": n, "mode": "scale", "labelled": labelled, "pdtype": pdtype, "krw_zero_row": krw_zero_row, "kr_identity": kr_identity}))
        job.prove(f"pp[{n}{ltag}]/reach[path{k}]", pr.pc, expect="sat")
    # translator validation
    if krw_zero_row is not None or kr_identity:
        return          # the plain variants validate the encoding; here the rel-perm functions differ by construction
    import numpy as np
    from bluebonnet.flow import flowproperties as fp
    real_pvt = {"Bo": lambda q: 1.1 + 2e-5 * q, "Bg": lambda q: 5.0 / q, "Bw": lambda q: 1.0 - 3e-6 * q, "Rs": lambda q: 0.1 * q,
                "Rv": lambda q: 1e-5 * q, "mu_o": lambda q: 1.0 + 1e-4 * q, "mu_g": lambda q: 0.02 + 1e-6 * q, "mu_w": lambda q: 0.5 + 0 * q,
                "rho_o0": 50.0, "rho_g0": 0.05, "rho_w0": 62.4}
    real_kr = {"kro": lambda s: s**2, "krg": lambda s: (1 - s) ** 2, "krw": lambda s: 0.1 + 0.0 * s}
    ufs = {k: v for k, v in real_pvt.items() if callable(v)}
    ufs.update(real_kr)
    r = rng(job, 15)
    pv = sorted(r.uniform(100, 9000) for _ in range(n))
    sv = [r.uniform(0.1, 0.9) for _ in range(n)]
    env = dict(rho_o0=50.0, rho_g0=0.05, rho_w0=62.4, scale=2.0, **{f"p{j}": pv[j] for j in range(n)}, **{f"So{j}": sv[j] for j in range(n)})
    real = fp.pseudopressure_threephase(np.array(pv), np.array(sv), real_pvt, real_kr)
    if res and res[0].exc is None:
        for j in range(n):
            job.validate("pseudopressure_threephase", evalf(res[0].value[0].d[j], env, ufs), float(real[j]), abs_=1e-9 * abs(float(real[-1])), inputs=env)


def replay_table(model, n=3, node=1, kr_desc=False, ref_order=None):
    import numpy as np
    import warnings
    from bluebonnet.flow import flowproperties as fp
    cols = ["Bo", "Bg", "Bw", "Rs", "Rv", "mu_o", "mu_g", "mu_w", "So"]
    names = [f"p{k}" for k in range(n)] + [f"{c}{k}" for c in cols for k in range(n)] + list(RHO) + \
        [f"{c}{k}" for c in KR_FUNCS for k in range(2)] + ["phi", "Sw", "pf"]
    # defaults for what the solver's model leaves open: phases that differ from one another (a model that only fixes the
    # variables of the failed obligation must not be completed to a table in which oil and gas are interchangeable)
    base = {"Bo": 1.2, "Bg": 0.005, "Bw": 1.02, "Rs": 0.4, "Rv": 0.01, "mu_o": 1.5, "mu_g": 0.02, "mu_w": 0.7, "So": 0.6, "kro": 0.3, "krg": 0.6, "krw": 0.1}
    dflt = {k: 0.5 for k in names}
    for c, v in base.items():
        for k in range(n):
            if f"{c}{k}" in dflt:
                dflt[f"{c}{k}"] = v * (1 + 0.1 * k)
    m = model_floats(model, names, default=dflt)
    if ref_order and abs(m["rho_o0"] - m["rho_g0"]) < 1e-9 * abs(m["rho_o0"]):
        m["rho_g0"] = m["rho_o0"] / 900.0
    if ref_order and abs(m["rho_o0"] - m["rho_w0"]) < 1e-9 * abs(m["rho_o0"]):
        m["rho_w0"] = m["rho_o0"] * 1.25
    pvt = {"pressure": np.array([m[f"p{k}"] for k in range(n)]), "pseudopressure": np.zeros(n)}
    if np.any(np.diff(pvt["pressure"]) <= 0) or pvt["pressure"][0] <= 0:
        return False, {"what": "model point outside the property's quantifier (table pressures must be positive and strictly increasing)", "inputs": m}
    for c in cols:
        pvt[c] = np.array([m[f"{c}{k}"] for k in range(n)])
    krp = {"So": np.array([0.0, 1.0]), "Sg": np.array([1.0, 0.0]), "Sw": np.array([0.0, 0.0])}
    for c in KR_FUNCS:
        krp[c] = np.array([m[f"{c}{k}"] for k in range(2)])
    if kr_desc:
        krp = {k: v[::-1].copy() for k, v in krp.items()}      # the rel-perm table listed by decreasing So (increasing Sg)
    with warnings.catch_warnings():
        warnings.simplefilter("ignore")
        with np.errstate(all="ignore"):
            obj = fp.FlowPropertiesTwoPhase.from_table(pvt, krp, {k: m[k] for k in (ref_order or RHO)}, m["phi"], m["Sw"], m[f"p{node}"])
            ms = np.asarray(obj.pvt_props["m-scaled"], dtype=float)
            mi = float(obj.m_i)
            mf = float(obj.m_scaled_func(m["pf"])) if m[f"p0"] <= m["pf"] <= m[f"p{n - 1}"] else None
    problems = []
    # the interpolators from_table hands to the mobility / storage functions reproduce the caller's tables
    with np.errstate(all="ignore"):
        for c in KR_FUNCS:
            for s0, v in list(zip(krp["So"], krp[c])) + [(0.25, 0.75 * krp[c][list(krp["So"]).index(0.0)] + 0.25 * krp[c][list(krp["So"]).index(1.0)])]:
                got = float(obj.kr[c](s0))
                if not abs(got - v) <= 1e-9 * (abs(v) + 1e-300):
                    problems.append(f"kr[{c!r}]({s0!r}) = {got!r} but the table gives {float(v)!r} (So rows {krp['So'].tolist()})")
                    break
        for c in cols[:-1]:
            for j in range(n):
                got = float(obj.pvt[c](pvt["pressure"][j]))
                if not abs(got - pvt[c][j]) <= 1e-9 * (abs(pvt[c][j]) + 1e-300):
                    problems.append(f"pvt[{c!r}]({pvt['pressure'][j]!r}) = {got!r} but the table gives {float(pvt[c][j])!r}")
                    break
    # the stored pseudopressure column is the integral of the documented mobility with the reference densities taken BY NAME
    with np.errstate(all="ignore"):
        named = dict(obj.pvt)
        named.update({k: m[k] for k in RHO})
        want_pp = np.asarray(fp.pseudopressure_threephase(pvt["pressure"], pvt["So"], named, obj.kr), dtype=float)
        got_pp = np.asarray(obj.pvt_props["pseudopressure"], dtype=float)
    if np.all(np.isfinite(want_pp)) and not np.allclose(got_pp, want_pp, rtol=1e-9, atol=0):
        problems.append(f"reference densities { {k: m[k] for k in (ref_order or RHO)} } (in this key order): stored pseudopressure {got_pp.tolist()} vs "
                        f"the integral of the mobility with the densities taken by name {want_pp.tolist()}")
    if not np.all(np.isfinite(ms)) or np.any(np.diff(ms) <= 0):
        problems.append(f"m-scaled {ms.tolist()} is not strictly increasing")
    if not abs(mi - 1) <= 1e-9:
        problems.append(f"m_i = {mi!r} != 1 at the table node p_i = {m[f'p{node}']!r}")
    if mf is not None and m["pf"] < m[f"p{node}"] and not (0 <= mf < 1):
        problems.append(f"frac-face pressure {m['pf']!r} < p_i maps to {mf!r}, outside [0, 1)")
    if not problems:
        # a constant factor on mobility (units, a permeability folded into the reference densities) scales the pseudopressure
        # and leaves the *scaled* pseudopressure alone, however small or large the factor
        for factor in (1e-18, 1e12):
            with warnings.catch_warnings():
                warnings.simplefilter("ignore")
                with np.errstate(all="ignore"):
                    o2 = fp.FlowPropertiesTwoPhase.from_table(pvt, krp, {k: m[k] * factor for k in RHO}, m["phi"], m["Sw"], m[f"p{node}"])
                    ms2 = np.asarray(o2.pvt_props["m-scaled"], dtype=float)
            if not np.allclose(ms2, ms, rtol=1e-9, atol=0) or abs(float(o2.m_i) - 1) > 1e-9:
                problems.append(f"mobility scaled by {factor:g}: m-scaled {ms2.tolist()} (m_i = {float(o2.m_i)!r}) vs {ms.tolist()} unscaled")
                break
    return bool(problems), {"what": "; ".join(problems) or "scaled pseudopressure increasing, 1 at p_i, frac face in [0,1)", "inputs": m}


def replay_table_untouched(model):
    """Real from_table on a dict of arrays and on a DataFrame: the caller's PVT table, rel-perm table and reference densities
    are as they were (same keys / columns, same values) afterwards."""
    import copy
    import warnings
    import numpy as np
    import pandas as pd
    from bluebonnet.flow import flowproperties as fp
    n = 4
    p = np.array([100.0, 1000.0, 2500.0, 4000.0])
    base = {"pressure": p, "pseudopressure": np.linspace(0.0, 1.0, n), "Bo": 1.1 + 1e-5 * p, "Bg": 5.0 / p, "Bw": np.full(n, 1.02), "Rs": 0.1 * p / 1000, "Rv": np.full(n, 0.01),
            "mu_o": np.full(n, 1.5), "mu_g": np.full(n, 0.02), "mu_w": np.full(n, 0.7), "So": np.full(n, 0.6)}
    kr = {"So": np.array([0.0, 0.9]), "Sg": np.array([0.9, 0.0]), "Sw": np.array([0.1, 0.1]), "kro": np.array([0.0, 0.8]), "krg": np.array([0.7, 0.0]), "krw": np.array([0.0, 0.0])}
    ref = {"rho_o0": 50.0, "rho_g0": 0.05, "rho_w0": 62.4}
    problems = []
    for label, mk in (("dict of arrays", lambda d: {k: v.copy() for k, v in d.items()}), ("DataFrame", lambda d: pd.DataFrame({k: v.copy() for k, v in d.items()}))):
        pvt_in, kr_in, ref_in = mk(base), mk(kr), dict(ref)
        keep = (copy.deepcopy(pvt_in), copy.deepcopy(kr_in), dict(ref_in))
        with warnings.catch_warnings():
            warnings.simplefilter("ignore")
            with np.errstate(all="ignore"):
                fp.FlowPropertiesTwoPhase.from_table(pvt_in, kr_in, ref_in, 0.1, 0.1, 2500.0)
        for nm, now, was in (("PVT table", pvt_in, keep[0]), ("rel-perm table", kr_in, keep[1])):
            if list(now.keys()) != list(was.keys()):
                problems.append(f"{label}: the caller's {nm} has columns {list(now.keys())} after from_table, {list(was.keys())} before")
            elif any(not np.array_equal(np.asarray(now[c]), np.asarray(was[c])) for c in was.keys()):
                problems.append(f"{label}: values of the caller's {nm} changed: " + ", ".join(c for c in was.keys() if not np.array_equal(np.asarray(now[c]), np.asarray(was[c]))))
        if ref_in != keep[2]:
            problems.append(f"{label}: the caller's reference densities changed to {ref_in}")
    return bool(problems), {"what": "; ".join(problems[:3]) or "from_table leaves the caller's tables alone", "inputs": {}}


def job_table(job, n, node, kr_desc=False, ref_order=None, effects_only=False):
    """from_table: plumbing into the wrapper + wrapper behaviour for any computed pseudopressure that
    satisfies what job_pp establishes (0 at the first row, strictly increasing)."""
    rec = {}

    def pp_stub(pressure, So, pvt, kr):
        rec["pp_args"] = (pressure, So, pvt, kr)
        vals = [Q(0)]
        for k in range(1, len(pressure)):
            vals.append(vals[-1] + fresh(f"dPP{k}", pos=True))
        rec["pp"] = SymArray(vals, "f8")
        return rec["pp"]

    def alpha_stub(pressure, So, phi, Sw, pvt, kr):
        rec["alpha_args"] = (pressure, So, phi, Sw, pvt, kr)
        rec["alpha"] = SymArray([fresh(f"A{k}", pos=True) for k in range(len(pressure))], "f8")
        return rec["alpha"]

    mod = load_sym("bluebonnet.flow.flowproperties", pd=pd_shim.PD, pseudopressure_threephase=pp_stub,
                   alpha_multiphase=alpha_stub, **SS.rebind())
    job.encoded(mod, "FlowPropertiesTwoPhase.from_table", "FlowProperties.__init__")
    job.stub("scipy interp1d: exact piecewise-linear model",
             "pseudopressure_threephase / alpha_multiphase inside from_table: recording stubs returning an arbitrary "
             "array that is 0 at the first row and strictly increasing / an arbitrary positive array (what pp[n] and C16 "
             "establish for the real functions)")
    job.bound(table_rows=n, kr_table_rows=2, p_i=f"table node {node} (not in the first interval, where 1/pseudopressure[0] is infinite)")
    ps, dom = _grid(n)
    cols = ["Bo", "Bg", "Bw", "Rs", "Rv", "mu_o", "mu_g", "mu_w", "So"]
    tab = {"pressure": SymArray(ps, "f8"), "pseudopressure": SymArray([fresh(f"junk{k}") for k in range(n)], "f8")}
    for c in cols:
        tab[c] = SymArray([fresh(f"{c}{k}", pos=True) for k in range(n)], "f8")
    krt = {"So": SymArray([Q(0), Q(1)], "f8"), "Sg": SymArray([Q(1), Q(0)], "f8"), "Sw": SymArray([Q(0), Q(0)], "f8")}
    for c in KR_FUNCS:
        krt[c] = SymArray([fresh(f"{c}{k}", pos=True) for k in range(2)], "f8")
    if kr_desc:
        # the same rel-perm table listed by decreasing So (the gas-oil layout by increasing Sg)
        krt = {k: SymArray(list(reversed(v.d)), "f8") for k, v in krt.items()}
        job.bound(kr_table_order="rows listed by decreasing So")
    vs, rdom = box(None, rho_o0=("0.1", 100), rho_g0=("0.001", 10), rho_w0=("0.1", 100), phi=("0.01", 1), Sw=(0, "0.5"), pf=(10, 30000))
    dom = dom + rdom + [T.b_le(P(ps[0]), P(vs["pf"])), T.b_lt(P(vs["pf"]), P(ps[node]))]
    # the mapping of reference densities is read by key: a caller may have built it in any order (sorted keys, a config file)
    ref = {k: vs[k] for k in (ref_order or RHO)}
    if ref_order:
        job.bound(reference_densities_order=f"mapping built in the key order {list(ref_order)}")

    def run():
        rec.clear()
        from .common import snapshot, touched
        snaps = (snapshot(tab), snapshot(krt), snapshot(ref))
        obj = mod.FlowPropertiesTwoPhase.from_table(tab, krt, ref, vs["phi"], vs["Sw"], ps[node])
        rec["touched"] = [f"{nm}: {t_}" for nm, t_ in zip(("PVT table", "rel-perm table", "reference densities"), (touched(s_) for s_ in snaps)) if t_]
        return obj, obj.m_scaled_func(vs["pf"]), dict(rec)

    res = paths(job, run, dom, max_paths=64)
    rp = (replay_table, {"n": n, "node": node, "kr_desc": kr_desc, "ref_order": ref_order})
    normal = 0
    for k, pr in enumerate(res):
        if pr.exc is not None:
            what = "scaled pseudopressure not monotone" if isinstance(pr.exc, SS.NonMonotoneAbscissae) else "raises"
            job.prove(f"table[{n},{node}{',kr rows by decreasing So' if kr_desc else ''}]/{what}[path{k}]", pr.pc, bound="admissible table", note=repr(pr.exc)[:100], replay=rp)
            continue
        normal += 1
        obj, mf, r = pr.value
        ttag = f"table[{n},{node}{',kr rows by decreasing So' if kr_desc else ''}]"
        if r.get("touched"):
            job._violation(f"{ttag}/from_table leaves the caller's tables alone[path{k}]", {},
                           {"what": "; ".join(r["touched"]), "replayer": "replay_table_untouched", "replayer_kwargs": {}}, None)
        else:
            job.record(f"{ttag}/from_table leaves the caller's tables alone[path{k}]", "unsat", 0.0, note="effect check on the path")
        if effects_only:
            continue
        ms = obj.pvt_props["m-scaled"].d
        job.prove(f"table[{n},{node}{',kr rows by decreasing So' if kr_desc else ''}]/reach[path{k}]", pr.pc, expect="sat")
        # plumbing: the computed pseudopressure / diffusivity (not the table's own column) reach the wrapper
        plumbing = []
        if "pp" not in r or "alpha" not in r:
            job.errors.append("from_table did not call pseudopressure_threephase / alpha_multiphase")
            continue
        plumbing += [T.b_eq(P(a), P(b)) for a, b in zip(obj.pvt_props["pseudopressure"].d, r["pp"].d)]
        plumbing += [T.b_eq(P(a), P(b)) for a, b in zip(obj.pvt_props["alpha"].d, r["alpha"].d)]
        plumbing += [T.b_eq(P(a), P(b)) for a, b in zip(r["pp_args"][0].d, ps)]
        plumbing += [T.b_eq(P(a), P(b)) for a, b in zip(r["pp_args"][1].d, tab["So"].d)]
        plumbing += [T.b_eq(P(a), P(b)) for a, b in zip(r["alpha_args"][0].d, ps)]
        plumbing += [T.b_eq(P(r["alpha_args"][2]), P(vs["phi"])), T.b_eq(P(r["alpha_args"][3]), P(vs["Sw"]))]
        pvt_used, kr_used = r["pp_args"][2], r["pp_args"][3]
        for c in cols[:-1]:
            for j in range(n):
                plumbing.append(T.b_eq(P(pvt_used[c](ps[j])), P(tab[c].d[j])))
        for c in RHO:
            plumbing.append(T.b_eq(P(pvt_used[c]), P(vs[c])))
        for c in KR_FUNCS:
            for j, s0 in enumerate(krt["So"].d):
                plumbing.append(T.b_eq(P(kr_used[c](s0)), P(krt[c].d[j])))
        job.prove(f"table[{n},{node}{',kr rows by decreasing So' if kr_desc else ''}]/computed pseudopressure and diffusivity are what the wrapper stores; interpolators "
                  f"reproduce the table[path{k}]", pr.pc + [T.b_not(T.b_and(*plumbing))], bound=f"{n}-row table", replay=rp)
        job.prove(f"table[{n},{node}{',kr rows by decreasing So' if kr_desc else ''}]/m-scaled strictly increasing[path{k}]",
                  pr.pc + [T.b_or(*[T.b_le(P(ms[j + 1]), P(ms[j])) for j in range(n - 1)])], bound=f"{n}-row table", replay=rp)
        job.prove(f"table[{n},{node}{',kr rows by decreasing So' if kr_desc else ''}]/m_i==1[path{k}]", pr.pc + [not_close(obj.m_i, Q(1))], bound=f"{n}-row table", replay=rp)
        job.prove(f"table[{n},{node}{',kr rows by decreasing So' if kr_desc else ''}]/frac-face maps into [0,1)[path{k}]",
                  pr.pc + [T.b_or(T.b_lt(P(mf), T.ZERO), T.b_le(T.ONE, P(mf)))], bound=f"{n}-row table", replay=rp)
        seen = set()
        for cond, why in pr.ctx.defined:
            if cond.id in seen:
                continue
            seen.add(cond.id)
            job.prove(f"table[{n},{node}{',kr rows by decreasing So' if kr_desc else ''}]/finite[path{k}][{len(seen)}]", pr.pc + [T.b_not(cond)], bound=f"{n}-row table", note=why[:100], replay=rp)
    if not normal:
        job.errors.append(f"table[{n},{node}]: no path constructs the object")


def replay_table_between(model, n=3, node=1):
    """Real from_table with the initial pressure BETWEEN two table rows: m_i is the product of the linear interpolants of the
    pseudopressure and of its reciprocal at p_i, hence in [1, (1 + r)^2 / (4 r)] with r the ratio of the pseudopressures
    of the two rows (1 at the rows themselves)."""
    import warnings
    import numpy as np
    from bluebonnet.flow import flowproperties as fp
    cols = ["Bo", "Bg", "Bw", "Rs", "Rv", "mu_o", "mu_g", "mu_w", "So"]
    base = {"Bo": 1.2, "Bg": 0.005, "Bw": 1.02, "Rs": 0.4, "Rv": 0.01, "mu_o": 1.5, "mu_g": 0.02, "mu_w": 0.7, "So": 0.6}
    p = np.array([float(model.get(f"p{k}") or 1000.0 * (k + 1)) for k in range(n)])
    if np.any(np.diff(p) <= 0):
        p = 1000.0 * (np.arange(n) + 1)
    pvt = {"pressure": p, "pseudopressure": np.zeros(n)}
    for c in cols:
        pvt[c] = np.array([base[c] * (1 + 0.1 * k) for k in range(n)])
    krp = {"So": np.array([0.0, 1.0]), "Sg": np.array([1.0, 0.0]), "Sw": np.array([0.0, 0.0]), "kro": np.array([0.0, 0.8]), "krg": np.array([0.7, 0.0]), "krw": np.array([0.0, 0.0])}
    ref = {"rho_o0": 50.0, "rho_g0": 0.05, "rho_w0": 62.4}
    problems = []
    for frac in (float(model.get("s") or 0.5), 0.05, 0.5, 0.95):
        frac = min(max(frac, 0.01), 0.99)
        pi = p[node] + frac * (p[node + 1] - p[node])
        with warnings.catch_warnings():
            warnings.simplefilter("ignore")
            with np.errstate(all="ignore"):
                obj = fp.FlowPropertiesTwoPhase.from_table(pvt, krp, ref, 0.1, 0.1, pi)
        pp = np.asarray(obj.pvt_props["pseudopressure"], float)
        r = pp[node + 1] / pp[node]
        hi = (1 + r) ** 2 / (4 * r)
        mi = float(obj.m_i)
        if not (1 - 1e-12 <= mi <= hi * (1 + 1e-9)):
            problems.append(f"p_i = {pi!r} ({frac:.2f} of the way from row {node} to row {node + 1}): m_i = {mi!r}, outside [1, {hi!r}] "
                            f"(the product of the two linear interpolants at p_i)")
    return bool(problems), {"what": "; ".join(problems[:2]) or "m_i within the linear-interpolation band above 1", "inputs": {}}


def job_table_between(job, n, node):
    """from_table with the initial pressure strictly between rows `node` and `node + 1`: the reported m_i is the product of
    the linear interpolants of the (computed) pseudopressure and of its reciprocal at p_i, i.e. it lies in
    [1, (1 + r)^2 / (4 r)], r = m[node + 1] / m[node] (the 'linear-interpolation error above 1' of C09's statement)."""
    rec = {}

    def pp_stub(pressure, So, pvt, kr):
        vals = [Q(0)]
        for k in range(1, len(pressure)):
            vals.append(vals[-1] + fresh(f"dPP{k}", pos=True))
        rec["pp"] = SymArray(vals, "f8")
        return rec["pp"]

    def alpha_stub(pressure, So, phi, Sw, pvt, kr):
        return SymArray([fresh(f"A{k}", pos=True) for k in range(len(pressure))], "f8")
    mod = load_sym("bluebonnet.flow.flowproperties", pd=pd_shim.PD, pseudopressure_threephase=pp_stub, alpha_multiphase=alpha_stub, **SS.rebind())
    job.encoded(mod, "FlowPropertiesTwoPhase.from_table", "FlowProperties.__init__")
    job.stub("pseudopressure_threephase / alpha_multiphase inside from_table: arbitrary increasing / positive arrays (what pp[n] and C16 establish)")
    job.bound(table_rows=n, p_i=f"strictly between table rows {node} and {node + 1}")
    ps, dom = _grid(n)
    cols = ["Bo", "Bg", "Bw", "Rs", "Rv", "mu_o", "mu_g", "mu_w", "So"]
    tab = {"pressure": SymArray(ps, "f8"), "pseudopressure": SymArray([fresh(f"junk{k}") for k in range(n)], "f8")}
    for c in cols:
        tab[c] = SymArray([fresh(f"{c}{k}", pos=True) for k in range(n)], "f8")
    krt = {"So": SymArray([Q(0), Q(1)], "f8"), "Sg": SymArray([Q(1), Q(0)], "f8"), "Sw": SymArray([Q(0), Q(0)], "f8")}
    for c in KR_FUNCS:
        krt[c] = SymArray([fresh(f"{c}{k}", pos=True) for k in range(2)], "f8")
    vs, rdom = box(None, rho_o0=("0.1", 100), rho_g0=("0.001", 10), rho_w0=("0.1", 100), phi=("0.01", 1), Sw=(0, "0.5"))
    s_ = fresh("s", pos=True)
    dom = dom + rdom + [T.b_lt(P(s_), T.ONE)]
    pi = ps[node] + s_ * (ps[node + 1] - ps[node])
    rp = (replay_table_between, {"n": n, "node": node})

    def run():
        rec.clear()
        obj = mod.FlowPropertiesTwoPhase.from_table(tab, krt, {k: vs[k] for k in RHO}, vs["phi"], vs["Sw"], pi)
        return obj.m_i, rec["pp"]
    for k, pr in enumerate(paths(job, run, dom, max_paths=64, catch=(Exception,))):
        tag = f"table[{n}, p_i between rows {node} and {node + 1}]"
        if pr.exc is not None:
            if isinstance(pr.exc, SS.NonMonotoneAbscissae):
                continue
            job.prove(f"{tag}/raises {type(pr.exc).__name__}[path{k}]", pr.pc, bound=f"{n}-row table", replay=rp, note=repr(pr.exc)[:100])
            continue
        mi, pp = pr.value
        a, b = pp.d[node], pp.d[node + 1]
        job.prove(f"{tag}/m_i >= 1[path{k}]", pr.pc + [T.b_lt(P(mi), T.ONE)], bound=f"{n}-row table", replay=rp)
        job.prove(f"{tag}/m_i <= (1 + r)^2 / (4 r), r = m[{node + 1}] / m[{node}][path{k}]", pr.pc + [T.b_lt(P((a + b) * (a + b)), P(4 * a * b * mi))], bound=f"{n}-row table", replay=rp)
        job.prove(f"{tag}/reach[path{k}]", pr.pc, expect="sat")


def jobs(tier):
    out = [("pp3", lambda j: job_pp(j, 3)), ("pp3-labelled", lambda j: job_pp(j, 3, labelled=True)),
           ("pp3-int-pressure", lambda j: job_pp(j, 3, pdtype="i8")), ("pp3-krw-zero-at-one-row", lambda j: job_pp(j, 3, krw_zero_row=1)),
           ("pp3-kro-returns-its-argument", lambda j: job_pp(j, 3, kr_identity=True))]
    if tier != "quick":
        out += [("pp4", lambda j: job_pp(j, 4)), ("pp5", lambda j: job_pp(j, 5)), ("pp7", lambda j: job_pp(j, 7)), ("pp4-labelled", lambda j: job_pp(j, 4, labelled=True)),
                ("table4-node1", lambda j: job_table(j, 4, 1)), ("table4-node3", lambda j: job_table(j, 4, 3)), ("table4-node2-kr-descending", lambda j: job_table(j, 4, 2, True)),
                ("pp12", lambda j: job_pp(j, 12)), ("table6-node3", lambda j: job_table(j, 6, 3))]
    out += [("table3-initial-pressure-between-rows", lambda j: job_table_between(j, 3, 1)), ("table3-node2-densities-keyed-g-o-w", lambda j: job_table(j, 3, 2, False, ("rho_g0", "rho_o0", "rho_w0"))), ("table3-node1", lambda j: job_table(j, 3, 1)), ("table3-node2", lambda j: job_table(j, 3, 2)),
            ("table3-node1-kr-descending", lambda j: job_table(j, 3, 1, True))]
    return out
