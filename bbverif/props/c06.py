"""C06 - the gas Z-factor is the root of the Dranchuk-Abou-Kassem equation of state.

`gas.z_factor_DAK` is executed symbolically with the optimiser / root-finder replaced by a
contract stub that records the closure the repository hands to it.  Decided by z3:

  root[published]   under the routine's contract, the returned Z satisfies the *published* DAK
                    residual at rho = 0.27 p_r / (Z T_r)         (|F| <= 5e-11 = 1e-9 * smallest Z)
  root[deviation]   the same against the published residual with the one listed known deviation
                    (first density coefficient A1*A2/Tr instead of A1 + A2/Tr); any *other*
                    deviation of the code still makes this obligation sat
  Z-formula         returned value * rho * T_r = 0.27 p_r with rho the routine's result
  (minimiser form only) objective == |F/F'| of the reference, i.e. DF = dF/drho, and the
                    contract 'inside the bounds, no worse than the start' does not imply a root
                    (replayed on the real optimiser)
  bracket           (root-finder form) whether the sign-change precondition can fail inside the
                    validity rectangle - attempted, reported as undecided when the solver cannot
"""
from __future__ import annotations

import math
from fractions import Fraction

from ..sx import terms as T
from ..sx.sym import s_exp
from ..shims import scipy_shim as SS
from .common import (P, box, check_defined, evalf, load_sym, model_floats, not_close, paths, rng, K, Q, Sym, lift,
                     simp, fresh)

A_PUB = ["0.3265", "-1.07", "-0.5339", "0.01569", "-0.05165", "0.5475", "-0.7361", "0.1844", "0.1056", "0.6134",
         "0.721"]


def dak_residual(rho, Tr, pr, exp, num=Q, deviation=False):
    """Published Dranchuk & Abou-Kassem (1975) residual  0.27 p_r/(T_r rho) - Z_eos(rho)."""
    A = [num(a) for a in A_PUB]
    c0 = (A[0] * A[1] / Tr if deviation else A[0] + A[1] / Tr) + A[2] / Tr**3 + A[3] / Tr**4 + A[4] / Tr**5
    c1 = A[5] + A[6] / Tr + A[7] / Tr**2
    c2 = -A[8] * (A[6] / Tr + A[7] / Tr**2)
    B = exp(-A[10] * rho**2)
    z_eos = 1 + c0 * rho + c1 * rho**2 + c2 * rho**5 + A[9] * (1 + A[10] * rho**2) * (rho**2 / Tr**3) * B
    return num("0.27") * pr / (Tr * rho) - z_eos


def _real_inputs(m):
    TpcR, ppc = m.get("TpcR") or 380.0, m.get("ppc") or 650.0
    T = m["Tr"] * TpcR - 459.67
    return T, m["pr"] * ppc, TpcR - 459.67, ppc


def replay_root(model, deviation=False, family=False, grid=False, low=False):
    """Real z_factor_DAK at the model's point (optionally the pressure family of the witness, or a grid of the validity
    rectangle - a root finder that may stop early fails where it needs most iterations, not where the solver's model lies)."""
    from bluebonnet.fluids import gas
    m = model_floats(model, ["Tr", "pr", "TpcR", "ppc"], default=dict(Tr=1.1, pr=3.0, TpcR=380.0, ppc=650.0))
    pts = [m]
    if family:
        pts += [dict(m, pr=v) for v in (16.0, 20.0, 25.0, 30.0, 10.0, 5.0)]
    if grid:
        pts += [dict(m, Tr=a, pr=b) for a in (1.05, 1.1, 1.15, 1.2, 1.25, 1.3, 1.5, 2.0, 3.0)
                for b in (0.2, 0.5, 1.0, 2.0, 2.5, 3.0, 3.5, 4.0, 4.5, 6.0, 10.0, 20.0, 30.0)]
    if low:
        # low reduced pressures (a fraction of a psi to a few psi): where "Z is about 1" shortcuts live
        pts += [dict(m, Tr=a, pr=b) for a in (1.05, 1.11, 1.5, 3.0) for b in (1e-4, 1e-3, 3e-3, 9e-3, 2e-2, 5e-2)]
    worst = None
    for q in pts:
        T, p, Tpc, ppc = _real_inputs(q)
        try:
            z = float(gas.z_factor_DAK(T, p, Tpc, ppc))
        except Exception as ex:  # noqa: BLE001
            return False, {"what": f"z_factor_DAK raised {ex!r}", "inputs": q}
        Tr, pr = q["Tr"], q["pr"]
        rho = 0.27 * pr / (z * Tr)
        res = dak_residual(rho, Tr, pr, math.exp, num=float, deviation=deviation)
        if abs(res) > 1e-6 * z:
            worst = {"what": f"z_factor_DAK(T={T:.6g}, p={p:.6g}, Tpc={Tpc:.6g}, ppc={ppc:.6g}) = {z!r} leaves "
                             f"DAK residual {res!r} at rho_r={rho!r}"
                             + (" (published equation)" if not deviation else " (equation with the listed first-coefficient deviation)"),
                     "inputs": q, "Z": z, "residual": res}
            break
    return worst is not None, (worst or {"what": "returned Z is a root at every replayed point", "inputs": m})


def replay_bracket(model):
    """Real z_factor_DAK over the validity rectangle, corners included (T_r 1.05 .. 3, p_r up to 30): it must return a Z
    for every state - a root finder whose bracket misses the root raises instead."""
    from bluebonnet.fluids import gas
    m = model_floats(model, ["Tr", "pr", "TpcR", "ppc"], default=dict(Tr=1.05, pr=30.0, TpcR=380.0, ppc=650.0))
    pts = [m] + [dict(m, Tr=a, pr=b) for a in (1.05, 1.1, 1.2, 1.5, 2.0, 3.0) for b in (0.01, 0.1, 1.0, 5.0, 15.0, 24.0, 28.0, 30.0)]
    for q in pts:
        if not (1.05 <= q["Tr"] <= 3.0 and 0 < q["pr"] <= 30.0):
            continue
        T_, p_, Tpc, ppc = _real_inputs(q)
        try:
            z = float(gas.z_factor_DAK(T_, p_, Tpc, ppc))
        except Exception as ex:  # noqa: BLE001
            return True, {"what": f"z_factor_DAK(T={T_:.6g}, p={p_:.6g}, Tpc={Tpc:.6g}, ppc={ppc:.6g}) (T_r={q['Tr']}, p_r={q['pr']}) raised {ex!r}", "inputs": q}
        if not (z > 0 and math.isfinite(z)):
            return True, {"what": f"z_factor_DAK at T_r={q['Tr']}, p_r={q['pr']} returned {z!r}", "inputs": q}
    return False, {"what": "a finite positive Z at every replayed state of the rectangle", "inputs": m}


def replay_tolerance(model):
    """Real z_factor_DAK at low pressures of the witness' gas: the returned Z must still be a root (relative residual)."""
    from bluebonnet.fluids import gas
    m = model_floats(model, ["Tr", "pr", "TpcR", "ppc"], default=dict(Tr=2.0, TpcR=380.0, ppc=650.0))
    worst = None
    for Tr in (m["Tr"], 1.1, 1.5, 2.4, 3.0):
        for p in (m["pr"] * m["ppc"], 1.0, 1.3, 2.0, 3.7, 5.0, 8.1):
            q = dict(m, Tr=Tr, pr=p / m["ppc"])
            T_, p_, Tpc, ppc = _real_inputs(q)
            z = float(gas.z_factor_DAK(T_, p_, Tpc, ppc))
            rho = 0.27 * q["pr"] / (z * Tr)
            res = dak_residual(rho, Tr, q["pr"], math.exp, num=float, deviation=True)
            if abs(res) > 1e-7 * z and (worst is None or abs(res) / z > worst[0]):
                worst = (abs(res) / z, f"z_factor_DAK(T={T_:.6g}, p={p_:.6g} psia, Tpc={Tpc:.6g}, ppc={ppc:.6g}) = {z!r}: DAK residual {res!r} "
                                        f"(relative {abs(res) / z:.2e}) - the root finder's tolerance is not at rounding level for small densities")
    return worst is not None, {"what": worst[1] if worst else "roots at rounding level down to 1 psia", "inputs": m}


def _scipy_brentq_defaults():
    import inspect
    from scipy.optimize import brentq as real
    sig = inspect.signature(real)
    return {k: sig.parameters[k].default for k in ("xtol", "rtol")}


def job_dak(job):
    job.solve_defaults = {"elim": True}   # the root finder's f(r) = 0 is solved for p_r (linear, monomial coefficient)
    job.stub("scipy.optimize.minimize: contract stub (result.x inside the bounds handed over; objective closure "
             "recorded)", "scipy.optimize.brentq: contract stub (ValueError unless f(a) f(b) <= 0, else r in [a,b] "
             "with f(r) = 0; xtol/rtol recorded, root modelled exact)")
    job.assume_text("real arithmetic; exp abstracted by an uninterpreted symbol with instantiated true axioms")
    job.bound(rectangle="1.05 <= T_r <= 3, 0 < p_r <= 30, T_pc+459.67 in [250,900] R, p_pc in [200,1500] psia")
    gas = load_sym("bluebonnet.fluids.gas", **SS.rebind())
    job.encoded(gas, "z_factor_DAK")
    vs, dom = box(job, Tr=("1.05", 3), pr=(0, 30), TpcR=(250, 900), ppc=(200, 1500))
    Tr, pr, TpcR, ppc = vs["Tr"], vs["pr"], vs["TpcR"], vs["ppc"]
    dom = dom + [T.b_lt(T.ZERO, P(pr)), T.b_lt(T.ZERO, P(TpcR)), T.b_lt(T.ZERO, P(ppc))]
    T.atom_by_id(next(iter(P(pr).atoms()))).pos = True
    T.atom_by_id(next(iter(P(TpcR).atoms()))).pos = True
    T.atom_by_id(next(iter(P(ppc).atoms()))).pos = True
    Tin, pin, Tpc = Tr * TpcR - K("459.67"), pr * ppc, TpcR - K("459.67")

    def run():
        SS.OptCalls.reset()
        SS.reset_names()
        SS.OptCalls.brentq_sign_decision = False
        z = gas.z_factor_DAK(Tin, pin, Tpc, ppc)
        return z, list(SS.OptCalls.minimize), list(SS.OptCalls.brentq)

    res = paths(job, run, dom, catch=(ValueError, ZeroDivisionError, ArithmeticError))
    normal = [r for r in res if r.exc is None]
    if not normal:
        job.errors.append("z_factor_DAK: no path returns normally")
        return
    for k, pr_ in enumerate(res):
        if pr_.exc is not None:
            # the root-finder's precondition failed on this path: is it reachable inside the rectangle?
            v = job.prove(f"dak/bracket-can-fail[path{k}]", pr_.pc, bound="rectangle", timeout=min(job.timeout, 60),
                          expect="info", replay=replay_bracket)
            continue
        z, mins, brs = pr_.value
        pc = pr_.pc
        form = "minimize" if mins else "brentq" if brs else None
        if form is None:
            # a path that returns without asking any root finder (a shortcut, a special case): the returned Z must still
            # be a root of the equation at its own reduced density
            rho0 = K("0.27") * pr / (z * Tr)
            job.prove(f"dak/reach[no root finder, path{k}]", pc, expect="info")
            job.prove(f"dak/root[deviation; path{k} returns without a root finder]", pc + [T.b_lt(T.ZERO, P(z)),
                      T.b_or(T.b_lt(T.Poly.const(Fraction(1, 2 * 10**10)), P(dak_residual(rho0, Tr, pr, s_exp, deviation=True))),
                             T.b_lt(P(dak_residual(rho0, Tr, pr, s_exp, deviation=True)), T.Poly.const(Fraction(-1, 2 * 10**10))))],
                      bound="rectangle", replay=(replay_root, {"deviation": True, "grid": True, "low": True}))
            job.prove(f"dak/positive Z[path{k} returns without a root finder]", pc + [T.b_le0(P(z))], bound="rectangle",
                      replay=(replay_root, {"deviation": True, "grid": True, "low": True}))
            continue
        if len(mins) + len(brs) != 1:
            job.errors.append("z_factor_DAK: expected exactly one optimiser / root-finder call")
            continue
        rho = mins[0]["x"][0] if mins else brs[0]["root"]
        T.atom_by_id(next(iter(P(rho).atoms()))).pos = True
        pc = pc + [T.b_lt(T.ZERO, P(rho))]
        job.prove(f"dak/reach[{form}]", pc, expect="sat")
        # Z formula
        job.prove(f"dak/Z-formula[{form}]", pc + [not_close(z * rho * Tr, K("0.27") * pr)], bound="rectangle",
                  replay=(replay_root, {"deviation": True}))
        check_defined(job, f"dak/{form}", pr_)
        F_pub = dak_residual(rho, Tr, pr, s_exp)
        F_dev = dak_residual(rho, Tr, pr, s_exp, deviation=True)
        tol = T.Poly.const(Fraction(1, 10**9))

        def off_root(F):
            # |F| > 1e-9 * Z_min with Z_min = 0.05 (the lower end of the search bracket): a constant
            # bound keeps the query free of the sign of Z (measured: 90 s with tol*Z, 0.0 s with this)
            bound = T.p_scale(tol, Fraction(1, 20))
            return T.b_or(T.b_lt(bound, P(F)), T.b_lt(bound, T.p_neg(P(F))))

        if form == "brentq":
            # the tolerance the root finder is allowed: |r - root| <= xtol + rtol |root| (scipy's contract).  Z is
            # 0.27 p_r / (rho T_r), so its relative error is that of rho; the smallest admissible root is the lower end
            # of the bracket handed over.  Claim: relative error <= 1e-7 for every state of the rectangle with p >= 1 psia.
            dflt = _scipy_brentq_defaults()
            xtol = brs[0]["xtol"] if brs[0]["xtol"] is not None else K(repr(dflt["xtol"]))
            rtol = brs[0]["rtol"] if brs[0]["rtol"] is not None else K(repr(dflt["rtol"]))
            lo_end = brs[0]["a"]
            job.prove("dak/root-finder tolerance at rounding level relative to the root (p >= 1 psia)",
                      dom + [T.b_le(T.ONE, P(pr * ppc)), T.b_lt(P(K("1e-7") * lo_end), P(xtol + rtol * lo_end))],
                      bound="rectangle, p >= 1 psia (below that the absolute floor of any tolerance dominates: outside the claim)",
                      replay=replay_tolerance, note=f"xtol={float(xtol)!r}, rtol={float(rtol)!r}, smallest admissible root = lower bracket end")
            same = brs[0]["same_sign"]
            job.prove("dak/bracket-precondition-can-fail", dom + [same.node if hasattr(same, "node") else T.b_const(bool(same))],
                      bound="rectangle", timeout=(10 if job.tier == "quick" else 120), expect="info", replay=replay_bracket,
                      note="ValueError path of the root finder inside the validity rectangle; 'unknown' = undecided")
            job.prove("dak/root[published]", pc + [off_root(F_pub)], bound="rectangle",
                      replay=(replay_root, {"deviation": False}), finding="C06-dak-first-coefficient")
            guaranteed = brs[0].get("root_guaranteed", True)
            job.prove("dak/root[deviation]", pc + [off_root(F_dev)], bound="rectangle",
                      replay=(replay_root, {"deviation": True, "grid": not guaranteed}),
                      note=None if guaranteed else f"brentq called with disp={brs[0].get('disp')!r}, maxiter={brs[0].get('maxiter')!r}: an unconverged iterate is returned silently")
        else:
            f = mins[0]["fun"]
            g = f(SS.SymArray([rho]))
            rho_at = T.atom_by_id(next(iter(P(rho).atoms())))
            for tag, F, finding in (("published", F_pub, "C06-dak-first-coefficient"), ("deviation", F_dev, None)):
                dF = simp(T.diff(P(F), rho_at))
                gref = abs(F / dF)
                job.prove(f"dak/objective==|F/F'|[{tag}]", pc + [not_close(g, gref, abs_tol=Fraction(0))],
                          bound="rectangle x rho>0", replay=(replay_root, {"deviation": tag == "deviation", "family": True}),
                          finding=finding)
            # the optimiser's contract (inside bounds, no worse than the start) does not imply a root
            # (feasibility is all that is assumed; adding the descent condition f(x) <= f(x0) leaves z3 at
            # `unknown` after 60 s and cannot change a `sat` into `unsat` for this question)
            job.prove("dak/minimiser-contract-implies-root", pc + [off_root(F_dev)],
                      bound="rectangle", replay=(replay_root, {"deviation": True, "family": True}))
        # translator validation: the closure the real function hands to scipy, captured by wrapping the
        # real scipy entry point, against the symbolic closure evaluated at the same arguments
        import bluebonnet.fluids.gas as rg
        name = "brentq" if form == "brentq" else "minimize"
        orig = getattr(rg, name)
        cap = {}

        def wrapper(f, *a, **k):
            cap["f"] = f
            return orig(f, *a, **k)

        sym_closure = brs[0]["f"] if form == "brentq" else mins[0]["fun"]
        probe = fresh("rho_probe", pos=True)
        sym_val = sym_closure(probe) if form == "brentq" else sym_closure(SS.SymArray([probe]))
        r = rng(job, 6)
        envs = [dict(Tr=2.4049, pr=0.1542, TpcR=357.45, ppc=648.51), dict(Tr=2.0059, pr=7.635, TpcR=378.72, ppc=656.79)] + \
            [dict(Tr=r.uniform(1.05, 3), pr=r.uniform(0.1, 12), TpcR=r.uniform(300, 500), ppc=r.uniform(500, 800)) for _ in range(3)]
        try:
            setattr(rg, name, wrapper)
            for env in envs:
                Tq, pq, Tpcq, ppcq = _real_inputs(env)
                zr = float(rg.z_factor_DAK(Tq, pq, Tpcq, ppcq))
                rhor = 0.27 * env["pr"] / (zr * env["Tr"])
                e2 = dict(env)
                e2[T.atom_by_id(next(iter(P(rho).atoms()))).args[0]] = rhor
                job.validate("z_factor_DAK: Z(rho) formula", evalf(z, e2), zr, inputs=env)
                for rr in (0.5 * rhor, 1.3 * rhor):
                    e3 = dict(env, rho_probe=rr)
                    real = cap["f"](rr) if form == "brentq" else cap["f"]([rr])
                    job.validate(f"closure handed to scipy.optimize.{name}", evalf(sym_val, e3), float(real),
                                 rel=1e-9, abs_=1e-12, inputs=e3)
        finally:
            setattr(rg, name, orig)


def replay_second_call(model, boxed=False):
    """Two real calls in sequence at one reservoir temperature with different pseudocritical points: the second
    result must be a root of the equation at ITS OWN reduced temperature."""
    from bluebonnet.fluids import gas
    m = model_floats(model, ["Tr", "pr", "TpcR", "ppc", "TpcR2", "ppc2", "pr2"], default=dict(Tr=1.5, pr=2.0, TpcR=380.0, ppc=650.0, TpcR2=340.0, ppc2=670.0, pr2=4.0))
    Tabs = m["Tr"] * m["TpcR"]
    T = Tabs - 459.67
    if boxed:
        import numpy as np
        T = np.array(T)           # the reservoir temperature kept by the caller as a 0-d array (one object for both calls)
    try:
        gas.z_factor_DAK(T, m["pr"] * m["ppc"], m["TpcR"] - 459.67, m["ppc"])
        z2 = float(gas.z_factor_DAK(T, m["pr2"] * m["ppc2"], (np.array(m["TpcR2"] - 459.67) if boxed else m["TpcR2"] - 459.67), m["ppc2"]))
    except Exception as ex:  # noqa: BLE001
        return False, {"what": f"z_factor_DAK raised {ex!r}", "inputs": m}
    if boxed and float(T) != Tabs - 459.67:
        return True, {"what": f"z_factor_DAK changed the caller's 0-d temperature array from {Tabs - 459.67!r} to {float(T)!r}", "inputs": m}
    T = float(T)
    Tr2 = Tabs / m["TpcR2"]
    rho = 0.27 * m["pr2"] / (z2 * Tr2)
    res = dak_residual(rho, Tr2, m["pr2"], math.exp, num=float, deviation=True)
    bad = abs(res) > 1e-6 * z2
    return bad, {"what": f"after z_factor_DAK(T={T:.6g}, ..., Tpc={m['TpcR'] - 459.67:.6g}, ...) the call z_factor_DAK(T={T:.6g}, p={m['pr2'] * m['ppc2']:.6g}, "
                         f"Tpc={m['TpcR2'] - 459.67:.6g}, ppc={m['ppc2']:.6g}) = {z2!r} leaves DAK residual {res!r} at its own T_r={Tr2:.6g}", "inputs": m}


def job_history(job, boxed=False):
    """The result of a call must not depend on earlier calls (no state carried between gases): two calls on one loaded
    module with the same reservoir temperature object and different pseudocritical points / pressures.
    `boxed`: the temperatures are 0-d arrays (mutable objects the caller keeps); they must also be left alone."""
    job.solve_defaults = {"elim": True}
    gas = load_sym("bluebonnet.fluids.gas", **SS.rebind())
    job.encoded(gas, "z_factor_DAK")
    job.bound(history="two consecutive calls at one reservoir temperature")
    vs, dom = box(job, Tr=("1.05", 3), pr=(0, 30), TpcR=(250, 900), ppc=(200, 1500), TpcR2=(250, 900), ppc2=(200, 1500), pr2=(0, 30))
    for n in ("pr", "TpcR", "ppc", "TpcR2", "ppc2", "pr2"):
        T.atom_by_id(next(iter(P(vs[n]).atoms()))).pos = True
        dom.append(T.b_lt(T.ZERO, P(vs[n])))
    Tabs = vs["Tr"] * vs["TpcR"]
    Tr2 = Tabs / vs["TpcR2"]
    dom += [T.b_le(T.Poly.const(Fraction("1.05")), P(Tr2)), T.b_le(P(Tr2), T.Poly.const(3))]
    Tin = Tabs - K("459.67")
    rp2 = (replay_second_call, {"boxed": boxed})
    btag = " (0-d array temperatures)" if boxed else ""

    def run():
        from ..sx.sym import SymBox
        SS.OptCalls.reset()
        SS.reset_names()
        SS.OptCalls.brentq_sign_decision = False
        t_in = SymBox(P(Tin)) if boxed else Tin
        tpc2 = SymBox(P(vs["TpcR2"] - K("459.67"))) if boxed else vs["TpcR2"] - K("459.67")
        gas.z_factor_DAK(t_in, vs["pr"] * vs["ppc"], vs["TpcR"] - K("459.67"), vs["ppc"])
        n1 = len(SS.OptCalls.brentq) + len(SS.OptCalls.minimize)
        z2 = gas.z_factor_DAK(t_in, vs["pr2"] * vs["ppc2"], tpc2, vs["ppc2"])
        calls = list(SS.OptCalls.brentq) + list(SS.OptCalls.minimize)
        touched = boxed and (t_in.p != P(Tin) or tpc2.p != P(vs["TpcR2"] - K("459.67")))
        return z2, calls[n1:], touched

    res = paths(job, run, dom, catch=(ValueError, ZeroDivisionError, ArithmeticError))
    done = 0
    for k, pr_ in enumerate(res):
        if pr_.exc is not None:
            continue
        z2, calls, touched = pr_.value
        if boxed:
            if touched:
                job._violation(f"dak/the caller's 0-d temperature arrays are left alone[path{k}]", {},
                               {"what": "z_factor_DAK wrote to a temperature argument", "replayer": "replay_second_call", "replayer_kwargs": {"boxed": True}}, None)
            else:
                job.record(f"dak/the caller's 0-d temperature arrays are left alone[path{k}]", "unsat", 0.0, note="effect check on the path")
        if len(calls) != 1 or "root" not in calls[0]:
            continue        # minimiser form: the single-call job reports on it
        rho = calls[0]["root"]
        T.atom_by_id(next(iter(P(rho).atoms()))).pos = True
        pc = pr_.pc + [T.b_lt(T.ZERO, P(rho))]
        F_dev = dak_residual(rho, Tr2, vs["pr2"], s_exp, deviation=True)
        bound = T.Poly.const(Fraction(1, 20 * 10**9))
        job.prove(f"dak/second call at the same reservoir temperature{btag} is a root at its own T_r[path{k}]",
                  pc + [T.b_or(T.b_lt(bound, P(F_dev)), T.b_lt(bound, T.p_neg(P(F_dev))))], bound="rectangle x rectangle", replay=rp2)
        job.prove(f"dak/second call{btag}: Z-formula[path{k}]", pc + [not_close(z2 * rho * Tr2, K("0.27") * vs["pr2"])], bound="rectangle x rectangle",
                  replay=rp2)
        job.prove(f"dak/second call{btag}/reach[path{k}]", pc, expect="sat")
        done += 1
    if not done and any("root" in c for r in res if r.exc is None for c in r.value[1]):
        job.errors.append("history: no path with two completed calls")


def replay_table_z(model, dry="dry gas", pmax=45):
    """Real build_pvt_gas: its z-factor column is z_factor_DAK at the Sutton pseudocritical point of the caller's
    composition AND gas type (so it is the root of the equation at the gas's own reduced state)."""
    import numpy as np
    from bluebonnet.fluids import build_pvt_gas, gas
    m = model_floats(model, ["N2", "H2S", "CO2", "sg", "T"], default=dict(N2=0.02, H2S=0.01, CO2=0.03, sg=0.7, T=250.0))
    gv = {"N2": m["N2"], "H2S": m["H2S"], "CO2": m["CO2"], "Gas Specific Gravity": m["sg"], "Reservoir Temperature (deg F)": m["T"]}
    problems = []
    for top in (pmax, 3000):
        df = build_pvt_gas(gv, dry, top)
        p = df["pressure"].to_numpy()
        tpc, ppc = gas.pseudocritical_point_Sutton(m["sg"], gas.make_nonhydrocarbon_properties(m["N2"], m["H2S"], m["CO2"]), dry)
        for j in sorted({0, len(p) // 2, len(p) - 1}):
            ref = float(gas.z_factor_DAK(m["T"], float(p[j]), tpc, ppc))
            got = float(df["z-factor"].iloc[j])
            if abs(got - ref) > 1e-9 * abs(ref):
                problems.append(f"{dry} table, row p={float(p[j])}: z-factor {got!r} vs z_factor_DAK at the {dry} Sutton point {ref!r}")
    return bool(problems), {"what": "; ".join(problems[:2]) or "z-factor column is z_factor_DAK at the gas's own Sutton point", "inputs": m}


def job_table_z(job, pmax=45):
    """The default-table clause: every z-factor in build_pvt_gas's table is z_factor_DAK(T, p_row, Sutton point of the
    caller's composition and gas type) - the root obligations above then apply to it row by row."""
    from .c08 import load_fluid_with_ufs
    mod, gas, ufs = load_fluid_with_ufs()
    job.encoded(mod, "build_pvt_gas")
    job.stub("z_factor_DAK and the other gas correlations inside build_pvt_gas: uninterpreted recording functions of their arguments")
    job.bound(maximum_pressure=pmax)
    vs, dom = box(None, N2=(0, "0.2"), H2S=(0, "0.2"), CO2=(0, "0.2"), sg=("0.55", "1.2"), T=(60, 400))
    gv = {"N2": vs["N2"], "H2S": vs["H2S"], "CO2": vs["CO2"], "Gas Specific Gravity": vs["sg"], "Reservoir Temperature (deg F)": vs["T"]}
    from ..sx.sym import Q as _Q
    for dry in ("dry gas", "wet gas"):
        def run():
            df = mod.build_pvt_gas(gv, dry, _Q(pmax))
            tpc, ppc = gas.pseudocritical_point_Sutton(vs["sg"], gas.make_nonhydrocarbon_properties(vs["N2"], vs["H2S"], vs["CO2"]), dry)
            return df, tpc, ppc
        for k, pr in enumerate(paths(job, run, dom, max_paths=64)):
            if pr.exc is not None:
                job.prove(f"table[{dry}]/build_pvt_gas raises {type(pr.exc).__name__}[path{k}]", pr.pc, bound=f"maximum {pmax}", replay=(replay_table_z, {"dry": dry, "pmax": pmax}))
                continue
            df, tpc, ppc = pr.value
            p = df["pressure"].d
            rows = [not_close(df["z-factor"].d[j], ufs["z_factor_DAK"](vs["T"], q, tpc, ppc), abs_tol=Fraction(0)) for j, q in enumerate(p)]
            job.prove(f"table[{dry}]/z-factor column == z_factor_DAK at (T, p_row, Sutton point of the caller's gas type)[path{k}]",
                      pr.pc + [T.b_or(*rows)], bound=f"{len(p)} rows", replay=(replay_table_z, {"dry": dry, "pmax": pmax}))
            job.prove(f"table[{dry}]/reach[path{k}]", pr.pc, expect="sat")


def replay_hy_dtype(model):
    """Real z_factor_hallyarbrough at a whole-number reduced temperature passed as a Python int, a numpy integer and a float."""
    import numpy as np
    from bluebonnet.fluids import gas
    m = model_floats(model, ["p", "Tr"], default=dict(p=5.0, Tr=2.0))
    for Tr in sorted({2, 3, int(min(3, max(2, round(m["Tr"]))))}):
        for p in (m["p"], 5.0, 0.5, 12.0):
            want = float(gas.z_factor_hallyarbrough(p, float(Tr)))
            for kind, val in (("int", int(Tr)), ("numpy int64", np.int64(Tr))):
                try:
                    with np.errstate(all="ignore"):
                        got = float(gas.z_factor_hallyarbrough(p, val))
                except Exception as ex:
                    return True, {"what": f"z_factor_hallyarbrough({p!r}, {kind} {Tr}) raises {ex!r}; with the float {float(Tr)!r} it returns {want!r}", "inputs": m}
                if not abs(got - want) <= 1e-9 * abs(want):
                    return True, {"what": f"z_factor_hallyarbrough({p!r}, {kind} {Tr}) = {got!r} but with the float {float(Tr)!r} it is {want!r}: "
                                          f"the result depends on the temperature's dtype", "inputs": m}
    return False, {"what": "same Z for int, numpy integer and float temperatures", "inputs": m}


def replay_hy_low_pressure(model):
    """Real z_factor_hallyarbrough at low reduced pressures, where every Z-factor correlation is within a few percent of 1
    (the property: agreement with DAK, which tends to 1): a returned starting guess shows as Z far from 1."""
    from bluebonnet.fluids import gas
    for Tr in (1.5, 2.0, 3.0):
        for p in (0.01, 0.02, 0.05):
            z = float(gas.z_factor_hallyarbrough(p, Tr))
            if not abs(z - 1.0) <= 0.1:
                return True, {"what": f"z_factor_hallyarbrough(p_r={p!r}, T_r={Tr!r}) = {z!r}: not within 10 % of 1 at a pressure where Z is 1 to within a percent", "inputs": {}}
    return False, {"what": "Z within 10 % of 1 at p_r <= 0.05", "inputs": {}}


def job_hy_entry(job):
    """The one part of the declined Hall-Yarbrough clause within reach: the routine run symbolically up to its first
    data-dependent loop test (one Newton update from the constant starting guess; everything after that test is outside the
    bound).  The state captured there - reciprocal temperature, first residual, first iterate - must be a function of the
    temperature's *value*: the same terms for a whole-number temperature passed as an integer and as a real, and
    t * T_r == 1 (an integer-preserving reciprocal gives t = 0 and Z = 0)."""
    from ..sx import sym as S
    mod = load_sym("bluebonnet.fluids.gas")
    job.encoded(mod, "z_factor_hallyarbrough")
    job.bound(hall_yarbrough="first loop test only (one Newton update from y0); termination and agreement with DAK are NOT decided",
              hall_yarbrough_box="p_r in [0.1, 30]; T_r in [1.05, 3] real, {2, 3} integer")
    captured = {}
    for kind in ("real", "integer", "integer-as-real"):
        vs, dom = box(None, _integer=(() if kind == "real" else ("Tr",)), p=("0.1", 30), Tr=(("1.05", 3) if kind == "real" else (2, 3)))
        Tr_arg = vs["Tr"] * K("1.0") if kind == "integer-as-real" else vs["Tr"]
        got = []

        def run():
            S.Context.current.max_decisions = 0
            try:
                return mod.z_factor_hallyarbrough(vs["p"], Tr_arg)
            except S.Unsupported as e:
                if "too many symbolic decisions" not in str(e):
                    raise
                tb = e.__traceback__
                while tb is not None:
                    if tb.tb_frame.f_code.co_name == "z_factor_hallyarbrough":
                        got.append(dict(tb.tb_frame.f_locals))
                        break
                    tb = tb.tb_next
                raise S.PathAbort()
        res = paths(job, run, dom, max_paths=8)
        if res or len(got) != 1 or "t" not in got[0]:
            raise S.Unsupported(f"Hall-Yarbrough[{kind}]: the routine no longer reaches a first data-dependent test with a local `t` "
                                f"({len(res)} complete paths, {len(got)} captured states)")
        captured[kind] = (vs, dom, got[0])
        job.prove(f"hall-yarbrough[{kind} T_r]/t * T_r == 1 at the first loop test", dom + [T.b_not(T.b_eq0(P(lift(got[0]["t"]) * vs["Tr"] - 1)))],
                  bound="first loop test", replay=(replay_hy_dtype, {}))
        job.prove(f"hall-yarbrough[{kind} T_r]/reach", dom, expect="sat")
    y_real = captured["real"][2].get("y")
    untouched = not isinstance(y_real, S.Sym)
    job.record("hall-yarbrough/the first data-dependent exit test is taken after a Newton update (the iterate depends on the inputs there)",
               "sat" if untouched else "unsat", 0.0, note="structure of the captured state")
    if untouched:
        job._violation("hall-yarbrough/the first exit test is evaluated on the constant starting guess", {},
                       {"what": f"at the first data-dependent loop test y is still the constant {y_real!r}", "replayer": "replay_hy_low_pressure"}, None)
    if job.tier != "quick":
        # whole-number reduced pressures passed as Python ints: the same state as for the real of the same value
        vs, dom = box(None, _integer=("p",), p=(1, 30), Tr=("1.05", 3))
        states = {}
        for kind in ("integer", "integer-as-real"):
            p_arg = vs["p"] * K("1.0") if kind == "integer-as-real" else vs["p"]
            got = []

            def run_p():
                S.Context.current.max_decisions = 0
                try:
                    return mod.z_factor_hallyarbrough(p_arg, vs["Tr"])
                except S.Unsupported as e:
                    if "too many symbolic decisions" not in str(e):
                        raise
                    tb = e.__traceback__
                    while tb is not None:
                        if tb.tb_frame.f_code.co_name == "z_factor_hallyarbrough":
                            got.append(dict(tb.tb_frame.f_locals))
                            break
                        tb = tb.tb_next
                    raise S.PathAbort()
            res = paths(job, run_p, dom, max_paths=8)
            if res or len(got) != 1:
                raise S.Unsupported(f"Hall-Yarbrough[{kind} p_r]: no single captured state")
            states[kind] = got[0]
        ks = sorted(k for k in states["integer"] if isinstance(states["integer"][k], S.Sym) and k in states["integer-as-real"])
        same_p = bool(ks) and all(repr(P(lift(states["integer"][k]))) == repr(P(lift(states["integer-as-real"][k]))) for k in ks)
        job.record(f"hall-yarbrough/state at the first loop test ({', '.join(ks)}) is the same term for an integer and a real whole-number p_r",
                   "unsat" if same_p else "unknown", 0.0, note="canonical-term identity; a difference is reported as not decided (no replay for this variant)")
    vi, di, gi = captured["integer"]
    vr, dr, gr = captured["integer-as-real"]
    names = sorted(k for k in gr if k in gi and isinstance(gr[k], S.Sym) or isinstance(gi.get(k), S.Sym))
    same = all(repr(P(lift(gi[k]))) == repr(P(lift(gr[k]))) for k in names)
    job.record(f"hall-yarbrough/state at the first loop test ({', '.join(names)}) is the same term for an integer and a real whole-number T_r",
               "unsat" if same else "sat", 0.0, note="canonical-term identity")
    if not same:
        job._violation("hall-yarbrough/state at the first loop test depends on the temperature's dtype", {},
                       {"what": "the captured terms differ between an integer and a real whole-number T_r", "replayer": "replay_hy_dtype"}, None)


def jobs(tier):
    return [("default-table-z-column", job_table_z), ("dak", job_dak), ("history", job_history), ("history-0d-temperatures", lambda j: job_history(j, True)),
            ("hall-yarbrough-entry-state", job_hy_entry)]
