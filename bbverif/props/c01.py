"""C01 - simulated pseudopressure obeys the maximum principle and the frac-face value.

The real `simulate` methods are executed on symbolic time grids, schedules and diffusivities
(`fluid*` contract stub: alpha an uninterpreted positive function, Ackermannised).  The linear
solve is replaced by its ideal (A x = b); the slack of the real solve is C04's subject.  Bounds
and spatial monotonicity are proved by induction over time levels executed on the real loop: the
stub's first result is *havoc'd* (an arbitrary level satisfying the invariant) and the next one is
the exact solve, so one run with three time levels is the inductive step from an arbitrary level;
two time levels from the real initial state is the base case.
"""
from __future__ import annotations

from fractions import Fraction

from ..sx import terms as T
from ..shims import scipy_shim as SS
from ..shims.np_shim import SymArray
from .common import (P, box, check_defined, evalf, model_floats, not_close, paths, rng, K, Q, Sym, lift, simp, fresh,
                     uf_callable)
from .resv import FluidStub, load_reservoir, times, policy_exact, policy_havoc_then_exact, rows_of

TOL = Fraction(0)   # the linear solve is ideal here: exact bounds (a 1e-9 slack makes z3 answer unknown, measured)


# ------------------------------------------------------------------ replay on the real code

class _DuckFluid:
    """A concrete object honouring the FlowProperties contract, built from the solver's model."""

    def __init__(self, model, nt):
        import numpy as np
        self.m_i = float(model.get("m_i") or 1.0)
        a = uf_callable(model, "alpha", 1.0)
        ys = [model.get(f"alpha_y{k}") for k in range(3)]
        if all(v is not None for v in ys):
            # the code read the interpolator's nodes: hand it a real scipy interpolator through the model's node values
            # (clipped outside, as FlowProperties builds it)
            from scipy.interpolate import interp1d
            ys = [max(float(v), 1e-300) for v in ys]
            x0 = float(model.get("alpha_x0") or 0.0)
            xs = [x0, x0 + max(float(model.get("alpha_dx1") or 1.0), 1e-9)]
            xs.append(xs[1] + max(float(model.get("alpha_dx2") or 1.0), 1e-9))
            self.alpha = interp1d(xs, ys, bounds_error=False, fill_value=(min(ys), max(ys)))
        else:
            self.alpha = lambda m: np.vectorize(lambda q: max(float(a(q)), 1e-12))(m) if hasattr(m, "__len__") else max(float(a(m)), 1e-12)
        mf = [model.get(f"mf[{k}]") for k in range(nt)]
        mf = [float(v) if v is not None else None for v in mf]
        last = next((v for v in mf if v is not None), 0.5 * self.m_i)
        self._mf = [v if v is not None else last for v in mf]
        self.pvt_props = {}

    def m_scaled_func(self, p):
        import numpy as np
        # the harness passes frac-face "pressures" that are indices into the model's schedule values
        if hasattr(p, "__len__"):
            return np.array([self._mf[min(int(round(q)), len(self._mf) - 1)] for q in p])
        return self._mf[min(int(round(p)), len(self._mf) - 1)]


def _real_run(model, cls, nx, nt, schedule):
    import numpy as np
    from bluebonnet.flow import reservoir as rr
    t = [float(model.get("t0") or 0.0)]
    for k in range(1, nt):
        t.append(t[-1] + float(model.get(f"dt{k}") or 1e-3))
    t = np.array(t)
    if cls == "IdealReservoir":
        res = rr.IdealReservoir(nx, 0.0, 1.0, None)
        res.simulate(t)
        return res, t, None
    fluid = _DuckFluid(model, nt)
    res = rr.SinglePhaseReservoir(nx, 0.0, float(nt), fluid)
    if schedule:
        res.simulate(t, pressure_fracface=np.arange(nt, dtype=float))
    else:
        fluid._mf = [fluid._mf[0]] * nt
        res.simulate(t)
    return res, t, fluid


def replay_bounds(model, cls="SinglePhaseReservoir", nx=3, nt=2, schedule=False, kind="bounds"):
    import numpy as np
    res, t, fluid = _real_run(model, cls, nx, nt, schedule)
    pp = np.asarray(res.pseudopressure, float)
    hi = 1.0 if fluid is None else fluid.m_i
    problems = []
    for i in range(1, nt):
        lo = 0.0 if fluid is None else min(fluid._mf[: i + 1])
        if kind == "bounds":
            if pp[i].min() < lo - 1e-7 * hi or pp[i].max() > hi * (1 + 1e-7):
                problems.append(f"level {i}: values in [{pp[i].min()!r}, {pp[i].max()!r}] outside [{lo!r}, {hi!r}]")
        elif kind == "space":
            if np.any(np.diff(pp[i]) < -1e-7 * hi):
                problems.append(f"level {i} not non-decreasing away from the fracture: {pp[i].tolist()}")
        elif kind == "time" and i >= 1:
            if np.any(pp[i][1:] > pp[i - 1][1:] + 1e-7 * hi):
                problems.append(f"nodes beyond the first rise from level {i - 1} to {i}: {pp[i - 1].tolist()} -> {pp[i].tolist()}")
    return bool(problems), {"what": f"{cls} nx={nx}, times {t.tolist()}" + (f", m_f={fluid._mf}, m_i={fluid.m_i}" if fluid else "") + ": "
                            + ("; ".join(problems[:2]) or "within bounds"), "inputs": {k: v for k, v in model.items() if k != "__uf__"}}


def replay_matrix(model, nx=3):
    import numpy as np
    from bluebonnet.flow import reservoir as rr
    k = np.array([float(model.get(f"k{j}") or 1.0) for j in range(nx)])
    A = rr._build_matrix(k).toarray()
    problems = []
    for i in range(nx):
        if not A[i, i] > 0:
            problems.append(f"diagonal {i} = {A[i, i]!r}")
        for j in range(nx):
            if i != j and (A[i, j] > 0 or (abs(i - j) > 1 and A[i, j] != 0)):
                problems.append(f"entry ({i},{j}) = {A[i, j]!r}")
        rs = A[i].sum()
        if (i and abs(rs - 1) > 1e-12 * (1 + abs(A[i]).sum())) or (not i and rs < 1 - 1e-12):
            problems.append(f"row {i} sums to {rs!r}")
    return bool(problems), {"what": f"_build_matrix({k.tolist()}): " + ("; ".join(problems[:3]) or "M-matrix structure holds"), "inputs": {"k": k.tolist()}}


def replay_relax(model, cls="SinglePhaseReservoir", nx=3):
    """Many large steps on the real code: the field must relax to the frac-face value."""
    import numpy as np
    m2 = dict(model)
    m2.setdefault("t0", 0.0)
    nt = 60
    for k in range(1, nt):
        m2[f"dt{k}"] = float(model.get("dt2") or 1.0) * 5.0
    res, t, fluid = _real_run(m2, cls, nx, nt, False)
    last = np.asarray(res.pseudopressure, float)[-1]
    want = 0.0 if fluid is None else fluid._mf[0]
    hi = 1.0 if fluid is None else fluid.m_i
    bad = bool(np.any(np.abs(last - want) > 1e-4 * hi))
    return bad, {"what": f"{cls} nx={nx}: after {nt - 1} large steps the field is {last.tolist()}, frac-face value {want!r}", "inputs": {}}


# ------------------------------------------------------------------ symbolic runs

def _sim(mod, cls, nx, nt, schedule, policy, const_drawdown=True, tdtype="f8", repeat_first=False, tseries=False, repeat_at=None):
    """Run the real simulate once; returns (reservoir, fluid, time array, m_f list)."""
    SS.LinSolve.reset(policy)
    SS.reset_names()
    t, _ = times(nt)
    if repeat_first:
        # a non-decreasing grid with a repeated time: t0, t0, t0 + d, ...
        t = SymArray([t.d[0]] + list(t.d[:-1]), "f8")
    if repeat_at is not None:
        # ... or with a later time repeated: t0, t1, t1, t2
        t = SymArray(list(t.d[:repeat_at + 1]) + list(t.d[repeat_at:]), "f8")
        nt = nt + 1
    if tdtype != "f8":
        t = SymArray(list(t.d), tdtype)
    if tseries:
        # the time column of a production DataFrame (a pandas Series with the default labels 0..nt-1)
        from ..shims.pd_shim import SymSeries
        t = SymSeries(list(t.d), t.dtype_tag, list(range(nt)))
    if cls == "IdealReservoir":
        res = mod.IdealReservoir(Q(nx), fresh("pf"), fresh("pi", pos=True), None)
        res.simulate(t)
        return res, None, t, [Q(0)] * nt
    fluid = FluidStub()
    res = mod.SinglePhaseReservoir(Q(nx), fresh("pf"), fresh("pi", pos=True), fluid)
    if schedule:
        sched = SymArray([fresh(f"pfs{k}") for k in range(nt)], "f8")
        res.simulate(t, pressure_fracface=sched)
        mf = [fluid.m_scaled_func(s) for s in sched.d]
    else:
        res.simulate(t)
        mf = [fluid.m_scaled_func(res.pressure_fracface)] * nt
    return res, fluid, t, mf


def _lo_hi(fluid, mf, upto):
    hi = Q(1) if fluid is None else fluid.m_i
    lo = mf[0]
    from ..sx.sym import s_min
    for v in mf[1: upto + 1]:
        lo = s_min(lo, v)
    return lo, hi


def _outside(xs, lo, hi):
    tol = T.p_scale(P(hi), TOL)
    return T.b_or(*([T.b_lt(P(x), T.p_sub(P(lo), tol)) for x in xs] + [T.b_lt(T.p_add(P(hi), tol), P(x)) for x in xs]))


def job_bounds(job, cls, nx, schedule):
    job.solve_defaults = {"abstract": True}
    mod = load_reservoir()
    job.encoded(mod, f"{cls}.simulate", "_build_matrix", *( ["SinglePhaseReservoir.alpha_scaled"] if cls != "IdealReservoir" else ["IdealReservoir.alpha_scaled"]))
    job.stub("scipy.sparse.diags: exact dense model", "linear solve (bicgstab / spsolve): ideal solve A x = b (its slack is C04)",
             "fluid*: FlowProperties contract stub - m_i > 0, alpha an uninterpreted positive function, m_scaled_func(p_f) in [0, m_i]")
    job.bound(nx_quick="3..6", nx_thorough="3..16")
    tag = f"{cls}[nx={nx},{'schedule' if schedule else 'scalar'}]"
    # base case: two time levels from the real initial state
    rp = (replay_bounds, {"cls": cls, "nx": nx, "nt": 2, "schedule": schedule, "kind": "bounds"})
    res = paths(job, lambda: _sim(mod, cls, nx, 2, schedule, policy_exact()), [], max_paths=16)
    for k, pr in enumerate(res):
        if pr.exc is not None:
            job.errors.append(f"{tag} base raised {pr.exc!r}")
            continue
        r, fluid, t, mf = pr.value
        rows = rows_of(r)
        lo, hi = _lo_hi(fluid, mf, 1)
        job.prove(f"{tag}/base: level 1 within [lowest frac-face value, initial][path{k}]", pr.pc + [_outside(rows[1], lo, hi)],
                  bound=f"nx={nx}, any dt>0", replay=rp)
        job.prove(f"{tag}/base/reach[path{k}]", pr.pc, expect="sat")
    # inductive step: level 1 havoc'd inside the invariant, level 2 the exact solve
    rp3 = (replay_bounds, {"cls": cls, "nx": nx, "nt": 3, "schedule": schedule, "kind": "bounds"})
    hold = {}

    def inv(rec):
        lo, hi = hold["lo"], hold["hi"]
        return [(lift(x) >= lift(lo)).node for x in rec["x"]] + [(lift(x) <= lift(hi)).node for x in rec["x"]]

    def run_step():
        # the invariant of the havoc'd level needs m_f and m_i, which only exist once simulate has started:
        # the policy reads them lazily from the fluid stub
        SS.LinSolve.reset(None)
        SS.reset_names()
        t, _ = times(3)
        if cls == "IdealReservoir":
            hold.update(lo=Q(0), hi=Q(1))
            SS.LinSolve.policy = policy_havoc_then_exact({0}, inv)
            r = mod.IdealReservoir(Q(nx), fresh("pf"), fresh("pi", pos=True), None)
            r.simulate(t)
            return r, None, t, [Q(0)] * 3
        fluid = FluidStub()
        r = mod.SinglePhaseReservoir(Q(nx), fresh("pf"), fresh("pi", pos=True), fluid)
        if schedule:
            sched = SymArray([fresh(f"pfs{k}") for k in range(3)], "f8")
            mf = [fluid.m_scaled_func(s) for s in sched.d]
        else:
            sched = None
            mf = [fluid.m_scaled_func(r.pressure_fracface)] * 3
        from ..sx.sym import s_min
        hold.update(lo=s_min(mf[0], mf[1]), hi=fluid.m_i)
        SS.LinSolve.policy = policy_havoc_then_exact({0}, inv)
        if schedule:
            r.simulate(t, pressure_fracface=sched)
        else:
            r.simulate(t)
        return r, fluid, t, mf

    res = paths(job, run_step, [], max_paths=16)
    for k, pr in enumerate(res):
        if pr.exc is not None:
            job.errors.append(f"{tag} step raised {pr.exc!r}")
            continue
        r, fluid, t, mf = pr.value
        rows = rows_of(r)
        lo, hi = _lo_hi(fluid, mf, 1)   # the step 1 -> 2 uses the frac-face value of level 1
        job.prove(f"{tag}/step: an arbitrary level inside the bounds stays inside[path{k}]", pr.pc + [_outside(rows[2], lo, hi)],
                  bound=f"nx={nx}, any dt>0, any level", replay=rp3)
        job.prove(f"{tag}/step/reach[path{k}]", pr.pc, expect="sat")


def replay_inttime(model, nx=3):
    """Real run on an integer-dtype time grid (whole days, large steps) with a frac-face pressure that is not an
    integer and close to the initial pressure: every level must stay at or above the frac-face pseudopressure."""
    import numpy as np
    from bluebonnet.flow import reservoir as rr
    from .c04 import _real_fluid
    fluid = _real_fluid()
    pf = 7990.6
    res = rr.SinglePhaseReservoir(max(nx, 8), pf, 8000.0, fluid)
    t = np.arange(0, 40) * 50
    res.simulate(t)
    pp = np.asarray(res.pseudopressure, float)
    m_f, m_i = float(fluid.m_scaled_func(pf)), float(fluid.m_i)
    lowest = float(pp.min())
    bad = lowest < m_f - 1e-9 * m_i
    return bad, {"what": f"SinglePhaseReservoir on the integer time grid {t[:4].tolist()}.. ({t.dtype}), p_f={pf}, p_i=8000: lowest simulated value {lowest!r} "
                         f"vs frac-face pseudopressure {m_f!r} (below it by {(m_f - lowest) / (m_i - m_f):.1%} of the drawdown)", "inputs": {}}


def replay_series_time(model, cls="SinglePhaseReservoir", nx=3):
    """Real run with the time grid passed as a pandas Series (the 'Days' column of a production table, as
    plot_production_comparison passes it): every value inside the bounds, same field as with the plain array."""
    import numpy as np
    import pandas as pd
    from bluebonnet.flow import reservoir as rr
    from .c04 import _real_fluid
    t = np.linspace(0, 1.5, 12) ** 2
    if cls == "IdealReservoir":
        a, b = rr.IdealReservoir(max(nx, 6), 1000.0, 8000.0, None), rr.IdealReservoir(max(nx, 6), 1000.0, 8000.0, None)
        lo, hi = 0.0, 1.0
    else:
        fluid = _real_fluid()
        a, b = rr.SinglePhaseReservoir(max(nx, 6), 1000.0, 8000.0, fluid), rr.SinglePhaseReservoir(max(nx, 6), 1000.0, 8000.0, fluid)
        lo, hi = float(fluid.m_scaled_func(1000.0)), float(fluid.m_i)
    a.simulate(t)
    try:
        b.simulate(pd.Series(t))
    except Exception as ex:  # noqa: BLE001
        return True, {"what": f"{cls}.simulate raised {ex!r} for a time grid passed as a pandas Series", "inputs": {}}
    pa, pb = np.asarray(a.pseudopressure, float), np.asarray(b.pseudopressure, float)
    problems = []
    if not np.all(np.isfinite(pb)) or pb.min() < lo - 1e-7 * hi or pb.max() > hi * (1 + 1e-7):
        problems.append(f"values in [{np.nanmin(pb) if np.any(np.isfinite(pb)) else float('nan')!r}, {np.nanmax(pb) if np.any(np.isfinite(pb)) else float('nan')!r}] "
                        f"({int(np.sum(~np.isfinite(pb)))} not finite) outside [{lo!r}, {hi!r}]")
    elif np.abs(pa - pb).max() > 1e-9 * hi:
        problems.append(f"field differs from the one for the same grid as a plain array by {np.abs(pa - pb).max():.3e}")
    return bool(problems), {"what": f"{cls}, time grid as a pandas Series: " + ("; ".join(problems) or "within bounds, same field"), "inputs": {}}


def job_bounds_series(job, cls, nx):
    """The bounds for a time grid handed over as a pandas Series with default labels (label-based element access,
    label-aligned arithmetic): three levels from the initial state."""
    job.solve_defaults = {"abstract": True}
    mod = load_reservoir()
    job.encoded(mod, f"{cls}.simulate")
    job.stub("pandas Series: label-based element access, positional slices that keep their labels, label-aligned arithmetic (NaN where a label is missing)")
    tag = f"{cls}[nx={nx},scalar,time grid as a pandas Series]"
    rp = (replay_series_time, {"cls": cls, "nx": nx})
    for k, pr in enumerate(paths(job, lambda: _sim(mod, cls, nx, 3, False, policy_exact(), tseries=True), [], max_paths=16, catch=(Exception,))):
        if pr.exc is not None:
            job.prove(f"{tag}/raises {type(pr.exc).__name__}[path{k}]", pr.pc, bound=f"nx={nx}", replay=rp, note=repr(pr.exc)[:100])
            continue
        r, fluid, t, mf = pr.value
        rows = rows_of(r)
        for lev in (1, 2):
            lo, hi = _lo_hi(fluid, mf, lev)
            if any(getattr(x, "__sx_nan__", False) for x in rows[lev]):
                job.prove(f"{tag}/level {lev} has no missing values[path{k}]", pr.pc, bound=f"nx={nx}", replay=rp)
                continue
            if lev == 2 and job.tier == "quick":
                continue        # the second level from the initial state through two exact solves: thorough tier
            job.prove(f"{tag}/level {lev} within [frac-face value, initial][path{k}]", pr.pc + [_outside(rows[lev], lo, hi)],
                      bound=f"nx={nx}, any dt>0, time grid a Series", replay=rp)
        job.prove(f"{tag}/reach[path{k}]", pr.pc, expect="sat")


def job_bounds_inttime(job, nx):
    """The bounds must not depend on the dtype of the time grid (whole days passed as an integer array)."""
    job.solve_defaults = {"abstract": True}
    mod = load_reservoir()
    cls = "SinglePhaseReservoir"
    job.encoded(mod, f"{cls}.simulate")
    tag = f"{cls}[nx={nx},scalar,integer time grid]"
    rp = (replay_inttime, {"nx": nx})
    for k, pr in enumerate(paths(job, lambda: _sim(mod, cls, nx, 2, False, policy_exact(), tdtype="i8"), [], max_paths=16)):
        if pr.exc is not None:
            job.errors.append(f"{tag} base raised {pr.exc!r}")
            continue
        r, fluid, t, mf = pr.value
        rows = rows_of(r)
        lo, hi = _lo_hi(fluid, mf, 1)
        job.prove(f"{tag}/base: level 1 within [frac-face value, initial][path{k}]", pr.pc + [_outside(rows[1], lo, hi)],
                  bound=f"nx={nx}, any dt>0, int64 time grid", replay=rp)
        job.prove(f"{tag}/reach[path{k}]", pr.pc, expect="sat")


def replay_reuse(model, nx=3, how="field"):
    """Real run: one SinglePhaseReservoir simulated, its frac-face pressure changed (public dataclass field, or a run
    with an explicit schedule in between), simulated again with very large last steps: the second field must lie in
    [m(p_f of that run), m_i] and relax to m(p_f of that run)."""
    import numpy as np
    from bluebonnet.flow import reservoir as rr
    from .c04 import _real_fluid
    fluid = _real_fluid()
    t = np.concatenate([np.linspace(0, 2.0, 30) ** 2, [50.0, 1e4]])
    res = rr.SinglePhaseReservoir(max(nx, 8), 1000.0, 8000.0, fluid)
    res.simulate(t)
    if how == "field":
        res.pressure_fracface = 6000.0
        pf2 = 6000.0
    else:
        res.simulate(t, pressure_fracface=np.linspace(7000.0, 3000.0, len(t)))
        pf2 = float(np.ravel(res.pressure_fracface)[0]) if np.ndim(res.pressure_fracface) == 0 else 1000.0
    res.simulate(t)
    pp = np.asarray(res.pseudopressure, float)
    m_f, m_i = float(fluid.m_scaled_func(pf2)), float(fluid.m_i)
    problems = []
    if pp.min() < m_f - 1e-9 * m_i or pp.max() > m_i * (1 + 1e-9):
        problems.append(f"field [{pp.min()!r}, {pp.max()!r}] leaves [m_f, m_i] = [{m_f!r}, {m_i!r}]")
    if np.abs(pp[-1] - m_f).max() > 1e-6 * m_i:
        problems.append(f"after a 1e4 step the field is {pp[-1].min()!r}..{pp[-1].max()!r}, not the frac-face value {m_f!r}")
    return bool(problems), {"what": f"re-used SinglePhaseReservoir ({'pressure_fracface reassigned 1000 -> 6000' if how == 'field' else 'schedule run in between'}), "
                                    f"second constant-drawdown run: " + ("; ".join(problems) or "inside the bounds"), "inputs": {}}


def job_reuse(job, nx, how):
    """The bounds refer to the frac-face pressure of *this* run: a second constant-drawdown run on an object whose
    frac-face setting was changed in between (dataclass field reassigned / a schedule run in between) obeys them with
    the value in force when it starts."""
    job.solve_defaults = {"abstract": True}
    mod = load_reservoir()
    cls = "SinglePhaseReservoir"
    job.encoded(mod, f"{cls}.simulate")
    tag = f"{cls}[nx={nx},re-used object,{how}]"
    rp = (replay_reuse, {"nx": nx, "how": how})

    def run():
        SS.LinSolve.reset(policy_exact())
        SS.reset_names()
        t1, _ = times(2, prefix="u")
        t2, _ = times(2)
        fluid = FluidStub()
        r = mod.SinglePhaseReservoir(Q(nx), fresh("pf"), fresh("pi", pos=True), fluid)
        r.simulate(t1)
        if how == "field":
            r.pressure_fracface = fresh("pf2")
        else:
            r.simulate(t1, pressure_fracface=SymArray([fresh("s0"), fresh("s1")], "f8"))
        r.simulate(t2)
        mf = fluid.m_scaled_func(r.pressure_fracface)
        return r, fluid, mf

    for k, pr in enumerate(paths(job, run, [], max_paths=16)):
        if pr.exc is not None:
            job.prove(f"{tag}/second run raises {type(pr.exc).__name__}[path{k}]", pr.pc, bound=f"nx={nx}", replay=rp, note=repr(pr.exc)[:100], elim=True)
            continue
        r, fluid, mf = pr.value
        rows = rows_of(r)
        job.prove(f"{tag}/base: level 1 within [frac-face value of this run, initial][path{k}]", pr.pc + [_outside(rows[1], mf, fluid.m_i)],
                  bound=f"nx={nx}, any dt>0", replay=rp)
        job.prove(f"{tag}/frac-face node starts at this run's frac-face value[path{k}]", pr.pc + [T.b_not(T.b_eq0(T.p_sub(P(rows[0][0]), P(mf))))],
                  bound=f"nx={nx}", replay=rp)
        job.prove(f"{tag}/reach[path{k}]", pr.pc, expect="sat", elim=True)


def replay_repeat(model, cls="SinglePhaseReservoir", nx=3):
    """Real run on a grid with a repeated time (t0, t0, t1, t1, t2): finite field inside the bounds."""
    import numpy as np
    from bluebonnet.flow import reservoir as rr
    from .c04 import _real_fluid
    d = float(model.get("dt1") or 0.01)
    t = np.array([0.0, 0.0, d, d, 3 * d])
    with np.errstate(all="ignore"):
        try:
            if cls == "IdealReservoir":
                res, lo, hi = rr.IdealReservoir(max(nx, 5), 1000.0, 8000.0, None), 0.0, 1.0
            else:
                fluid = _real_fluid()
                res, lo, hi = rr.SinglePhaseReservoir(max(nx, 5), 1000.0, 8000.0, fluid), float(fluid.m_scaled_func(1000.0)), float(fluid.m_i)
            res.simulate(t)
        except Exception as ex:  # noqa: BLE001
            return True, {"what": f"{cls}.simulate raised {ex!r} on the non-decreasing grid {t.tolist()}", "inputs": {}}
    pp = np.asarray(res.pseudopressure, float)
    bad = bool(not np.all(np.isfinite(pp)) or pp.min() < lo - 1e-9 * hi or pp.max() > hi * (1 + 1e-9) or np.any(np.abs(pp[1] - pp[0]) > 1e-12 * hi)
               or np.any(np.abs(pp[3][1:] - pp[2][1:]) > 1e-12 * hi))
    return bad, {"what": f"{cls} on the grid {t.tolist()} with repeated times: field in [{pp.min()!r}, {pp.max()!r}] (bounds [{lo!r}, {hi!r}]), "
                         f"level 1 - level 0 up to {np.abs(pp[1] - pp[0]).max()!r}, level 3 - level 2 beyond the frac-face node up to {np.abs(pp[3][1:] - pp[2][1:]).max()!r} "
                         f"(level 2 {pp[2].tolist()}, level 3 {pp[3].tolist()})", "inputs": {}}


def job_bounds_repeat(job, cls, nx, later=False):
    """'Every non-decreasing time grid' includes repeated times: a zero-length step stores the previous level again
    (frac-face node at the frac-face value) and the next step obeys the bounds.  later=True: the repeated time is not the
    first one (t0, t1, t1), so the previous level is no longer the initial state."""
    job.solve_defaults = {"abstract": True}
    mod = load_reservoir()
    job.encoded(mod, f"{cls}.simulate")
    tag = f"{cls}[nx={nx},grid t0,t0,t0+d]" if not later else f"{cls}[nx={nx},grid t0,t1,t1]"
    rp = (replay_repeat, {"cls": cls, "nx": nx})
    run = (lambda: _sim(mod, cls, nx, 2, False, policy_exact(), repeat_at=1)) if later else (lambda: _sim(mod, cls, nx, 3, False, policy_exact(), repeat_first=True))
    for k, pr in enumerate(paths(job, run, [], max_paths=16, catch=(Exception,))):
        if pr.exc is not None:
            job.prove(f"{tag}/raises {type(pr.exc).__name__}[path{k}]", pr.pc, bound=f"nx={nx}", replay=rp, note=repr(pr.exc)[:100])
            continue
        r, fluid, t, mf = pr.value
        rows = rows_of(r)
        lo, hi = _lo_hi(fluid, mf, 2)
        if later:
            # beyond the frac-face node (which the documented boundary row resets to the frac-face value) level 2 is level 1
            same = T.b_or(*[T.b_not(T.b_eq0(T.p_sub(P(a), P(b)))) for a, b in zip(rows[2][1:], rows[1][1:])])
            job.prove(f"{tag}/zero-length step stores the previous level beyond the frac-face node[path{k}]", pr.pc + [same], bound=f"nx={nx}", replay=rp, elim=True, abstract=False)
            job.prove(f"{tag}/reach[path{k}]", pr.pc, expect="sat", elim=True, abstract=False)
            continue
        same = T.b_or(*[T.b_not(T.b_eq0(T.p_sub(P(a), P(b)))) for a, b in zip(rows[1], rows[0])])
        job.prove(f"{tag}/zero-length step stores the previous level[path{k}]", pr.pc + [same], bound=f"nx={nx}", replay=rp, elim=True, abstract=False)
        job.prove(f"{tag}/next level within the bounds[path{k}]", pr.pc + [_outside(rows[2], lo, hi)], bound=f"nx={nx}, any d>0", replay=rp)
        seen = set()
        for cond, why in pr.ctx.defined:
            if cond.id in seen or why.startswith("integer overflow"):
                continue
            seen.add(cond.id)
            job.prove(f"{tag}/finite[path{k}][{len(seen)}]", pr.pc + [T.b_not(cond)], bound=f"nx={nx}", replay=rp, note=why[:90], elim=True, abstract=False)
        job.prove(f"{tag}/reach[path{k}]", pr.pc, expect="sat", elim=True, abstract=False)


def replay_after_recovery(model, cls="SinglePhaseReservoir", nx=3):
    """Real run: simulate, then ask for the recovery factor (both modes where a density table exists): the stored field is
    still the simulated one and still inside the bounds."""
    import numpy as np
    from bluebonnet.flow import reservoir as rr
    from .c04 import _real_fluid
    t = np.linspace(0, 1.5, 15) ** 2
    if cls == "IdealReservoir":
        res, lo, hi = rr.IdealReservoir(max(nx, 6), 1000.0, 8000.0, None), 0.0, 1.0
    else:
        fluid = _real_fluid()
        res, lo, hi = rr.SinglePhaseReservoir(max(nx, 6), 4000.0, 8000.0, fluid), float(fluid.m_scaled_func(4000.0)), float(fluid.m_i)
    res.simulate(t)
    before = np.array(res.pseudopressure, dtype=float, copy=True)
    res.recovery_factor()
    if cls != "IdealReservoir":
        res.recovery_factor(density=True)
        res.recovery_factor()
    after = np.asarray(res.pseudopressure, float)
    problems = []
    if after.shape != before.shape or np.any(after != before):
        problems.append(f"the stored field changed by up to {np.abs(after - before).max():.3e} after the recovery calls")
    if after.min() < lo - 1e-9 * hi or after.max() > hi * (1 + 1e-9):
        problems.append(f"field [{after.min()!r}, {after.max()!r}] outside [{lo!r}, {hi!r}]")
    return bool(problems), {"what": f"{cls}: simulate, then recovery_factor(): " + ("; ".join(problems) or "field untouched"), "inputs": {}}


def job_after_recovery(job, cls, nx):
    """The bounds are a statement about `reservoir.pseudopressure after simulate()`: asking for the recovery factor
    afterwards (which reads the first three columns) must leave that field as simulated."""
    mod = load_reservoir()
    job.encoded(mod, f"{cls}.simulate", "IdealReservoir.recovery_factor")
    tag = f"{cls}[nx={nx},after recovery_factor()]"
    rp = (replay_after_recovery, {"cls": cls, "nx": nx})

    def run():
        r, fluid, t, mf = _sim(mod, cls, nx, 2, False, policy_exact())
        before = [list(row) for row in rows_of(r)]
        r.recovery_factor()
        after = rows_of(r)
        changed = [(i, j) for i in range(len(before)) for j in range(nx) if P(after[i][j]) != P(before[i][j])]
        return changed
    for k, pr in enumerate(paths(job, run, [], max_paths=16, catch=(Exception,))):
        if pr.exc is not None:
            job.prove(f"{tag}/raises {type(pr.exc).__name__}[path{k}]", pr.pc, bound=f"nx={nx}", replay=rp, note=repr(pr.exc)[:80], elim=True)
            continue
        if pr.value:
            job._violation(f"{tag}/stored field is still the simulated one[path{k}]", {},
                           {"what": f"entries {pr.value[:4]} of the stored field were rewritten by recovery_factor()", "replayer": "replay_after_recovery", "replayer_kwargs": rp[1]}, None)
        else:
            job.record(f"{tag}/stored field is still the simulated one[path{k}]", "unsat", 0.0, note="effect check on the path: every entry is the same term")


def job_space(job, cls, nx):
    """Constant drawdown: non-decreasing away from the fracture (invariant with the bounds)."""
    job.solve_defaults = {"abstract": True}
    mod = load_reservoir()
    job.encoded(mod, f"{cls}.simulate", "_build_matrix")
    tag = f"{cls}[nx={nx}]"
    hold = {}

    def inv(rec):
        xs = rec["x"]
        out = [(lift(x) >= lift(hold["lo"])).node for x in xs] + [(lift(x) <= lift(hold["hi"])).node for x in xs]
        out += [(lift(xs[j]) <= lift(xs[j + 1])).node for j in range(len(xs) - 1)]
        return out

    for mode, nt, havoc in (("base", 2, set()), ("step", 3, {0})):
        def run():
            SS.LinSolve.reset(None)
            SS.reset_names()
            t, _ = times(nt)
            if cls == "IdealReservoir":
                hold.update(lo=Q(0), hi=Q(1))
                SS.LinSolve.policy = policy_havoc_then_exact(havoc, inv)
                r = mod.IdealReservoir(Q(nx), fresh("pf"), fresh("pi", pos=True), None)
                r.simulate(t)
                return r, None
            fluid = FluidStub()
            r = mod.SinglePhaseReservoir(Q(nx), fresh("pf"), fresh("pi", pos=True), fluid)
            hold.update(lo=fluid.m_scaled_func(r.pressure_fracface), hi=fluid.m_i)
            SS.LinSolve.policy = policy_havoc_then_exact(havoc, inv)
            r.simulate(t)
            return r, fluid
        rp = (replay_bounds, {"cls": cls, "nx": nx, "nt": nt, "schedule": False, "kind": "space"})
        for k, pr in enumerate(paths(job, run, [], max_paths=16)):
            if pr.exc is not None:
                job.errors.append(f"{tag} space {mode} raised {pr.exc!r}")
                continue
            r, fluid = pr.value
            last = rows_of(r)[-1]
            tol = T.p_scale(P(hold["hi"]), TOL)
            bad = T.b_or(*[T.b_lt(T.p_add(P(last[j + 1]), tol), P(last[j])) for j in range(nx - 1)])
            job.prove(f"{tag}/space/{mode}: profile non-decreasing away from the fracture[path{k}]", pr.pc + [bad],
                      bound=f"nx={nx}, constant drawdown", replay=rp)


def job_time(job, cls, nx):
    """Constant drawdown, first two steps from the real initial state: nodes j >= 1 do not rise."""
    job.solve_defaults = {"abstract": True}
    mod = load_reservoir()
    job.encoded(mod, f"{cls}.simulate")
    job.assume_text("time-monotonicity is claimed for the first two steps and nx = 3 only (the obvious one-step invariant is not inductive; "
                    "nx = 4 is beyond the solver's reach: unknown at 600 s, measured)")
    tag = f"{cls}[nx={nx}]"
    rp = (replay_bounds, {"cls": cls, "nx": nx, "nt": 3, "schedule": False, "kind": "time"})
    for k, pr in enumerate(paths(job, lambda: _sim(mod, cls, nx, 3, False, policy_exact()), [], max_paths=16)):
        if pr.exc is not None:
            job.errors.append(f"{tag} time raised {pr.exc!r}")
            continue
        r, fluid, t, mf = pr.value
        rows = rows_of(r)
        hi = Q(1) if fluid is None else fluid.m_i
        tol = T.p_scale(P(hi), TOL)
        bad = T.b_or(*[T.b_lt(T.p_add(P(rows[i][j]), tol), P(rows[i + 1][j])) for i in range(2) for j in range(1, nx)])
        job.prove(f"{tag}/time: nodes beyond the first non-increasing over the first two steps[path{k}]", pr.pc + [bad],
                  bound=f"nx={nx}, two steps, any dt", replay=rp, timeout=job.timeout)


def job_fixed_point(job, cls, nx):
    """x = step(x) for an arbitrary dt > 0 implies x_j = m_f for all j (the only possible limit)."""
    job.solve_defaults = {"abstract": True}
    mod = load_reservoir()
    job.encoded(mod, f"{cls}.simulate")
    tag = f"{cls}[nx={nx}]"

    def fixed(rec):
        # havoc level 1 (call 0); call 1 must reproduce it: x_new = x_old, which is expressed by
        # constraining the second call's unknowns to equal the first call's
        return []

    def run():
        SS.LinSolve.reset(None)
        SS.reset_names()
        calls = []

        def pol(rec):
            calls.append(rec)
            if rec["index"] == 0:
                return 0            # arbitrary level
            SS.exact_solve(rec)
            c = SS.ctx()
            for a, b in zip(rec["x"], calls[0]["x"]):
                c.assume((lift(a) == lift(b)).node)
            return 0
        SS.LinSolve.policy = pol
        t, _ = times(3)
        if cls == "IdealReservoir":
            r = mod.IdealReservoir(Q(nx), fresh("pf"), fresh("pi", pos=True), None)
            r.simulate(t)
            return r, None, Q(0)
        fluid = FluidStub()
        r = mod.SinglePhaseReservoir(Q(nx), fresh("pf"), fresh("pi", pos=True), fluid)
        r.simulate(t)
        return r, fluid, fluid.m_scaled_func(r.pressure_fracface)

    for k, pr in enumerate(paths(job, run, [], max_paths=16)):
        if pr.exc is not None:
            job.errors.append(f"{tag} fixed point raised {pr.exc!r}")
            continue
        r, fluid, mf = pr.value
        rows = rows_of(r)
        hi = Q(1) if fluid is None else fluid.m_i
        # restrict to levels inside the bounds (the reachable ones, by the bounds obligations)
        inb = [T.b_le(P(mf), P(x)) for x in rows[1]] + [T.b_le(P(x), P(hi)) for x in rows[1]]
        tol = T.p_scale(P(hi), Fraction(1, 10**6))
        bad = T.b_or(*[T.b_or(T.b_lt(T.p_add(P(mf), tol), P(x)), T.b_lt(T.p_add(P(x), tol), P(mf))) for x in rows[2]])
        job.prove(f"{tag}/fixed point of one step is the frac-face value[path{k}]", pr.pc + inb + [bad], bound=f"nx={nx}, any dt>0",
                  replay=(replay_relax, {"cls": cls, "nx": nx}), note="steady state independent of the step size")


def job_matrix(job, nx):
    job.solve_defaults = {"abstract": True}
    mod = load_reservoir()
    job.encoded(mod, "_build_matrix")
    ks = [fresh(f"k{j}", pos=True) for j in range(nx)]
    for k, pr in enumerate(paths(job, lambda: mod._build_matrix(SymArray(ks, "f8")), [])):
        M = pr.value.rows
        bad = []
        for i in range(nx):
            bad.append(T.b_le0(P(M[i][i])))
            rs = Q(0)
            for j in range(nx):
                rs = rs + M[i][j]
                if i != j:
                    bad.append(T.b_lt(T.ZERO, P(M[i][j])))
                    if abs(i - j) > 1:
                        bad.append(T.b_not(T.b_eq0(P(M[i][j]))))
            bad.append(T.b_not(T.b_eq0(P(rs - 1))) if i else T.b_lt(P(rs), T.ONE))
        import numpy as np
        from bluebonnet.flow import reservoir as rr
        r = rng(job, nx)
        kv = [r.uniform(0.01, 50) for _ in range(nx)]
        real = rr._build_matrix(np.array(kv)).toarray()
        env = {f"k{j}": kv[j] for j in range(nx)}
        for i in range(nx):
            for j in range(max(0, i - 1), min(nx, i + 2)):
                job.validate("_build_matrix entry", evalf(M[i][j], env), float(real[i, j]), inputs={"i": i, "j": j, "k": kv})
        job.prove(f"matrix[nx={nx}]/tridiagonal, diagonal > 0, off-diagonals <= 0, unit row sums (frac-face row >= 1)",
                  pr.pc + [T.b_or(*bad)], bound=f"nx={nx}, any positive kt/h2", replay=(replay_matrix, {"nx": nx}))


# concrete replays run on the real code when the changed code uses something the engine does not model (harness.finish)
FALLBACK = [(replay_relax, {}), (replay_repeat, {}), (replay_repeat, {"cls": "IdealReservoir"}), (replay_reuse, {}), (replay_reuse, {"how": "schedule"}), (replay_inttime, {}), (replay_after_recovery, {}), (replay_after_recovery, {"cls": "IdealReservoir"})]


def jobs(tier):
    out = []
    nxs = (3, 4, 5, 6) if tier == "quick" else (3, 4, 5, 6, 8, 10, 12, 16)
    for cls in ("SinglePhaseReservoir", "IdealReservoir"):
        for nx in nxs:
            out.append((f"bounds-{cls[:6]}-{nx}", lambda j, c=cls, n=nx: job_bounds(j, c, n, False)))
        for nx in ((3, 4) if tier == "quick" else (3, 4, 5, 6, 8)):
            if cls == "SinglePhaseReservoir":
                out.append((f"bounds-sched-{nx}", lambda j, n=nx: job_bounds(j, "SinglePhaseReservoir", n, True)))
            out.append((f"space-{cls[:6]}-{nx}", lambda j, c=cls, n=nx: job_space(j, c, n)))
        # nx = 4 was tried in the thorough tier and z3 answers unknown at 600 s on the real source: it is outside the
        # claim (stated bound: nx = 3, two steps), not asked, and not reported as anything
        for nx in (3,):
            out.append((f"time-{cls[:6]}-{nx}", lambda j, c=cls, n=nx: job_time(j, c, n)))
        for nx in ((3, 4) if tier == "quick" else (3, 4, 6, 8)):
            out.append((f"fixed-{cls[:6]}-{nx}", lambda j, c=cls, n=nx: job_fixed_point(j, c, n)))
    out.append(("bounds-inttime-3", lambda j: job_bounds_inttime(j, 3)))
    for cls in ("SinglePhaseReservoir", "IdealReservoir"):
        out.append((f"bounds-series-time-{cls[:6]}-3", lambda j, c=cls: job_bounds_series(j, c, 3)))
    for cls in ("SinglePhaseReservoir", "IdealReservoir"):
        out.append((f"repeat-{cls[:6]}-3", lambda j, c=cls: job_bounds_repeat(j, c, 3)))
        out.append((f"repeat-later-{cls[:6]}-3", lambda j, c=cls: job_bounds_repeat(j, c, 3, True)))
    for cls in ("SinglePhaseReservoir", "IdealReservoir"):
        out.append((f"after-recovery-{cls[:6]}-4", lambda j, c=cls: job_after_recovery(j, c, 4)))
    out.append(("reuse-field-3", lambda j: job_reuse(j, 3, "field")))
    out.append(("reuse-schedule-3", lambda j: job_reuse(j, 3, "schedule")))
    for nx in ((3, 5, 8) if tier == "quick" else (3, 4, 5, 6, 7, 8, 12, 20)):
        out.append((f"matrix-{nx}", lambda j, n=nx: job_matrix(j, n)))
    # the bounds jobs take the step's linear solve as exact (contract of the direct solve) at node counts <= 16; the property
    # quantifies over node counts up to 400, so the solve the code reaches at larger sizes must carry the same contract:
    # a solver chosen by grid size, or a loosely converged one, is seen here (one step at each size, C04's tolerance query)
    from . import c04 as _c04
    for cls in ("SinglePhaseReservoir", "IdealReservoir"):
        for big in ((129, 401) if tier == "quick" else (65, 129, 257, 401, 513)):
            out.append((f"solve-contract-{cls[:6]}-{big}", lambda j, c=cls, n=big: _c04.job_tolerance(j, c, n)))
    return out
