"""C09 - flow-property wrapper: monotone transform, bounded positive diffusivity.

`FlowProperties.__init__` (both branches), `FlowPropertiesSimple.__init__` and
`rescale_pseudopressure` are executed on a symbolic N-row table (dict of arrays and DataFrame
forms) with scipy's interp1d replaced by its exact piecewise-linear model.
"""
from __future__ import annotations

import itertools
from fractions import Fraction

from ..sx import terms as T
from ..sx import loader
from ..shims import pd_shim
from ..shims import scipy_shim as SS
from ..shims.np_shim import SymArray
from .common import (P, box, check_defined, evalf, load_sym, model_floats, not_close, paths, rng, K, Q, Sym, lift,
                     simp, fresh)

LONG = ("pseudopressure", "compressibility", "pressure", "viscosity", "z-factor")
SHORT = ("pressure", "pseudopressure", "alpha")


def _load():
    return load_sym("bluebonnet.flow.flowproperties", pd=pd_shim.PD, **SS.rebind())


def _table(n, cols, frame=False, pp0_zero=False, descending=False):
    """Symbolic table: pressure strictly increasing, pseudopressure strictly increasing (>= 0 or > 0),
    other columns positive."""
    dom = []
    tab = {}
    ps = [fresh(f"p{k}", pos=True) for k in range(n)]
    for k in range(1, n):
        dom.append(T.b_lt(P(ps[k - 1]), P(ps[k])))
    dom += [T.b_le(T.Poly.const(1), P(ps[0])), T.b_le(P(ps[-1]), T.Poly.const(30000))]
    tab["pressure"] = SymArray(ps, "f8")
    for c in cols:
        if c == "pressure":
            continue
        if c == "pseudopressure":
            vals = [Q(0) if pp0_zero else fresh("pp0", pos=True)]
            for k in range(1, n):
                vals.append(vals[-1] + fresh(f"dpp{k}", pos=True))
        else:
            vals = [fresh(f"{c.replace('-', '_')}{k}", pos=True) for k in range(n)]
        tab[c] = SymArray(vals, "f8")
    if descending:
        # the same table listed from high pressure to low (a lab report's order): every lookup in the wrapper sorts
        tab = {k: SymArray(list(reversed(v.d)), "f8") for k, v in tab.items()}
    if frame:
        # frame == "labelled": a DataFrame whose index labels are n-1..0 in row order (a table put in order with sort_values)
        f = pd_shim.SymFrame(index=list(range(n - 1, -1, -1)) if frame == "labelled" else None)
        for k, v in tab.items():
            f.cols[k] = v
        return f, ps, dom
    return tab, ps, dom


def _snapshot(tab):
    cols = tab.cols if isinstance(tab, pd_shim.SymFrame) else tab
    return {k: (v, list(v.d)) for k, v in cols.items()}


def _unchanged(tab, snap):
    cols = tab.cols if isinstance(tab, pd_shim.SymFrame) else tab
    if set(cols) != set(snap):
        return f"keys changed: {sorted(cols)} vs {sorted(snap)}"
    for k, (arr, data) in snap.items():
        if cols[k] is not arr:
            return f"column {k} replaced"
        if len(arr.d) != len(data) or any(a is not b for a, b in zip(arr.d, data)):
            return f"column {k} modified in place"
    return None


# ------------------------------------------------------------------ replay (real libraries)

def _real_table(m, n, cols):
    import numpy as np
    t = {"pressure": np.array([m[f"p{k}"] for k in range(n)])}
    for c in cols:
        if c == "pressure":
            continue
        if c == "pseudopressure":
            v = [m.get("pp0", 0.0)]
            for k in range(1, n):
                v.append(v[-1] + m[f"dpp{k}"])
            t[c] = np.array(v)
        else:
            t[c] = np.array([m[f"{c.replace('-', '_')}{k}"] for k in range(n)])
    return t


def _names(n, cols):
    out = [f"p{k}" for k in range(n)] + ["pi", "q", "q1", "q2", "pf"]
    for c in cols:
        if c == "pseudopressure":
            out += ["pp0"] + [f"dpp{k}" for k in range(1, n)]
        elif c != "pressure":
            out += [f"{c.replace('-', '_')}{k}" for k in range(n)]
    return out


def replay_wrapper(model, n=3, cols=LONG, cls="FlowProperties", frame=False, descending=False, int_cols=()):
    import warnings
    import numpy as np
    import pandas as pd
    from bluebonnet.flow import flowproperties as fp
    names = _names(n, cols)
    m = model_floats(model, names, default={k: 1.0 for k in names})
    t = _real_table(m, n, cols)
    for c in int_cols:
        # whole numbers in an integer-typed column (a CSV of whole psi, np.arange(...)**2): rounded, kept strictly increasing
        if c in t:
            q = [max(int(round(t[c][0])), 1)]
            for v in t[c][1:]:
                q.append(max(int(round(v)), q[-1] + 1))
            t[c] = np.array(q, dtype="int64")
            if c == "pressure":
                for k in range(n):
                    m[f"p{k}"] = float(q[k])
    if descending:
        t = {k: v[::-1].copy() for k, v in t.items()}
    before = {k: v.copy() for k, v in t.items()}
    arg = (pd.DataFrame(t, index=list(range(n - 1, -1, -1))) if frame == "labelled" else pd.DataFrame(t)) if frame else t
    problems = []
    with warnings.catch_warnings():
        warnings.simplefilter("ignore")
        with np.errstate(all="ignore"):
            try:
                obj = getattr(fp, cls)(arg, m["pi"])
            except ValueError as ex:
                inside = m["p0"] <= m["pi"] <= m[f"p{n - 1}"]
                return inside, {"what": f"constructor raised {ex!r} for p_i {'inside' if inside else 'outside'} the table", "inputs": m}
            if not (m["p0"] <= m["pi"] <= m[f"p{n - 1}"]):
                return True, {"what": "initial pressure outside the table accepted", "inputs": m}
            f = obj.m_scaled_func
            lo, hi = m["p0"], m[f"p{n - 1}"]
            q1, q2 = sorted((min(max(m["q1"], lo), hi), min(max(m["q2"], lo), hi)))
            if q1 < q2 and not float(f(q1)) < float(f(q2)):
                problems.append(f"m_scaled_func not increasing: f({q1!r}) = {float(f(q1))!r}, f({q2!r}) = {float(f(q2))!r}")
            if abs(float(obj.m_i) - float(f(m["pi"]))) > 1e-12 * abs(float(obj.m_i)):
                problems.append(f"m_i = {float(obj.m_i)!r} but m_scaled_func(p_i) = {float(f(m['pi']))!r}")
            a = np.asarray(obj.pvt_props["alpha"], dtype=float)
            if "alpha" not in cols or cls == "FlowPropertiesSimple":
                want = 1 / (t["compressibility"] * t["viscosity"])
                if np.any(np.abs(a - want) > 1e-12 * np.abs(want)):
                    problems.append(f"alpha column {a.tolist()} != 1/(c mu) {want.tolist()}")
            if cls != "FlowPropertiesSimple" and "m-scaled" in obj.pvt_props:
                ms = np.asarray(obj.pvt_props["m-scaled"], dtype=float)
                got = np.asarray([float(obj.alpha(x)) for x in ms])
                if np.any(np.abs(got - a) > 1e-12 * np.abs(a)):
                    problems.append(f"alpha at the nodes' scaled pseudopressures {ms.tolist()} = {got.tolist()} but the alpha column is {a.tolist()} (p_i = {m['pi']!r})")
            try:
                v = float(obj.alpha(m["q"]))
            except Exception as ex:  # noqa: BLE001
                v = float("nan")
                problems.append(f"alpha({m['q']!r}) raised {ex!r}")
            if not np.isfinite(v) or v < a.min() * (1 - 1e-12) or v > a.max() * (1 + 1e-12):
                problems.append(f"alpha({m['q']!r}) = {v!r} outside the table's range [{a.min()!r}, {a.max()!r}]")
            if "alpha" in cols and cls != "FlowPropertiesSimple":
                mi = float(obj.m_i)
                node = any(abs(m["pi"] - m[f"p{k}"]) == 0 for k in range(n))
                if node and abs(mi - 1) > 1e-9:
                    problems.append(f"m_i = {mi!r} at a table node")
                if mi < 1 - 1e-9:
                    problems.append(f"m_i = {mi!r} < 1")
    if not problems and cls == "FlowProperties" and "alpha" not in cols and n >= 4:
        # a stress table on the model's pressures: diffusivity with a sharp step (an interpolant that overshoots between
        # nodes leaves the table's positive range there)
        st = {k: v.copy() for k, v in before.items()}
        half = n // 2
        st["compressibility"] = np.array([1e-3] * half + [5e-6] * (n - half))
        st["viscosity"] = np.full(n, 0.02)
        if descending:
            st = {k: (v if k in ("pressure", "pseudopressure", "z-factor") else v[::-1].copy()) for k, v in st.items()}
        with warnings.catch_warnings():
            warnings.simplefilter("ignore")
            with np.errstate(all="ignore"):
                try:
                    o2 = getattr(fp, cls)(pd.DataFrame(st) if frame else st, float(np.sort(st["pressure"])[half]))
                    a2 = np.asarray(o2.pvt_props["alpha"], float)
                    ms = np.sort(np.asarray(o2.pvt_props["m-scaled"], float))
                    qs = np.concatenate([(ms[:-1] + ms[1:]) / 2, ms[:-1] + 0.1 * np.diff(ms), ms[:-1] + 0.9 * np.diff(ms)])
                    vals = np.asarray(o2.alpha(qs), float)
                    if np.any(~np.isfinite(vals)) or vals.min() < a2.min() * (1 - 1e-9) or vals.max() > a2.max() * (1 + 1e-9):
                        problems.append(f"step-diffusivity table on the same pressures: lookups between nodes reach [{vals.min()!r}, {vals.max()!r}], "
                                        f"outside the table's range [{a2.min()!r}, {a2.max()!r}]")
                except ValueError as ex:
                    problems.append(f"step-diffusivity table on the same pressures: constructor raised {ex!r}")
    for k, v in before.items():
        if k not in t or not np.array_equal(t[k], v):
            problems.append(f"caller's column {k} modified")
    if set(t) != set(before):
        problems.append(f"caller's table keys changed to {sorted(t)}")
    return bool(problems), {"what": "; ".join(problems[:3]) or "wrapper behaves as required", "inputs": m}


def replay_rescale(model, n=3, frame=True):
    import numpy as np
    import pandas as pd
    from scipy.interpolate import interp1d
    from bluebonnet.flow import flowproperties as fp
    names = _names(n, ("pressure", "pseudopressure"))
    m = model_floats(model, names, default={k: 1.0 for k in names})
    t = _real_table(m, n, ("pressure", "pseudopressure"))
    arg = (pd.DataFrame(t, index=list(range(n - 1, -1, -1))) if frame == "labelled" else pd.DataFrame(t)) if frame else t
    before = {k: v.copy() for k, v in t.items()}
    try:
        out = fp.rescale_pseudopressure(arg, m["pf"], m["pi"])
    except Exception as ex:  # noqa: BLE001
        return True, {"what": f"rescale_pseudopressure raised {ex!r} on a {'DataFrame' if frame else 'dict'} table", "inputs": m}
    f = interp1d(np.asarray(out["pressure"], float), np.asarray(out["pseudopressure"], float))
    a, b = float(f(m["pf"])), float(f(m["pi"]))
    problems = []
    if abs(a) > 1e-9 or abs(b - 1) > 1e-9:
        problems.append(f"rescaled pseudopressure is {a!r} at p_frac and {b!r} at p_i")
    src = arg if not frame else {k: np.asarray(arg[k]) for k in before}
    for k, v in before.items():
        if not np.array_equal(np.asarray(src[k]), v):
            problems.append(f"caller's column {k} modified")
    return bool(problems), {"what": "; ".join(problems) or "rescale maps p_frac to 0 and p_i to 1", "inputs": m}


# ------------------------------------------------------------------ jobs

def job_wrapper(job, n, cols, cls, frame, descending=False, int_cols=()):
    mod = _load()
    job.encoded(mod, f"{cls}.__init__")
    job.stub("scipy.interpolate.interp1d: exact piecewise-linear model (searchsorted segment choice, fill values, "
             "bounds_error); warnings.warn: real")
    job.bound(table_rows=n)
    tab, ps, dom = _table(n, cols, frame=frame, descending=descending)
    for c in int_cols:
        if c in tab:
            tab[c] = SymArray(list(tab[c].d), "i8")
    if int_cols:
        job.bound(integer_columns=f"{list(int_cols)} hold whole numbers in int64 columns")
    pi = fresh("pi", pos=True)
    q, q1, q2 = fresh("q"), fresh("q1"), fresh("q2")
    dom = dom + [T.b_le(P(ps[0]), P(q1)), T.b_lt(P(q1), P(q2)), T.b_le(P(q2), P(ps[-1])), T.b_le(P(pi), T.Poly.const(40000))]
    snap = _snapshot(tab)
    tag = f"{cls}[{('labelled frame' if frame == 'labelled' else 'frame') if frame else 'dict'},{'alpha' if 'alpha' in cols else 'c-mu-z'},N={n}{',rows listed high to low' if descending else ''}{',int64 ' + '+'.join(int_cols) if int_cols else ''}]"
    rp = (replay_wrapper, {"n": n, "cols": list(cols), "cls": cls, "frame": frame, "descending": descending, "int_cols": list(int_cols)})
    C = getattr(mod, cls)
    import warnings

    def run():
        with warnings.catch_warnings():
            warnings.simplefilter("ignore")
            obj = C(tab, pi)
        changed = _unchanged(tab, snap)
        f = obj.m_scaled_func
        # the harness' own lookup at p_i must not stand in for the constructor's range check: if the constructor accepted
        # p_i and the transform cannot be evaluated there, that is recorded (fi = None), not treated as a rejection
        try:
            fi = f(pi)
        except ValueError:
            fi = None
        # the lookup at every table node (also the nodes above the initial pressure) returns that node's column value
        try:
            hold["at_nodes"] = [obj.alpha(x) for x in obj.pvt_props["m-scaled"].d] if cls != "FlowPropertiesSimple" else None
        except (KeyError, AttributeError, TypeError):
            hold["at_nodes"] = None
        return obj, f(q1), f(q2), fi, obj.alpha(q), changed

    hold = {}
    res = paths(job, run, dom, catch=(ValueError, SS.NonMonotoneAbscissae), max_paths=256)
    normal = 0
    inside = T.b_and(T.b_le(P(ps[0]), P(pi)), T.b_le(P(pi), P(ps[-1])))
    for k, pr in enumerate(res):
        if pr.exc is not None:
            if isinstance(pr.exc, SS.NonMonotoneAbscissae):
                job.prove(f"{tag}/scaled pseudopressure not monotone[path{k}]", pr.pc, bound=f"{n} rows", replay=rp)
            else:
                job.prove(f"{tag}/error only for p_i outside the table[path{k}]", pr.pc + [inside], bound=f"{n} rows", replay=rp,
                          note=str(pr.exc)[:80])
            continue
        normal += 1
        obj, f1, f2, fi, aq, changed = pr.value
        if changed:
            job.record(f"{tag}/caller's table untouched[path{k}]", "sat", 0.0, note=changed)
            ok, details = replay_wrapper({}, n=n, cols=cols, cls=cls, frame=frame, descending=descending, int_cols=int_cols)
            job._violation(f"{tag}/caller's table untouched[path{k}]", {}, dict(details, what=changed, replayer="replay_wrapper",
                           replayer_kwargs=rp[1]), None)
        else:
            job.record(f"{tag}/caller's table untouched[path{k}]", "unsat", 0.0, note="effect check on the path: same keys, same array objects, same elements")
        job.prove(f"{tag}/reach[path{k}]", pr.pc, expect="sat")
        job.prove(f"{tag}/accepted only for p_i inside the table[path{k}]", pr.pc + [T.b_not(inside)], bound=f"{n} rows", replay=rp)
        job.prove(f"{tag}/m_scaled_func strictly increasing[path{k}]", pr.pc + [T.b_le(P(f2), P(f1))], bound=f"{n} rows", replay=rp)
        if fi is None:
            continue          # p_i outside the table on this path: reported by the obligation above
        job.prove(f"{tag}/m_i==m_scaled_func(p_i)[path{k}]", pr.pc + [not_close(obj.m_i, fi)], bound=f"{n} rows", replay=rp)
        al = obj.pvt_props["alpha"].d
        lo, hi = al[0], al[0]
        bad_rng = []
        for a in al:
            bad_rng.append(T.b_lt(P(aq), P(a)))
        # alpha(q) within [min, max] of the column: not (aq < every a) and not (aq > every a)
        below = T.b_and(*[T.b_lt(P(aq), P(a)) for a in al])
        above = T.b_and(*[T.b_lt(P(a), P(aq)) for a in al])
        job.prove(f"{tag}/alpha(q) within the table's range for every real q[path{k}]", pr.pc + [T.b_or(below, above)],
                  bound=f"{n} rows, q unconstrained", replay=rp)
        job.prove(f"{tag}/alpha(q) positive[path{k}]", pr.pc + [T.b_le0(P(aq))], bound=f"{n} rows", replay=rp)
        if hold.get("at_nodes") is not None and len(hold["at_nodes"]) == len(al):
            job.prove(f"{tag}/alpha at every node's scaled pseudopressure is the node's value (also above p_i)[path{k}]",
                      pr.pc + [T.b_or(*[not_close(g, a, abs_tol=Fraction(0)) for g, a in zip(hold["at_nodes"], al)])], bound=f"{n} rows", replay=rp)
        if "alpha" not in cols or cls == "FlowPropertiesSimple":
            # the simple-liquid wrapper derives its diffusivity from c and mu whatever else the table carries
            cm = [T.b_not(T.b_eq0(T.p_sub(T.p_mul(P(a), P(c * mu)), T.ONE)))
                  for a, c, mu in zip(al, tab["compressibility"].d, tab["viscosity"].d)]
            job.prove(f"{tag}/alpha nodes == 1/(c mu)[path{k}]", pr.pc + [T.b_or(*cm)], bound=f"{n} rows", replay=rp)
        else:
            ms = obj.pvt_props["m-scaled"].d
            job.prove(f"{tag}/m_i>=1[path{k}]", pr.pc + [T.b_lt(P(obj.m_i), T.ONE)], bound=f"{n} rows", replay=rp)
            for j in range(n):
                job.prove(f"{tag}/m_i==1 at node {j}[path{k}]", pr.pc + [T.b_eq(P(pi), P(ps[j])), not_close(obj.m_i, Q(1))],
                          bound=f"{n} rows", replay=rp)
            pp = list(tab["pseudopressure"].d)
            if descending:
                pp.reverse()          # ps is the ascending list of the table's pressures
            for j in range(n - 1):
                # chord bound of linear interpolation on segment j: m_i <= (a+b)^2/(4ab)
                a, b = pp[j], pp[j + 1]
                seg = [T.b_le(P(ps[j]), P(pi)), T.b_le(P(pi), P(ps[j + 1]))]
                job.prove(f"{tag}/m_i within interpolation error on segment {j}[path{k}]",
                          pr.pc + seg + [T.b_lt(P((a + b) * (a + b)), P(4 * a * b * obj.m_i))], bound=f"{n} rows", replay=rp)
        seen = set()
        for cond, why in pr.ctx.defined:
            if cond.id in seen:
                continue
            seen.add(cond.id)
            job.prove(f"{tag}/finite[path{k}][{len(seen)}]", pr.pc + [T.b_not(cond)], bound=f"{n} rows", replay=rp, note=why[:90])
    if not normal:
        job.errors.append(f"{tag}: no path constructs the object")
    # translator validation on the shipped gas table cut to n rows
    import numpy as np
    import pandas as pd
    from bluebonnet.flow import flowproperties as fp
    if "alpha" not in cols and cls == "FlowProperties":
        csv = pd.read_csv(loader.REPO + "/tests/data/pvt_gas.csv").rename(columns={"P": "pressure", "Z-Factor": "z-factor", "Cg": "compressibility", "Viscosity": "viscosity"})
        idx = np.linspace(5, len(csv) - 1, n).astype(int)
        sub = csv.iloc[idx]
        env = {}
        for k in range(n):
            env[f"p{k}"] = float(sub["pressure"].iloc[k])
            for c in cols:
                if c not in ("pressure", "pseudopressure"):
                    env[f"{c.replace('-', '_')}{k}"] = float(sub[c].iloc[k])
        ppv = sub["pseudopressure"].to_numpy(float)
        env["pp0"] = float(ppv[0])
        for k in range(1, n):
            env[f"dpp{k}"] = float(ppv[k] - ppv[k - 1])
        env["pi"] = 0.5 * (env["p0"] + env[f"p{n - 1}"]) + 1.0
        env["q1"], env["q2"] = env["p0"] + 1.0, env[f"p{n - 1}"] - 1.0
        real = fp.FlowProperties({c: sub[c].to_numpy(float) for c in cols}, env["pi"])
        for pr in res:
            if pr.exc is not None:
                continue
            env["q"] = float(real.m_i) * 0.6
            try:
                if not all(T.evalf(c, env) for c in pr.pc):
                    continue
            except T.EvalError:
                continue
            obj, f1, f2, fi, aq, _ = pr.value
            job.validate("FlowProperties.m_i", evalf(obj.m_i, env), float(real.m_i), inputs=env)
            job.validate("FlowProperties.m_scaled_func", evalf(f1, env), float(real.m_scaled_func(env["q1"])), inputs=env)
            job.validate("FlowProperties.alpha", evalf(aq, env), float(real.alpha(env["q"])), inputs=env)
            break


def job_columns(job):
    """Every subset of the known columns: ValueError iff neither required set is present."""
    SS.selftest(job, job.seed)
    mod = _load()
    job.encoded(mod, "FlowProperties.__init__", "FlowPropertiesSimple.__init__")
    allc = sorted(set(LONG) | set(SHORT))
    import warnings
    n_sub = 0
    for r in range(len(allc) + 1):
        for sub in itertools.combinations(allc, r):
            n_sub += 1
            tab, ps, dom = _table(2, sub) if "pressure" in sub else ({c: SymArray([fresh(f"x_{c}_{k}", pos=True) for k in range(2)], "f8") for c in sub}, None, [])
            if "pressure" not in sub:
                tab.pop("pressure", None)
            need_ok = set(LONG) <= set(sub) or set(SHORT) <= set(sub)

            def run():
                with warnings.catch_warnings():
                    warnings.simplefilter("ignore")
                    return mod.FlowProperties(tab, ps[0] if ps else Q(1))

            res = paths(job, run, dom, catch=(ValueError, KeyError), max_paths=16)
            raised = [p for p in res if isinstance(p.exc, ValueError)]
            other = [p for p in res if p.exc is not None and not isinstance(p.exc, ValueError)]
            ok = (len(raised) == len(res)) if not need_ok else (len(raised) == 0 and not other)
            job.record(f"columns/FlowProperties{list(sub)}", "unsat" if ok else "sat", 0.0,
                       note=("requires an error" if not need_ok else "must construct") + f"; paths: {[type(p.exc).__name__ for p in res]}")
            if not ok:
                job._violation(f"columns/FlowProperties{list(sub)}", {}, {"what": f"columns {list(sub)}: " + ("accepted although a required column is missing" if not need_ok else "rejected although complete"),
                                                                          "replayer": "replay_columns", "replayer_kwargs": {"cols": list(sub), "cls": "FlowProperties"}}, None)
    simple = ("compressibility", "pressure", "viscosity")
    for r in range(len(simple) + 1):
        for sub in itertools.combinations(simple, r):
            n_sub += 1
            tab = {c: SymArray([fresh(f"y_{c}_{k}", pos=True) for k in range(2)], "f8") for c in sub}
            dom = [T.b_lt(P(tab["pressure"].d[0]), P(tab["pressure"].d[1]))] if "pressure" in sub else []
            res = paths(job, lambda: mod.FlowPropertiesSimple(tab, tab["pressure"].d[0] if "pressure" in sub else Q(1)), dom,
                        catch=(ValueError, KeyError), max_paths=16)
            raised = [p for p in res if isinstance(p.exc, ValueError)]
            need_ok = set(sub) == set(simple)
            ok = (len(raised) == len(res)) if not need_ok else not any(p.exc for p in res)
            job.record(f"columns/FlowPropertiesSimple{list(sub)}", "unsat" if ok else "sat", 0.0)
            if not ok:
                job._violation(f"columns/FlowPropertiesSimple{list(sub)}", {}, {"what": f"columns {list(sub)} mishandled", "replayer": "replay_columns",
                                                                                "replayer_kwargs": {"cols": list(sub), "cls": "FlowPropertiesSimple"}}, None)
    job.bound(column_subsets=n_sub)


def replay_columns(model, cols=(), cls="FlowProperties"):
    import warnings
    import numpy as np
    from bluebonnet.flow import flowproperties as fp
    t = {c: np.array([1.0, 2.0]) for c in cols}
    need = [set(LONG), set(SHORT)] if cls == "FlowProperties" else [{"compressibility", "pressure", "viscosity"}]
    need_ok = any(s <= set(cols) for s in need)
    try:
        with warnings.catch_warnings():
            warnings.simplefilter("ignore")
            getattr(fp, cls)(t, 1.5)
        raised = False
    except ValueError:
        raised = True
    except Exception as ex:  # noqa: BLE001
        return True, {"what": f"{cls}({list(cols)}) raised {ex!r} instead of ValueError"}
    return raised == need_ok, {"what": f"{cls}({list(cols)}): raised={raised}, complete={need_ok}"}


def job_rescale(job, n, frame):
    mod = _load()
    job.encoded(mod, "rescale_pseudopressure")
    tab, ps, dom = _table(n, ("pressure", "pseudopressure"), frame=frame)
    pf, pi = fresh("pf", pos=True), fresh("pi", pos=True)
    dom = dom + [T.b_le(P(ps[0]), P(pf)), T.b_lt(P(pf), P(pi)), T.b_le(P(pi), P(ps[-1]))]
    snap = _snapshot(tab)
    tag = f"rescale[{('labelled frame' if frame == 'labelled' else 'frame') if frame else 'dict'},N={n}]"
    rp = (replay_rescale, {"n": n, "frame": frame})

    def run():
        out = mod.rescale_pseudopressure(tab, pf, pi)
        f = SS.Interp1d(out["pressure"], out["pseudopressure"])
        return f(pf), f(pi), _unchanged(tab, snap)

    res = paths(job, run, dom, catch=(ValueError, AttributeError, KeyError, TypeError), max_paths=256)
    for k, pr in enumerate(res):
        if pr.exc is not None:
            job.prove(f"{tag}/raises {type(pr.exc).__name__}[path{k}]", pr.pc, bound=f"{n} rows", replay=rp, note=str(pr.exc)[:80])
            continue
        a, b, changed = pr.value
        job.prove(f"{tag}/p_frac->0[path{k}]", pr.pc + [not_close(a, Q(0), abs_tol=Fraction(1, 10**12))], bound=f"{n} rows", replay=rp)
        job.prove(f"{tag}/p_i->1[path{k}]", pr.pc + [not_close(b, Q(1))], bound=f"{n} rows", replay=rp)
        job.record(f"{tag}/caller's table untouched[path{k}]", "sat" if changed else "unsat", 0.0, note=changed or "effect check on the path")
        if changed:
            job._violation(f"{tag}/caller's table untouched[path{k}]", {}, {"what": changed, "replayer": "replay_rescale", "replayer_kwargs": rp[1]}, None)
    job.prove(f"{tag}/reach", res[0].pc if res else [T.b_const(False)], expect="sat")
    # an initial pressure above the table (or a frac-face pressure below it) is outside the table: an error, not a table
    # that merely looks rescaled
    for what, extra in (("p_i above the table", [T.b_le(P(ps[0]), P(pf)), T.b_le(P(pf), P(ps[-1])), T.b_lt(P(ps[-1]), P(pi))]),
                        ("p_frac below the table", [T.b_lt(P(pf), P(ps[0])), T.b_le(P(ps[0]), P(pi)), T.b_le(P(pi), P(ps[-1]))])):
        dom_out = [c for c in dom[:-3]] + extra
        rpo = (replay_rescale_outside, {"n": n, "frame": frame, "which": what})
        for k, pr in enumerate(paths(job, lambda: mod.rescale_pseudopressure(tab, pf, pi), dom_out, catch=(Exception,), max_paths=64)):
            if pr.exc is None:
                job.prove(f"{tag}/{what}: accepted[path{k}]", pr.pc, bound=f"{n} rows", replay=rpo)
            else:
                job.record(f"{tag}/{what}: raises {type(pr.exc).__name__}[path{k}]", "unsat", 0.0, note=str(pr.exc)[:60])


def replay_rescale_outside(model, n=3, frame=True, which="p_i above the table"):
    import numpy as np
    import pandas as pd
    from bluebonnet.flow import flowproperties as fp
    names = _names(n, ("pressure", "pseudopressure"))
    m = model_floats(model, names, default={k: 1.0 for k in names})
    t = _real_table(m, n, ("pressure", "pseudopressure"))
    lo, hi = float(t["pressure"][0]), float(t["pressure"][-1])
    cases = [(0.5 * (lo + hi), hi * (1 + 1e-9)), (0.5 * (lo + hi), hi + 100.0)] if which.startswith("p_i") else [(lo * (1 - 1e-9), hi), (0.5 * lo, hi)]
    for pf_, pi_ in cases:
        arg = pd.DataFrame(t) if frame else {k: v.copy() for k, v in t.items()}
        try:
            fp.rescale_pseudopressure(arg, pf_, pi_)
        except Exception:  # noqa: BLE001
            continue
        return True, {"what": f"rescale_pseudopressure accepted p_frac={pf_!r}, p_i={pi_!r} on a table spanning [{lo!r}, {hi!r}] psia", "inputs": m}
    return False, {"what": "pressures outside the table are rejected", "inputs": m}


from .c15 import job_table as _c15_job_table, replay_table_untouched  # noqa: E402,F401  (construction through FlowPropertiesTwoPhase.from_table)


# concrete replays run on the real code when the changed code uses something the engine does not model (harness.finish)
FALLBACK = [(replay_wrapper, {}), (replay_wrapper, {"frame": True}), (replay_wrapper, {"descending": True}), (replay_wrapper, {"cols": list(SHORT)}), (replay_rescale, {}), (replay_rescale, {"frame": False}), (replay_columns, {}), (replay_table_untouched, {})]


def jobs(tier):
    ns = (3,) if tier == "quick" else (3, 4, 5)
    out = []
    for n in ns:
        out.append((f"long-dict-{n}", lambda j, n=n: job_wrapper(j, n, LONG, "FlowProperties", False)))
        out.append((f"alpha-dict-{n}", lambda j, n=n: job_wrapper(j, n, SHORT, "FlowProperties", False)))
        out.append((f"simple-dict-{n}", lambda j, n=n: job_wrapper(j, n, ("pressure", "compressibility", "viscosity"), "FlowPropertiesSimple", False)))
    out.append(("long-frame-3", lambda j: job_wrapper(j, 3, LONG, "FlowProperties", True)))
    out.append(("columns", job_columns))
    out.append(("rescale-frame", lambda j: job_rescale(j, 3, True)))
    out.append(("simple-dict-3-with-alpha-column", lambda j: job_wrapper(j, 3, ("pressure", "compressibility", "viscosity", "alpha"), "FlowPropertiesSimple", False)))
    out.append(("long-dict-3-with-alpha-column", lambda j: job_wrapper(j, 3, LONG + ("alpha",), "FlowProperties", False)))
    out.append(("long-dict-3-descending", lambda j: job_wrapper(j, 3, LONG, "FlowProperties", False, True)))
    out.append(("alpha-dict-3-descending", lambda j: job_wrapper(j, 3, SHORT, "FlowProperties", False, True)))
    out.append(("simple-dict-3-descending", lambda j: job_wrapper(j, 3, ("pressure", "compressibility", "viscosity"), "FlowPropertiesSimple", False, True)))
    out.append(("long-dict-3-int-pressure-pseudopressure", lambda j: job_wrapper(j, 3, LONG, "FlowProperties", False, False, ("pressure", "pseudopressure"))))
    out.append(("alpha-dict-3-int-pressure-pseudopressure", lambda j: job_wrapper(j, 3, SHORT, "FlowProperties", False, False, ("pressure", "pseudopressure"))))
    out.append(("two-phase-from-table-leaves-tables-alone", lambda j: _c15_job_table(j, 3, 1, effects_only=True)))
    out.append(("long-labelled-frame-3", lambda j: job_wrapper(j, 3, LONG, "FlowProperties", "labelled")))
    out.append(("alpha-labelled-frame-3", lambda j: job_wrapper(j, 3, SHORT, "FlowProperties", "labelled")))
    out.append(("rescale-labelled-frame", lambda j: job_rescale(j, 3, "labelled")))
    out.append(("rescale-dict", lambda j: job_rescale(j, 3, False)))
    return out
