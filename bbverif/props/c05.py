"""C05 - forecast scaling law, bounded fitting and parameter round-trip.

`forecast.Bounds`, `ForecasterOnePhase.forecast_cum/fit` and `_forecast_cum_onephase` are executed
symbolically; the recovery curve is an uninterpreted function, `curve_fit` a contract stub (raises if
p0 is outside the bounds it is given, otherwise returns parameters inside them; records what it was
handed).  That TRF finds the least-squares optimum / the numerical round trip of (M, tau) is outside
the claim (iterative FFI code).
"""
from __future__ import annotations

import math
from fractions import Fraction

from ..sx import terms as T
from ..shims import scipy_shim as SS
from ..shims.np_shim import SymArray
from .common import (P, box, evalf, load_sym, model_floats, not_close, paths, rng, K, Q, Sym, lift, simp, fresh)
from .c13 import _uf


def _load():
    return load_sym("bluebonnet.forecast.forecast", **SS.rebind())


def _rf_real(x):
    import numpy as np
    return 1 - np.exp(-np.sqrt(np.maximum(x, 0)) - 0.3 * x)


def replay_scaling(model, n=2, partial=False):
    import numpy as np
    from bluebonnet.forecast import ForecasterOnePhase
    if partial:
        m = model_floats(model, ["M", "tau", "M2", "tau2"] + [f"t{k}" for k in range(n)], default=dict(M=1000.0, tau=300.0, M2=2500.0, tau2=120.0, **{f"t{k}": 50.0 * (k + 1) for k in range(n)}))
        if m["M2"] == m["M"]:
            m["M2"] = 2.5 * m["M"]
        if m["tau2"] == m["tau"]:
            m["tau2"] = 0.4 * m["tau"]
        f = ForecasterOnePhase(_rf_real)
        f.M_, f.tau_ = m["M"], m["tau"]
        t = np.array([m[f"t{k}"] for k in range(n)])
        a, b = np.asarray(f.forecast_cum(t, M=m["M2"]), float), np.asarray(f.forecast_cum(t, tau=m["tau2"]), float)
        wa, wb = m["M2"] * _rf_real(t / m["tau"]), m["M"] * _rf_real(t / m["tau2"])
        bad = bool(np.any(np.abs(a - wa) > 1e-9 * np.abs(wa)) or np.any(np.abs(b - wb) > 1e-9 * np.abs(wb)))
        return bad, {"what": f"fitted forecaster (M_={m['M']!r}, tau_={m['tau']!r}): forecast_cum(t, M={m['M2']!r}) = {a.tolist()} vs {wa.tolist()}; "
                             f"forecast_cum(t, tau={m['tau2']!r}) = {b.tolist()} vs {wb.tolist()}", "inputs": m}
    m = model_floats(model, ["M", "tau", "c"] + [f"t{k}" for k in range(n)], default=dict(M=1000.0, tau=300.0, c=3.0, **{f"t{k}": 50.0 * (k + 1) for k in range(n)}))
    f = ForecasterOnePhase(_rf_real)
    t = np.array([m[f"t{k}"] for k in range(n)])
    # the end of the scale: M = 0 (a well that produces nothing) gives zero production, on a fresh forecaster and on a
    # fitted one alike (linearity in M includes the factor 0)
    for fitted in (False, True):
        g = ForecasterOnePhase(_rf_real)
        if fitted:
            g.M_, g.tau_ = 227.0, 140.0
        try:
            z = np.asarray(g.forecast_cum(t, 0.0, m["tau"] or 300.0), float)
        except Exception as ex:  # noqa: BLE001
            return True, {"what": f"forecast_cum(t, M=0.0, tau) on a {'fitted' if fitted else 'fresh'} forecaster raised {ex!r}", "inputs": m}
        if np.any(z != 0):
            return True, {"what": f"forecast_cum(t, M=0.0, tau) on a {'fitted' if fitted else 'fresh'} forecaster = {z.tolist()} (must be zero)", "inputs": m}
    a = f.forecast_cum(t, m["M"], m["tau"])
    b = f.forecast_cum(t, m["c"] * m["M"], m["tau"])
    c = f.forecast_cum(m["c"] * t, m["M"], m["c"] * m["tau"])
    bad = bool(np.any(np.abs(b - m["c"] * a) > 1e-9 * np.abs(b)) or np.any(np.abs(c - a) > 1e-9 * np.abs(a)))
    return bad, {"what": f"forecast_cum: c*M scaling {b.tolist()} vs {(m['c'] * a).tolist()}; joint time/tau scaling {c.tolist()} vs {a.tolist()}", "inputs": m}


def replay_bounds(model, lm=2, lt=2):
    from bluebonnet.forecast import Bounds
    names = [f"M{k}" for k in range(lm)] + [f"tau{k}" for k in range(lt)]
    m = model_floats(model, names, default={k: float(i) for i, k in enumerate(names)})
    M = tuple(m[f"M{k}"] for k in range(lm))
    tau = tuple(m[f"tau{k}"] for k in range(lt))
    should = lm != 2 or lt != 2 or M[0] >= M[1] or tau[0] >= tau[1]
    try:
        Bounds(M=M, tau=tau)
        raised = False
    except ValueError:
        raised = True
    return raised != should, {"what": f"Bounds(M={M}, tau={tau}): raised={raised}, malformed={should}", "inputs": m}


def replay_regularize(model, two=True, inf_hi=False):
    from bluebonnet.forecast import Bounds
    m = model_floats(model, ["M0", "M1", "tau0", "tau1", "g0", "g1"], default=dict(M0=0.0, M1=10.0, tau0=1.0, tau1=5.0, g0=20.0, g1=0.0))
    if inf_hi:
        m["M1"] = m["tau1"] = math.inf
    b = Bounds(M=(m["M0"], m["M1"]), tau=(m["tau0"], m["tau1"]))
    g = b.regularize_initial_guess([m["g0"], m["g1"]] if two else [m["g0"]])
    bad = not (m["M0"] <= g[0] <= m["M1"]) or (two and not (m["tau0"] <= g[1] <= m["tau1"])) or not all(math.isfinite(x) for x in g)
    return bad, {"what": f"regularize_initial_guess -> {g} for bounds M=({m['M0']}, {m['M1']}), tau=({m['tau0']}, {m['tau1']})", "inputs": m}


def replay_fit(model, with_tau=False, inf_hi=False, rebound=False):
    import numpy as np
    from bluebonnet.forecast import Bounds, ForecasterOnePhase
    m = model_floats(model, ["M0", "M1", "tau0", "tau1", "tau_in"], default=dict(M0=10.0, M1=5000.0, tau0=20.0, tau1=900.0, tau_in=250.0))
    t = np.linspace(1, 600, 60)
    cum = 1234.0 * _rf_real(t / 321.0)
    if inf_hi:
        # raised lower limits with unbounded upper limits: the automatic guess (2 x last cumulative, 5 x last time) lies below them
        m["M1"] = m["tau1"] = math.inf
        m["M0"] = max(m["M0"], 2.0 * float(cum[-1]) + 100.0)
        m["tau0"] = max(m["tau0"], 5.0 * float(t[-1]) + 100.0)
    f = ForecasterOnePhase(_rf_real, Bounds(M=(m["M0"], m["M1"]), tau=(m["tau0"], m["tau1"])))
    if rebound:
        # the forecaster was built with wide default-like bounds; narrower ones that exclude the generating parameters
        # (M = 1234, tau = 321) are assigned to its public `bounds` field before the fit
        f = ForecasterOnePhase(_rf_real, Bounds(M=(0.0, 1e6), tau=(1e-3, 1e5)))
        m.update(M0=10.0, M1=900.0, tau0=20.0, tau1=200.0)
        f.bounds = Bounds(M=(m["M0"], m["M1"]), tau=(m["tau0"], m["tau1"]))
    try:
        f.fit(t, cum, tau=m["tau_in"] if with_tau else None)
    except Exception as ex:  # noqa: BLE001
        return True, {"what": f"fit raised {ex!r}", "inputs": m}
    problems = []
    if not (m["M0"] <= f.M_ <= m["M1"]):
        problems.append(f"M_ = {f.M_!r} outside [{m['M0']}, {m['M1']}]")
    if with_tau and f.tau_ != m["tau_in"]:
        problems.append(f"supplied tau {m['tau_in']!r} returned as {f.tau_!r}")
    if not with_tau and not (m["tau0"] <= f.tau_ <= m["tau1"]):
        problems.append(f"tau_ = {f.tau_!r} outside [{m['tau0']}, {m['tau1']}]")
    return bool(problems), {"what": "; ".join(problems) or "fit stays inside the bounds", "inputs": m}


def replay_lsq(model, with_tau=True):
    """'M the bounded least-squares optimum': with tau supplied the optimum is closed-form, M* = sum(q f)/sum(f f) with
    f = rf(t/tau), clipped to the M bounds.  Data generated with another tau and a few mis-reported samples, so that the
    residual at the optimum is not zero and the kind of loss matters.  With tau fitted the library's result is compared
    with scipy's plain curve_fit on the same problem (sum of squares not larger)."""
    import numpy as np
    from scipy.optimize import curve_fit as cf
    from bluebonnet.forecast import Bounds, ForecasterOnePhase
    t = np.linspace(5.0, 900.0, 40)
    q = 1234.0 * _rf_real(t / 321.0)
    q[5::7] *= 0.6
    problems = []
    for tau_in, (M0, M1) in ((120.0, (10.0, 1e5)), (800.0, (10.0, 1e5)), (321.0, (10.0, 1e5)), (120.0, (1500.0, 1e5))):
        f = ForecasterOnePhase(_rf_real, Bounds(M=(M0, M1), tau=(20.0, 5000.0)))
        if with_tau:
            f.fit(t, q, tau=tau_in)
            g = _rf_real(t / tau_in)
            want = float(np.clip(np.dot(q, g) / np.dot(g, g), M0, M1))
            if abs(f.M_ - want) > 1e-6 * want:
                problems.append(f"tau={tau_in} supplied, M bounds ({M0}, {M1}): M_ = {f.M_!r}, bounded least-squares optimum {want!r}")
        else:
            f.fit(t, q)
            ref, _ = cf(lambda tt, M, tau: M * _rf_real(tt / tau), t, q, [q[-1] * 2, t[-1] * 5], bounds=((M0, 20.0), (M1, 5000.0)))
            sse = lambda M, tau: float(np.sum((M * _rf_real(t / tau) - q) ** 2))
            if sse(f.M_, f.tau_) > sse(*ref) * (1 + 1e-6):
                problems.append(f"tau fitted, M bounds ({M0}, {M1}): sum of squares {sse(f.M_, f.tau_)!r} at (M_, tau_) = ({f.M_!r}, {f.tau_!r}) vs {sse(*ref)!r} "
                                f"at scipy's plain least-squares fit {ref.tolist()}")
    return bool(problems), {"what": "; ".join(problems[:2]) or "fit is the bounded least-squares optimum", "inputs": {}}


def job_scaling(job, n):
    mod = _load()
    job.encoded(mod, "ForecasterOnePhase.forecast_cum", "_forecast_cum_onephase")
    job.stub("rf_curve: uninterpreted function of scaled time")
    job.bound(forecast_array_length=n)
    rf = _uf("rf", pos=False)
    vs, dom = box(None, M=(0, None), tau=("1e-10", None), c=("1e-6", None))
    ts = [fresh(f"t{k}") for k in range(n)]
    t = SymArray(ts, "f8")
    f = mod.ForecasterOnePhase(rf)
    rp = (replay_scaling, {"n": n})
    for k, pr in enumerate(paths(job, lambda: (f.forecast_cum(t, vs["M"], vs["tau"]), f.forecast_cum(t, vs["c"] * vs["M"], vs["tau"]),
                                                 f.forecast_cum(t * vs["c"], vs["M"], vs["c"] * vs["tau"])), dom, catch=(Exception,))):
        if pr.exc is not None:
            job.prove(f"scaling[{n}]/forecast_cum raises {type(pr.exc).__name__} on admissible arguments[path{k}]", pr.pc, bound=f"{n} times", replay=rp, note=repr(pr.exc)[:100])
            continue
        a, b, c = pr.value
        job.prove(f"scaling[{n}]/forecast_cum == M * rf(t / tau)", pr.pc + [T.b_or(*[not_close(a.d[j], vs["M"] * rf(ts[j] / vs["tau"]), abs_tol=Fraction(0)) for j in range(n)])],
                  bound=f"{n} times", replay=rp)
        job.prove(f"scaling[{n}]/linear in M", pr.pc + [T.b_or(*[not_close(b.d[j], vs["c"] * a.d[j], abs_tol=Fraction(0)) for j in range(n)])], bound=f"{n} times", replay=rp)
        job.prove(f"scaling[{n}]/unchanged when time and tau are rescaled together", pr.pc + [T.b_or(*[not_close(c.d[j], a.d[j], abs_tol=Fraction(0)) for j in range(n)])],
                  bound=f"{n} times", replay=rp)
        job.prove(f"scaling[{n}]/reach", pr.pc, expect="sat")
    # defaults M_, tau_
    f.M_, f.tau_ = vs["M"], vs["tau"]
    for k, pr in enumerate(paths(job, lambda: f.forecast_cum(t), dom)):
        job.prove(f"scaling[{n}]/defaults are the fitted M_, tau_", pr.pc + [T.b_or(*[not_close(pr.value.d[j], vs["M"] * rf(ts[j] / vs["tau"]), abs_tol=Fraction(0)) for j in range(n)])],
                  bound=f"{n} times", replay=rp)
    # ... each default on its own: overriding only M (or only tau) on a fitted forecaster keeps the other fitted value
    M2, tau2 = fresh("M2", pos=True), fresh("tau2", pos=True)
    rp1 = (replay_scaling, {"n": n, "partial": True})
    for k, pr in enumerate(paths(job, lambda: (f.forecast_cum(t, M=M2), f.forecast_cum(t, tau=tau2)), dom)):
        a, b = pr.value
        job.prove(f"scaling[{n}]/only M supplied: M * rf(t / fitted tau_)", pr.pc + [T.b_or(*[not_close(a.d[j], M2 * rf(ts[j] / vs["tau"]), abs_tol=Fraction(0)) for j in range(n)])],
                  bound=f"{n} times", replay=rp1)
        job.prove(f"scaling[{n}]/only tau supplied: fitted M_ * rf(t / tau)", pr.pc + [T.b_or(*[not_close(b.d[j], vs["M"] * rf(ts[j] / tau2), abs_tol=Fraction(0)) for j in range(n)])],
                  bound=f"{n} times", replay=rp1)


def job_bounds(job):
    mod = _load()
    job.encoded(mod, "Bounds.__post_init__", "Bounds.regularize_initial_guess", "Bounds.fit_bounds")
    for lm in (1, 2, 3):
        for lt in (1, 2, 3):
            M = tuple(fresh(f"M{k}") for k in range(lm))
            tau = tuple(fresh(f"tau{k}") for k in range(lt))
            res = paths(job, lambda: mod.Bounds(M=M, tau=tau), [], catch=(ValueError,))
            rp = (replay_bounds, {"lm": lm, "lt": lt})
            for k, pr in enumerate(res):
                malformed = T.b_const(True) if (lm != 2 or lt != 2) else T.b_or(T.b_le(P(M[1]), P(M[0])), T.b_le(P(tau[1]), P(tau[0])))
                if pr.exc is not None:
                    job.prove(f"Bounds[{lm},{lt}]/rejected only if malformed[path{k}]", pr.pc + [T.b_not(malformed)], bound="any values", replay=rp)
                else:
                    job.prove(f"Bounds[{lm},{lt}]/accepted only if well-formed[path{k}]", pr.pc + [malformed], bound="any values", replay=rp)
    # regularisation of the initial guess
    for two in (True, False):
        for inf_hi in (False, True):
            M0, tau0 = fresh("M0"), fresh("tau0")
            M1 = math.inf if inf_hi else fresh("M1")
            tau1 = math.inf if inf_hi else fresh("tau1")
            g0, g1 = fresh("g0"), fresh("g1")
            dom = [] if inf_hi else [T.b_lt(P(M0), P(M1)), T.b_lt(P(tau0), P(tau1))]
            res = paths(job, lambda: mod.Bounds(M=(M0, M1), tau=(tau0, tau1)).regularize_initial_guess([g0, g1] if two else [g0]), dom, catch=(ValueError,))
            for k, pr in enumerate(res):
                if pr.exc is not None:
                    job.prove(f"regularize[two={two},inf={inf_hi}]/raises[path{k}]", pr.pc, bound="any guess", replay=(replay_regularize, {"two": two}))
                    continue
                g = pr.value
                if any(isinstance(x, float) and (math.isinf(x) or math.isnan(x)) for x in g):
                    # a non-finite starting point is inside no interval a fit can start from (curve_fit refuses it)
                    job.prove(f"regularize[two={two},inf={inf_hi}]/guess is finite[path{k}]: returned {g!r}", pr.pc, bound="any guess, half-infinite bounds",
                              replay=(replay_regularize, {"two": two, "inf_hi": inf_hi}))
                    continue
                bad = [T.b_lt(P(g[0]), P(M0))] + ([] if inf_hi else [T.b_lt(P(M1), P(g[0]))])
                if two:
                    bad += [T.b_lt(P(g[1]), P(tau0))] + ([] if inf_hi else [T.b_lt(P(tau1), P(g[1]))])
                job.prove(f"regularize[two={two},inf={inf_hi}]/guess moved inside the bounds[path{k}]", pr.pc + [T.b_or(*bad)], bound="any guess, any finite bounds",
                          replay=(replay_regularize, {"two": two, "inf_hi": inf_hi}))
                if len(g) != (2 if two else 1):
                    job.errors.append("regularize changed the length of the guess")


def job_fit(job, n, inf_hi=False, rebound=False):
    mod = _load()
    job.encoded(mod, "ForecasterOnePhase.fit", "Bounds.fit_bounds", "Bounds.regularize_initial_guess")
    job.stub("scipy.optimize.curve_fit: contract stub (ValueError if p0 is outside the bounds handed over, else popt inside them; "
             "model closure, p0 and bounds recorded)")
    rf = _uf("rf", pos=False)
    vs, dom = box(None, M0=(0, None), tau0=("1e-10", None))
    if inf_hi:
        M1 = tau1 = math.inf            # the library's default bounds are of this shape
    else:
        M1, tau1 = fresh("M1"), fresh("tau1")
        dom += [T.b_lt(P(vs["M0"]), P(M1)), T.b_lt(P(vs["tau0"]), P(tau1))]
    ts = [fresh(f"t{k}", pos=True) for k in range(n)]
    cs = [fresh(f"q{k}") for k in range(n)]
    tau_in = fresh("tau_in", pos=True)
    for with_tau in (False, True):
        def run():
            SS.OptCalls.reset()
            SS.reset_names()
            f = mod.ForecasterOnePhase(rf, mod.Bounds(M=(vs["M0"], M1), tau=(vs["tau0"], tau1)))
            if rebound:
                # built with other bounds; the configured ones are assigned to the public `bounds` field afterwards
                f = mod.ForecasterOnePhase(rf, mod.Bounds(M=(fresh("M0_old", pos=True), fresh("M0_old", pos=True) + fresh("dM_old", pos=True)),
                                                          tau=(fresh("tau0_old", pos=True), fresh("tau0_old", pos=True) + fresh("dtau_old", pos=True))))
                f.bounds = mod.Bounds(M=(vs["M0"], M1), tau=(vs["tau0"], tau1))
            f.fit(SymArray(ts, "f8"), SymArray(cs, "f8"), tau=tau_in if with_tau else None)
            return f, list(SS.OptCalls.curve_fit)
        rp = (replay_fit, {"with_tau": with_tau, "inf_hi": inf_hi, "rebound": rebound})
        tag = ("tau supplied" if with_tau else "tau fitted") + (", half-infinite bounds" if inf_hi else "") + (", bounds assigned after construction" if rebound else "")
        for k, pr in enumerate(paths(job, run, dom, catch=(ValueError,), max_paths=64)):
            if pr.exc is not None:
                job.prove(f"fit[{tag}]/raises (initial guess outside the bounds handed to curve_fit?)[path{k}]", pr.pc, bound=f"{n} samples", replay=rp, note=str(pr.exc)[:60])
                continue
            f, calls = pr.value
            inside = [T.b_lt(P(f.M_), P(vs["M0"]))] + ([] if inf_hi else [T.b_lt(P(M1), P(f.M_))])
            if with_tau:
                inside.append(T.b_not(T.b_eq0(P(f.tau_ - tau_in))))
            else:
                inside += [T.b_lt(P(f.tau_), P(vs["tau0"]))] + ([] if inf_hi else [T.b_lt(P(tau1), P(f.tau_))])
            if not calls:
                # this path fits without the optimiser (a closed form, a shortcut): what it returns must still respect the
                # configured bounds; whether it is the bounded least-squares optimum is decided by the replay on the real code
                job.prove(f"fit[{tag}]/fitted M_, tau_ inside the configured bounds" + (" and supplied tau unchanged" if with_tau else "") + f" (no optimiser call on this path)[path{k}]",
                          pr.pc + [T.b_or(*inside)], bound=f"{n} samples", replay=(replay_lsq, {"with_tau": with_tau}))
                job.prove(f"fit[{tag}]/reach[path{k}]", pr.pc, expect="sat")
                continue
            c = calls[0]
            def same(a, b):
                if isinstance(a, float) or isinstance(b, float):
                    return T.b_const(isinstance(a, float) and isinstance(b, float) and a == b)
                return T.b_eq(P(a), P(b))
            lo_ok = [same(c["lo"][0], vs["M0"]), same(c["hi"][0], M1)]
            if not with_tau:
                lo_ok += [same(c["lo"][1], vs["tau0"]), same(c["hi"][1], tau1)]
            job.prove(f"fit[{tag}]/bounds handed to curve_fit are the configured ones in its order[path{k}]", pr.pc + [T.b_not(T.b_and(*lo_ok))], bound=f"{n} samples", replay=rp)
            job.prove(f"fit[{tag}]/fitted M_, tau_ inside the configured bounds" + (" and supplied tau unchanged" if with_tau else "") + f"[path{k}]",
                      pr.pc + [T.b_or(*inside)], bound=f"{n} samples", replay=rp)
            # the optimiser is asked for the plain problem: unweighted residuals, linear loss (scipy's defaults); anything else
            # (sigma, loss=..., f_scale=...) minimises another functional and M is no longer the least-squares optimum
            # only arguments that change the functional being minimised count (solver choices such as method, ftol,
            # max_nfev, x_scale do not): a non-linear loss (with its f_scale) and residual weights
            odd = {}
            if c["kw"].get("loss", "linear") not in ("linear", None):
                odd["loss"] = c["kw"]["loss"]
                if "f_scale" in c["kw"]:
                    odd["f_scale"] = "given"
            if c["sigma"] is not None:
                odd["sigma"] = "given"
            if odd:
                job._violation(f"fit[{tag}]/optimiser asked for plain least squares[path{k}]", {},
                               {"what": f"curve_fit called with {sorted(odd)}", "replayer": "replay_lsq", "replayer_kwargs": {"with_tau": with_tau}}, None)
            else:
                job.record(f"fit[{tag}]/optimiser asked for plain least squares[path{k}]", "unsat", 0.0, note="no sigma / loss / f_scale / extra least_squares options")
            # the model closure handed to curve_fit
            Mq, tq = fresh("Mq", pos=True), fresh("tq", pos=True)
            tarr = SymArray(ts, "f8")
            got = c["f"](tarr, Mq) if with_tau else c["f"](tarr, Mq, tq)
            want = [Mq * rf(ts[j] / (tau_in if with_tau else tq)) for j in range(n)]
            job.prove(f"fit[{tag}]/model handed to curve_fit is M * rf(t / tau)[path{k}]",
                      pr.pc + [T.b_or(*[not_close(got.d[j], want[j], abs_tol=Fraction(0)) for j in range(n)])], bound=f"{n} samples", replay=rp)
            job.prove(f"fit[{tag}]/reach[path{k}]", pr.pc, expect="sat")


def replay_refit(model, with_tau=False):
    """Round trip on a forecaster that has been fitted before (real curve_fit): noise-free data generated from the
    curve, window up to 2 tau, earlier fits on much shorter / longer time scales.  A violation is a round trip that a
    fresh forecaster makes and the re-used one does not."""
    import numpy as np
    from bluebonnet.forecast import ForecasterOnePhase

    def rf(ts):
        ts = np.atleast_1d(np.asarray(ts, float))
        k = ((2 * np.arange(200) + 1) ** 2 * np.pi ** 2 / 4)[:, None]
        return 1 - np.sum(2 / k * np.exp(-k * np.maximum(ts, 0.0)[None, :]), 0)
    problems = []
    for seq in ([(300.0, 1.0), (300.0, 365.0)], [(300.0, 3.0), (5e4, 3000.0)], [(10.0, 0.5), (2e3, 4e3), (7.0, 40.0)], [(50.0, 2000.0), (50.0, 2.0)]):
        shared = ForecasterOnePhase(rf)
        for M, tau in seq:
            t = np.linspace(0.0, 2.0 * tau, 60)
            cum = M * rf(t / tau)
            out = {}
            for label, fc in (("fresh", ForecasterOnePhase(rf)), ("re-used", shared)):
                try:
                    fc.fit(t, cum, tau=tau if with_tau else None)
                    out[label] = (bool(np.isclose(fc.M_, M, rtol=1e-4) and np.isclose(fc.tau_, tau, rtol=1e-4)), f"M_={fc.M_:.6g}, tau_={fc.tau_:.6g}")
                except Exception as ex:  # noqa: BLE001
                    out[label] = (False, f"raised {type(ex).__name__}")
            if out["fresh"][0] and not out["re-used"][0]:
                problems.append(f"true M={M:g}, tau={tau:g} after earlier fits {seq[:seq.index((M, tau))]}: fresh forecaster {out['fresh'][1]}, re-used one {out['re-used'][1]}")
    return bool(problems), {"what": "noise-free round trip on a re-used forecaster: " + ("; ".join(problems[:2]) or "recovers M and tau like a fresh one"), "inputs": {}}


def job_refit(job, n):
    """A second fit on the same forecaster hands curve_fit the problem a fresh forecaster would hand over (start point,
    bounds, data, model): under a deterministic optimiser the round trip of the second data set is then the round trip
    of a fresh object, whatever was fitted before.  When the problems differ, the real round trip decides (replay)."""
    mod = _load()
    job.encoded(mod, "ForecasterOnePhase.fit")
    job.stub("scipy.optimize.curve_fit: contract stub, every call recorded")
    job.bound(refit="two fits on one object, two data sets of %d samples, tau fitted or supplied" % n)
    rf = _uf("rf", pos=False)
    vs, dom = box(None, M0=(0, None), tau0=("1e-10", None))
    M1, tau1 = fresh("M1"), fresh("tau1")
    dom += [T.b_lt(P(vs["M0"]), P(M1)), T.b_lt(P(vs["tau0"]), P(tau1))]
    data = {w: (SymArray([fresh(f"t{w}{k}", pos=True) for k in range(n)], "f8"), SymArray([fresh(f"q{w}{k}") for k in range(n)], "f8")) for w in "AB"}
    tau_in = {w: fresh(f"tau_in{w}", pos=True) for w in "AB"}
    for first_tau, second_tau in ((False, False), (True, False), (False, True)):
        def run():
            SS.OptCalls.reset()
            SS.reset_names()
            mk = lambda: mod.ForecasterOnePhase(rf, mod.Bounds(M=(vs["M0"], M1), tau=(vs["tau0"], tau1)))
            f = mk()
            f.fit(*data["A"], tau=tau_in["A"] if first_tau else None)
            n1 = len(SS.OptCalls.curve_fit)
            f.fit(*data["B"], tau=tau_in["B"] if second_tau else None)
            n2 = len(SS.OptCalls.curve_fit)
            g = mk()
            g.fit(*data["B"], tau=tau_in["B"] if second_tau else None)
            return list(SS.OptCalls.curve_fit), (n1, n2), (f.M_, f.tau_), (g.M_, g.tau_)
        tag = f"refit[first {'with' if first_tau else 'without'} tau, second {'with' if second_tau else 'without'} tau]"
        rp = (replay_refit, {"with_tau": second_tau})
        for k, pr in enumerate(paths(job, run, dom, catch=(ValueError,), max_paths=256)):
            if pr.exc is not None:
                continue        # an initial guess outside the bounds: job_fit's subject
            calls, (n1, n2), fout, gout = pr.value
            if len(calls) - n2 != 1 or n2 - n1 != 1:
                # the second fit (re-used or fresh object) did not go through exactly one optimiser call each: compare what the
                # two objects report instead
                differ = T.b_or(*[T.b_not(T.b_eq0(T.p_sub(P(x), P(y)))) for x, y in zip(fout, gout)])
                if differ.kind == "const" and not differ.args[0]:
                    job.record(f"{tag}/re-used and fresh forecaster report the same fit (no single optimiser call to compare)[path{k}]", "unsat", 0.0, bound=f"{n} samples")
                else:
                    job.prove(f"{tag}/re-used and fresh forecaster report the same fit (no single optimiser call to compare)[path{k}]", pr.pc + [differ], bound=f"{n} samples",
                              replay=rp, expect="info")
                continue
            a, b = calls[n1], calls[n2]
            diff = []
            for key in ("p0", "lo", "hi"):
                if len(a[key]) != len(b[key]):
                    diff.append(T.b_const(True))
                    continue
                for x, y in zip(a[key], b[key]):
                    if isinstance(x, float) or isinstance(y, float):
                        if not (isinstance(x, float) and isinstance(y, float) and x == y):
                            diff.append(T.b_const(True))
                    else:
                        diff.append(T.b_not(T.b_eq0(T.p_sub(P(x), P(y)))))
            for key in ("xdata", "ydata"):
                for x, y in zip(a[key].d, b[key].d):
                    diff.append(T.b_not(T.b_eq0(T.p_sub(P(x), P(y)))))
            Mq, tq = fresh("Mq", pos=True), fresh("tq", pos=True)
            ga = a["f"](data["B"][0], Mq) if second_tau else a["f"](data["B"][0], Mq, tq)
            gb = b["f"](data["B"][0], Mq) if second_tau else b["f"](data["B"][0], Mq, tq)
            diff += [T.b_not(T.b_eq0(T.p_sub(P(x), P(y)))) for x, y in zip(ga.d, gb.d)]
            cond = T.b_or(*diff) if diff else T.b_const(False)
            if cond.kind == "const" and not cond.args[0]:
                job.record(f"{tag}/problem handed to the optimiser is the one a fresh forecaster hands over[path{k}]", "unsat", 0.0,
                           bound=f"{n} samples", note="start point, bounds, data and model syntactically identical")
            else:
                v = job.prove(f"{tag}/problem handed to the optimiser is the one a fresh forecaster hands over[path{k}]", pr.pc + [cond],
                              bound=f"{n} samples", replay=rp, retries=0)
                if v == "spurious":
                    # the optimiser's problem depends on the earlier fit but the concrete round trips were still made: the
                    # round-trip clause itself is about the optimiser's convergence and is not decided here (DESIGN.md, C05)
                    job.errors[:] = [e for e in job.errors if tag not in e]
                    job.obligations[-1]["verdict"] = "sat(info)"
                    job.obligations[-1]["note"] = "the second fit's start depends on the first; round trips of the replay family still succeed - not a violation, not decided"
            job.prove(f"{tag}/reach[path{k}]", pr.pc, expect="sat")
            break   # the remaining paths differ only in how the guesses were clipped into the bounds


# concrete replays run on the real code when the changed code uses something the engine does not model (harness.finish)
FALLBACK = [(replay_scaling, {}), (replay_scaling, {"partial": True}), (replay_fit, {}), (replay_fit, {"with_tau": True}), (replay_fit, {"inf_hi": True}), (replay_lsq, {}), (replay_lsq, {"with_tau": False}), (replay_refit, {}), (replay_bounds, {}), (replay_regularize, {})]


def jobs(tier):
    out = [("scaling-2", lambda j: job_scaling(j, 2)), ("bounds", job_bounds), ("fit-2", lambda j: job_fit(j, 2)), ("refit-2", lambda j: job_refit(j, 2)),
           ("fit-2-halfinf", lambda j: job_fit(j, 2, inf_hi=True)), ("fit-2-bounds-reassigned", lambda j: job_fit(j, 2, rebound=True))]
    if tier != "quick":
        out += [("scaling-3", lambda j: job_scaling(j, 3)), ("fit-3", lambda j: job_fit(j, 3)), ("scaling-5", lambda j: job_scaling(j, 5)),
                ("fit-4", lambda j: job_fit(j, 4)), ("fit-3-halfinf", lambda j: job_fit(j, 3, inf_hi=True)), ("refit-3", lambda j: job_refit(j, 3)),
                ("scaling-8", lambda j: job_scaling(j, 8)), ("fit-6", lambda j: job_fit(j, 6)), ("refit-5", lambda j: job_refit(j, 5)),
                ("scaling-16", lambda j: job_scaling(j, 16)), ("fit-10", lambda j: job_fit(j, 10)), ("fit-6-halfinf", lambda j: job_fit(j, 6, inf_hi=True)),
                ("refit-8", lambda j: job_refit(j, 8)), ("fit-4-bounds-reassigned", lambda j: job_fit(j, 4, rebound=True))]
    return out
