"""C11 - array evaluation equals element-wise scalar evaluation for every dtype.

Each array-accepting correlation is executed on a symbolic array of dtype float64 / float32 /
int64 / int32 and length 0..2 (float64: 0..3; thorough: 0..3, float64 0..4); boolean-mask reads split the path per
element (above / below the bubble point; the point itself lies on the 'at/above' side of the same
comparison the scalar branch uses).  On every path: result dtype floating, same shape, no
uninitialised element, input array untouched, each element equal to the scalar call on that element.
numpy's dtype rules that matter are modelled: `empty_like`/`full_like` inherit the dtype, stores into
an integer array truncate (uninterpreted `trunc`), `np.vectorize` needs `otypes` for size-0 input.
"""
from __future__ import annotations

from fractions import Fraction

from ..sx import terms as T
from ..shims import scipy_shim as SS
from ..shims import pd_shim
from ..shims.np_shim import SymArray, Uninit, UninitRead
from .common import (P, box, check_defined, evalf, load_sym, model_floats, not_close, paths, rng, K, Q, Sym, lift,
                     simp, fresh)

DTYPES = ("f8", "f4", "i8", "i4")
NP_DT = {"f8": "float64", "f4": "float32", "i8": "int64", "i4": "int32"}
OILV = dict(T=(80, 350), api=(12, 55), gg=("0.56", "1.3"), rsi=(20, 2500))


def _targets():
    """name -> (module key, array caller, scalar caller, parameter names)."""
    return {
        "oil.b_o_Standing": ("oil", lambda m, v, p: m.b_o_Standing(v["T"], p, v["api"], v["gg"], v["rsi"]), None),
        "oil.solution_gor_Standing": ("oil", lambda m, v, p: m.solution_gor_Standing(v["T"], p, v["api"], v["gg"], v["rsi"]), None),
        "oil.oil_compressibility_undersat_Spivey": ("oil", lambda m, v, p: m.oil_compressibility_undersat_Spivey(v["T"], p, v["api"], v["gg"], v["rsi"]), None),
        "water.b_water_McCain": ("water", lambda m, v, p: m.b_water_McCain(v["T"], p), None),
        "water.b_water_McCain_dp": ("water", lambda m, v, p: m.b_water_McCain_dp(v["T"], p), None),
        "water.compressibility_water_McCain": ("water", lambda m, v, p: m.compressibility_water_McCain(v["T"], p, v["S"]), None),
        "water.density_water_McCain": ("water", lambda m, v, p: m.density_water_McCain(v["T"], p, v["S"]), None),
        "water.viscosity_water_McCain": ("water", lambda m, v, p: m.viscosity_water_McCain(v["T"], p, v["S"]), None),
        "Fluid.water_FVF": ("fluid", lambda m, v, p: m.Fluid(v["T"], v["api"], v["gg"], v["rsi"], v["S"]).water_FVF(p),
                            lambda mods, v, q: mods["water"].b_water_McCain(v["T"], q)),
        "Fluid.water_viscosity": ("fluid", lambda m, v, p: m.Fluid(v["T"], v["api"], v["gg"], v["rsi"], v["S"]).water_viscosity(p),
                                  lambda mods, v, q: mods["water"].viscosity_water_McCain(v["T"], q, v["S"])),
        "Fluid.oil_FVF": ("fluid", lambda m, v, p: m.Fluid(v["T"], v["api"], v["gg"], v["rsi"], v["S"]).oil_FVF(p),
                          lambda mods, v, q: mods["oil"].b_o_Standing(v["T"], q, v["api"], v["gg"], v["rsi"])),
        "Fluid.oil_viscosity": ("fluid", lambda m, v, p: m.Fluid(v["T"], v["api"], v["gg"], v["rsi"], v["S"]).oil_viscosity(p),
                                lambda mods, v, q: mods["oil"].viscosity_beggs_robinson(v["T"], q, v["api"], v["gg"], v["rsi"])),
        # the gas methods: the stand-alone gas correlations (scalar-only, a root finder inside) are recording stubs here
        "Fluid.gas_FVF": ("fluid", lambda m, v, p: m.Fluid(v["T"], v["api"], v["gg"], v["rsi"], v["S"]).gas_FVF(p, GAS_TPC, GAS_PPC),
                          lambda mods, v, q: mods["gas_ufs"]["b_factor_DAK"](v["T"], q, GAS_TPC, GAS_PPC)),
        "Fluid.gas_viscosity": ("fluid", lambda m, v, p: m.Fluid(v["T"], v["api"], v["gg"], v["rsi"], v["S"]).gas_viscosity(p, GAS_TPC, GAS_PPC),
                                lambda mods, v, q: mods["gas_ufs"]["viscosity_Sutton"](v["T"], q, GAS_TPC, GAS_PPC, v["gg"])),
    }


GAS_TPC, GAS_PPC = K("-72.2"), K("653")


def _mods():
    from ..shims import pd_shim
    oil = load_sym("bluebonnet.fluids.oil")
    water = load_sym("bluebonnet.fluids.water")
    import bluebonnet.fluids.gas as _rg
    from .c13 import _uf
    gas_ufs = {n: _uf(n, like=getattr(_rg, n)) for n in ("b_factor_DAK", "viscosity_Sutton")}
    fluid = load_sym("bluebonnet.fluids.fluid", pd=pd_shim.PD, b_o_Standing=oil.b_o_Standing,
                     viscosity_beggs_robinson=oil.viscosity_beggs_robinson, pressure_bubblepoint_Standing=oil.pressure_bubblepoint_Standing,
                     b_water_McCain=water.b_water_McCain, viscosity_water_McCain=water.viscosity_water_McCain, **gas_ufs, **SS.rebind())
    return {"oil": oil, "water": water, "fluid": fluid, "gas_ufs": gas_ufs}


# ------------------------------------------------------------------ replay

def replay(model, target="oil.b_o_Standing", dtype="f8", n=2, intparams=False, series=False, view=False, fortran=False):
    import numpy as np
    import bluebonnet.fluids.oil as oil
    import bluebonnet.fluids.water as water
    import bluebonnet.fluids.gas as gas
    from bluebonnet.fluids import Fluid
    m = model_floats(model, ["T", "api", "gg", "rsi", "S"] + [f"e{j}" for j in range(n)],
                     default=dict(T=200.0, api=35.0, gg=0.8, rsi=650.0, S=5.0, **{f"e{j}": 1000.0 * (j + 1) for j in range(n)}))
    vals = [m[f"e{j}"] for j in range(n)]
    if dtype.startswith("i"):
        vals = [float(round(v)) for v in vals]
    arr = np.array(vals, dtype=NP_DT[dtype])
    if view:
        arr = arr[::-1].copy()[::-1]      # the same values as a negative-stride view of another array
    if fortran:
        arr = np.asfortranarray(arr.reshape(2, 2))      # the same values as a 2 x 2 grid stored column by column (what grid.T is)
    if series:
        # a column of a re-ordered table: index labels n-1..0 in row order (positions pair pressures with results)
        import pandas as pd
        arr = pd.Series(arr, index=list(range(n - 1, -1, -1)))
    before = arr.copy()
    fl = Fluid(m["T"], m["api"], m["gg"], m["rsi"], m["S"])
    if intparams:
        # the caller passes whole numbers as Python ints (as every docstring example of the library does)
        for k in ("T", "api", "rsi", "S"):
            m[k] = int(round(m[k]))
        fl = Fluid(m["T"], m["api"], m["gg"], m["rsi"], m["S"])
    T_, api, gg, rsi, S = m["T"], m["api"], m["gg"], m["rsi"], m["S"]
    table = {
        "oil.b_o_Standing": (lambda p: oil.b_o_Standing(T_, p, api, gg, rsi),) * 2,
        "oil.solution_gor_Standing": (lambda p: oil.solution_gor_Standing(T_, p, api, gg, rsi),) * 2,
        "oil.oil_compressibility_undersat_Spivey": (lambda p: oil.oil_compressibility_undersat_Spivey(T_, p, api, gg, rsi),) * 2,
        "water.b_water_McCain": (lambda p: water.b_water_McCain(T_, p),) * 2,
        "water.b_water_McCain_dp": (lambda p: water.b_water_McCain_dp(T_, p),) * 2,
        "water.compressibility_water_McCain": (lambda p: water.compressibility_water_McCain(T_, p, S),) * 2,
        "water.density_water_McCain": (lambda p: water.density_water_McCain(T_, p, S),) * 2,
        "water.viscosity_water_McCain": (lambda p: water.viscosity_water_McCain(T_, p, S),) * 2,
        "Fluid.water_FVF": (fl.water_FVF, lambda p: water.b_water_McCain(T_, p)),
        "Fluid.water_viscosity": (fl.water_viscosity, lambda p: water.viscosity_water_McCain(T_, p, S)),
        "Fluid.oil_FVF": (fl.oil_FVF, lambda p: oil.b_o_Standing(T_, p, api, gg, rsi)),
        "Fluid.oil_viscosity": (fl.oil_viscosity, lambda p: oil.viscosity_beggs_robinson(T_, p, api, gg, rsi)),
        "Fluid.gas_FVF": (lambda p: fl.gas_FVF(p, -72.2, 653.0), lambda p: gas.b_factor_DAK(T_, p, -72.2, 653.0)),
        "Fluid.gas_viscosity": (lambda p: fl.gas_viscosity(p, -72.2, 653.0), lambda p: gas.viscosity_Sutton(T_, p, -72.2, 653.0, gg)),
    }
    fa, fs = table[target]
    problems = []
    try:
        with np.errstate(all="ignore"):
            out = np.asarray(fa(arr))
    except Exception as ex:  # noqa: BLE001
        return True, {"what": f"{target}({NP_DT[dtype]} array of length {n}) raised {ex!r}", "inputs": m}
    if out.dtype.kind != "f":
        problems.append(f"result dtype {out.dtype} is not floating")
    if out.shape != arr.shape:
        problems.append(f"result shape {out.shape} != input shape {arr.shape}")
    if not np.array_equal(np.asarray(arr), np.asarray(before)):
        problems.append("input array modified")
    arr = np.asarray(arr)
    tol = 1e-5 if dtype == "f4" else 1e-9
    if out.shape == arr.shape:
        fo, fa_ = np.asarray(out).reshape(-1), np.asarray(arr).reshape(-1)
        for j in range(n):
            want = float(fs(int(fa_[j]) if (intparams and dtype.startswith("i")) else float(fa_[j])))
            if not abs(float(fo[j]) - want) <= tol * abs(want) + 1e-300:
                problems.append(f"element {j}: array call gives {float(fo[j])!r}, scalar call gives {want!r} (p={float(fa_[j])!r})")
    if not problems and "oil" in target.lower() and n and not fortran:
        # exactly at the bubble point: the solver's value for such an element cannot be hit in doubles, so the real
        # p_b (as a caller gets it from pressure_bubblepoint_Standing) is put in each position in turn
        pb = float(oil.pressure_bubblepoint_Standing(T_, api, gg, rsi))
        for j in range(n):
            a2 = np.array(vals, dtype="float64")
            a2[j] = pb
            a2 = a2.astype(NP_DT[dtype])
            if float(a2[j]) != pb and not dtype.startswith("i"):
                pb_j = float(a2[j])      # float32: the nearest representable value is what the caller can pass
            with np.errstate(all="ignore"):
                try:
                    o2 = np.asarray(fa(a2), float)
                except Exception as ex:  # noqa: BLE001
                    problems.append(f"element {j} at the bubble point: raised {ex!r}")
                    break
            for i in range(n):
                want = float(fs(int(a2[i]) if (intparams and dtype.startswith("i")) else float(a2[i])))
                if o2.shape != a2.shape or not abs(float(o2[i]) - want) <= tol * abs(want) + 1e-300:
                    problems.append(f"array {a2.tolist()} (element {j} exactly at p_b={pb!r}): element {i} gives {float(o2[i]) if o2.shape == a2.shape else o2!r}, scalar call gives {want!r}")
                    break
            if problems:
                break
    return bool(problems), {"what": f"{target} on {NP_DT[dtype]}[{n}]: " + ("; ".join(problems[:3]) or "array == scalar"), "inputs": m}


def replay_gas_second_call(model, method="gas_FVF"):
    """Real Fluid: a gas method called for one pseudocritical point and then, on the same object and the same pressures, for
    another: the second result element by element against the scalar correlation for ITS arguments."""
    import numpy as np
    import bluebonnet.fluids.gas as gas
    from bluebonnet.fluids import Fluid
    m = model_floats(model, ["T", "api", "gg", "rsi", "S", "e0", "e1"], default=dict(T=200.0, api=35.0, gg=0.8, rsi=650.0, S=5.0, e0=1000.0, e1=3000.0))
    fl = Fluid(m["T"], m["api"], m["gg"], m["rsi"], m["S"])
    arr = np.array([m["e0"], m["e1"]], dtype=float)
    first, second = (-72.2, 653.0), (-20.0, 700.0)
    ref = (lambda p, tp: gas.b_factor_DAK(m["T"], p, *tp)) if method == "gas_FVF" else (lambda p, tp: gas.viscosity_Sutton(m["T"], p, *tp, m["gg"]))
    getattr(fl, method)(arr, *first)
    out = np.asarray(getattr(fl, method)(arr, *second), float)
    problems = []
    for j in range(2):
        want = float(ref(float(arr[j]), second))
        if out.shape != arr.shape or not abs(float(out[j]) - want) <= 1e-9 * abs(want):
            problems.append(f"element {j} (p={float(arr[j])!r}): {float(out[j]) if out.shape == arr.shape else out!r} vs the scalar correlation at the second pseudocritical point {want!r}")
    return bool(problems), {"what": f"Fluid.{method} called for pseudocritical point {first}, then for {second} on the same object: " + ("; ".join(problems) or "second call answers for its own arguments"),
                            "inputs": m}


def job_gas_second_call(job):
    """The gas methods of the facade take the pseudocritical point as arguments: a second call on the same object with another
    point (and the same pressures) answers for the second point, element by element."""
    mods = _mods()
    mod = mods["fluid"]
    job.encoded(mod, "Fluid.gas_FVF", "Fluid.gas_viscosity")
    vs, dom = box(None, S=(0, 25), Tpc2=(-200, 100), ppc2=(200, 1500), **OILV)
    els = [fresh(f"e{j}", pos=True) for j in range(2)]
    edom = []
    for e in els:
        edom += [T.b_le(T.Poly.const(15), P(e)), T.b_le(P(e), T.Poly.const(20000))]
    for method, ref in (("gas_FVF", lambda q: mods["gas_ufs"]["b_factor_DAK"](vs["T"], q, vs["Tpc2"], vs["ppc2"])),
                        ("gas_viscosity", lambda q: mods["gas_ufs"]["viscosity_Sutton"](vs["T"], q, vs["Tpc2"], vs["ppc2"], vs["gg"]))):
        def run():
            f = mod.Fluid(vs["T"], vs["api"], vs["gg"], vs["rsi"], vs["S"])
            getattr(f, method)(SymArray([Sym(e.p) for e in els], "f8"), GAS_TPC, GAS_PPC)
            return getattr(f, method)(SymArray([Sym(e.p) for e in els], "f8"), vs["Tpc2"], vs["ppc2"])
        rp = (replay_gas_second_call, {"method": method})
        for k, pr in enumerate(paths(job, run, dom + edom, catch=(Exception,), max_paths=64)):
            tag = f"Fluid.{method}[second call on the same object with another pseudocritical point]"
            if pr.exc is not None:
                job.prove(f"{tag}/raises {type(pr.exc).__name__}[path{k}]", pr.pc, bound="2 pressures", replay=rp, note=repr(pr.exc)[:80])
                continue
            out = pr.value
            if not isinstance(out, SymArray) or out.shape != (2,):
                job.prove(f"{tag}/one value per pressure[path{k}]", pr.pc, bound="2 pressures", replay=rp)
                continue
            job.prove(f"{tag}/element-wise == scalar correlation at the second point[path{k}]",
                      pr.pc + [T.b_or(*[not_close(out.d[j], ref(els[j]), abs_tol=Fraction(0)) for j in range(2)])], bound="2 pressures", replay=rp)
    job.prove("Fluid gas methods, second call/reach", dom + edom, expect="sat")


# ------------------------------------------------------------------ job

def job_target(job, target, lengths):
    mods = _mods()
    key, call_arr, call_scalar = _targets()[target]
    mod = mods[key]
    fn = target.split(".", 1)[1]
    job.encoded(mods["oil" if "oil" in target.lower() or target == "Fluid.oil_FVF" else "water" if "water" in target.lower() else key],
                *([fn] if key != "fluid" else []))
    if key == "fluid":
        job.encoded(mod, "Fluid." + fn.split(".")[-1] if not fn.startswith("Fluid") else fn)
    job.bound(dtypes=list(DTYPES), lengths={k: list(v) for k, v in lengths.items()} if isinstance(lengths, dict) else list(lengths))
    job.assume_text("element values are reals (binary32 rounding not modelled; integer wrap-around is a proved-absent condition); tolerance 1e-9 (1e-5 for float32); "
                    "negative-stride views are modelled through their memory order (np.nditer); other non-contiguous layouts (positive strides > 1, 2-D transposes) are outside the model")
    vs_f, dom_f = box(None, S=(0, 25), **OILV)
    vs_i, dom_i = box(None, _integer=("T", "api", "rsi", "S"), S=(0, 25), **OILV)
    if call_scalar is None:
        call_scalar = lambda ms, v, q: call_arr(mod, v, q)
    job.assume_text("integer dtypes: element values in [15, 20000]; 'python-int parameters' variant: temperature, API gravity, "
                    "initial GOR and salinity are Python ints (whole numbers), gas gravity a float; integer-dtype array arithmetic "
                    "must stay inside the dtype's range on that box (no silent wrap-around)")
    variants = [(dt, False, False) for dt in DTYPES] + [(dt, True, False) for dt in ("i8", "i4")] + [("f8", False, True), ("f8", False, "view"), ("f8", False, "fortran")]
    for dt, intp, ser in variants:
        view = ser == "view"
        fort = ser == "fortran"          # a 2 x 2 array in Fortran order (a transposed grid, np.asfortranarray): non-contiguous in C order
        ser = ser is True
        vs, dom = (vs_i, dom_i) if intp else (vs_f, dom_f)
        for n in ((4,) if fort else (lengths[dt] if isinstance(lengths, dict) else lengths)):
            if (intp and n == 0) or (ser and n < 2):
                continue
            els = [fresh(f"e{j}", pos=True, integer=intp) for j in range(n)]
            edom = []
            for e in els:
                edom += [T.b_le(T.Poly.const(15), P(e)), T.b_le(P(e), T.Poly.const(20000))]
            if view and n < 2:
                continue
            rp = (replay, {"target": target, "dtype": dt, "n": n, "intparams": intp, "series": ser, "view": view, "fortran": fort})
            tag = f"{target}[{NP_DT[dt]}{',python-int parameters' if intp else ''}{',Series labelled n-1..0' if ser else ''}{',negative-stride view' if view else ''}{',2 x 2 in Fortran order' if fort else ''},len={n}]"
            want_shape = (2, 2) if fort else (n,)

            def run():
                arr = SymArray([Sym(e.p) for e in els], dt) if not ser else pd_shim.SymSeries([Sym(e.p) for e in els], dt, list(range(n - 1, -1, -1)))
                if view:
                    arr = SymArray([Sym(e.p) for e in reversed(els)], dt)[::-1]      # logical order e0, e1, ...; memory order reversed
                if fort:
                    arr = SymArray([SymArray([Sym(els[0].p), Sym(els[1].p)], dt), SymArray([Sym(els[2].p), Sym(els[3].p)], dt)], dt, (2, 2))
                    arr._order = "F"
                snap = list(arr._flat())
                out = call_arr(mod, vs, arr)
                scal = [call_scalar(mods, vs, e) for e in els]
                now = list(arr._flat())
                touched = len(now) != len(snap) or any(a is not b for a, b in zip(now, snap)) or arr.dtype_tag != dt
                return out, scal, touched

            res = paths(job, run, dom + edom, catch=(ValueError, TypeError, UninitRead, IndexError), max_paths=64)
            if not res:
                job.errors.append(f"{tag}: no feasible path")
            for k, pr in enumerate(res):
                if pr.exc is not None and fort:
                    # the property quantifies over 1-D arrays (length 0 / 1 / n) and their strided views; a 2-D array is asked
                    # only of the functions that take it (element-wise, same shape).  A function that rejects 2-D input - on the
                    # pinned tree oil_compressibility_undersat_Spivey does - or that the model cannot run on it is not decided here
                    job.record(f"{tag}/not decided: the function (or the model of it) does not take a 2-D array[path{k}]", "info", 0.0, note=str(pr.exc)[:80])
                    continue
                if pr.exc is not None:
                    job.prove(f"{tag}/raises {type(pr.exc).__name__}[path{k}]", pr.pc, bound="oil/water box", replay=rp, note=str(pr.exc)[:80])
                    continue
                out, scal, touched = pr.value
                struct = []
                if not isinstance(out, SymArray):
                    struct.append(f"result is {type(out).__name__}, not an array")
                else:
                    if out.dtype_tag not in ("f8", "f4"):
                        struct.append(f"result dtype {out.dtype_tag} is not floating")
                    if out.shape != want_shape:
                        struct.append(f"result shape {out.shape} != {want_shape}")
                    if any(isinstance(x, Uninit) for x in out._flat()):
                        struct.append("result contains an uninitialised element")
                if touched:
                    struct.append("input array modified")
                if struct:
                    # structural facts are concrete on the path: confirm through the real function
                    job.prove(f"{tag}/structure[path{k}]: {'; '.join(struct)}", pr.pc, bound="oil/water box", replay=rp)
                    if not isinstance(out, SymArray) or out.shape != want_shape or any(isinstance(x, Uninit) for x in out._flat()):
                        continue
                else:
                    job.record(f"{tag}/structure[path{k}]", "unsat", 0.0, note="floating dtype, same shape, no uninitialised element, input untouched")
                tol = Fraction(1, 10**5) if dt == "f4" else Fraction(1, 10**9)
                if n:
                    flat = list(out._flat())
                    neq = T.b_or(*[not_close(flat[j], scal[j], tol=tol, abs_tol=Fraction(0)) for j in range(n)])
                    job.prove(f"{tag}/elements==scalar calls[path{k}]", pr.pc + [neq], bound="oil/water box", replay=rp)
                if dt in ("i8", "i4"):
                    check_defined(job, f"{tag}[path{k}]", pr, bound="integer elements in [15, 20000], oil/water box", overflow=True, replay=rp)
                job.prove(f"{tag}/reach[path{k}]", pr.pc, expect="sat")
                if dt == "f8" and n == 2 and isinstance(out, SymArray):
                    _validate(job, target, pr, out)


def _validate(job, target, pr, out):
    """Translator validation: the symbolic array result at concrete inputs vs the real function."""
    import numpy as np
    r = rng(job, hash(target) % 1000)
    for _ in range(40):
        env = dict(T=r.uniform(80, 350), api=r.uniform(12, 55), gg=r.uniform(.56, 1.3), rsi=r.uniform(20, 2500), S=r.uniform(0, 25),
                   e0=r.uniform(15, 9000), e1=r.uniform(15, 9000))
        try:
            if not all(T.evalf(c, env) for c in pr.pc):
                continue
            sym = [evalf(x, env) for x in out.d]
        except T.EvalError:
            continue
        ok, det = replay(env, target=target, dtype="f8", n=2)
        import bluebonnet.fluids.oil as oil
        import bluebonnet.fluids.water as water
        from bluebonnet.fluids import Fluid
        fl = Fluid(env["T"], env["api"], env["gg"], env["rsi"], env["S"])
        arr = np.array([env["e0"], env["e1"]])
        a = (env["T"], arr, env["api"], env["gg"], env["rsi"])
        real = {"oil.b_o_Standing": lambda: oil.b_o_Standing(*a), "oil.solution_gor_Standing": lambda: oil.solution_gor_Standing(*a),
                "oil.oil_compressibility_undersat_Spivey": lambda: oil.oil_compressibility_undersat_Spivey(*a),
                "water.b_water_McCain": lambda: water.b_water_McCain(env["T"], arr), "water.b_water_McCain_dp": lambda: water.b_water_McCain_dp(env["T"], arr),
                "water.compressibility_water_McCain": lambda: water.compressibility_water_McCain(env["T"], arr, env["S"]),
                "water.density_water_McCain": lambda: water.density_water_McCain(env["T"], arr, env["S"]),
                "water.viscosity_water_McCain": lambda: water.viscosity_water_McCain(env["T"], arr, env["S"]),
                "Fluid.water_FVF": lambda: fl.water_FVF(arr), "Fluid.water_viscosity": lambda: fl.water_viscosity(arr),
                "Fluid.oil_FVF": lambda: fl.oil_FVF(arr), "Fluid.oil_viscosity": lambda: fl.oil_viscosity(arr)}[target]()
        for j in range(2):
            job.validate(target, sym[j], float(real[j]), inputs=env)
        return


# concrete replays run on the real code when the changed code uses something the engine does not model (harness.finish)
FALLBACK = [(replay, {"target": t, "dtype": d, "n": 2}) for t in ("oil.b_o_Standing", "oil.solution_gor_Standing", "water.b_water_McCain", "Fluid.water_FVF", "Fluid.oil_FVF", "Fluid.oil_viscosity", "Fluid.water_viscosity") for d in ("f8", "i8")]


def jobs(tier):
    # length 3 is the shortest array on which a value vector shorter than the array can be mis-indexed (two selected
    # elements with an unselected one between or before them), so float64 goes to 3 in the quick tier as well
    lengths = {"f8": (0, 1, 2, 3), "f4": (0, 1, 2), "i8": (0, 1, 2), "i4": (0, 1, 2)} if tier == "quick" else \
        {"f8": (0, 1, 2, 3, 4), "f4": (0, 1, 2, 3), "i8": (0, 1, 2, 3), "i4": (0, 1, 2, 3)}
    return [(t, (lambda j, t=t: job_target(j, t, lengths))) for t in _targets()] + [("Fluid-gas-methods-second-call", job_gas_second_call)]
