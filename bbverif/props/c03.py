"""C03 - recovery factor conserves mass and respects its physical ceiling.

Decided on the real `recovery_factor` (both modes), `fvf_scale`, the scaling-factor block of
`FlowProperties.__init__` and both `simulate` methods (ideal linear solve):
  zero      both modes return 0 at the first time;
  ceiling   in-place recovery <= 1 - rho(lowest frac-face value)/rho(initial) for any stored level
            inside the bounds C01 establishes, for any increasing density table;
  monotone  flux mode: the one-sided stencil rate is >= 0 on the first levels from the real initial
            state and the trapezoid sum of non-negative rates over increasing times is non-decreasing;
            in-place mode: non-decreasing over the first steps;
  scale     the code's pseudopressure scaling factor makes d(rho/rho_i)/d(m~) = 1 at p_i for a
            thermodynamically consistent table (derivatives as symbols);
  balance   ideal reservoir: sum_j (x_new - x_old)_j = -(dt/h^2) x_new_0 exactly, fvf_scale = 1 - p_f/p_i;
            single-phase reservoir with pressure-independent diffusivity and an arbitrary schedule: the stored field over
            nodes 1.. changes by exactly the flux through the face next to the fracture (no mass appears in place).
"""
from __future__ import annotations

from fractions import Fraction

from ..sx import terms as T
from ..sx.sym import ctx
from ..shims import pd_shim
from ..shims import scipy_shim as SS
from ..shims.np_shim import SymArray
from .common import (P, box, evalf, load_sym, model_floats, not_close, paths, rng, K, Q, Sym, lift, simp, fresh)
from .resv import FluidStub, load_reservoir, times, rows_of, MemoSolve, policy_exact, policy_havoc_then_exact
from .c01 import _real_run, replay_series_time  # noqa: F401


class DensityFluid(FluidStub):
    """Fluid stub with an increasing (m-scaled, density) table covering [0, m_i] (rows symbolic)."""

    def __init__(self, rows, descending=False):
        super().__init__()
        ms = [Q(0)]
        for k in range(1, rows):
            ms.append(ms[-1] + fresh(f"dms{k}", pos=True))
        rho = [fresh("rho0", pos=True)]
        for k in range(1, rows):
            rho.append(rho[-1] + fresh(f"drho{k}", pos=True))
        self.ms_top = ms[-1]
        if descending:
            # the same table listed from high pressure to low (row order is the caller's; every lookup in the library sorts)
            ms, rho = ms[::-1], rho[::-1]
        self.pvt_props = {"m-scaled": SymArray(ms, "f8"), "density": SymArray(rho, "f8")}


def replay_ceiling(model, nx=3, rows=2, descending=False):
    import numpy as np
    from bluebonnet.flow import reservoir as rr
    g = lambda k, d: float(model.get(k) if model.get(k) is not None else d)
    ms = np.cumsum([0.0] + [g(f"dms{k}", 1.0) for k in range(1, rows)])
    rho = np.cumsum([g("rho0", 1.0)] + [g(f"drho{k}", 1.0) for k in range(1, rows)])
    m_i, mf = g("m_i", ms[-1]), g("mf[0]", 0.0)

    class F:
        pvt_props = {"m-scaled": ms[::-1].copy(), "density": rho[::-1].copy()} if descending else {"m-scaled": ms, "density": rho}
    r = rr.SinglePhaseReservoir(nx, 0.0, 1.0, F())
    lvl = np.array([g(f"x0_{j}#{j + 1}", 0.5 * (mf + m_i)) for j in range(nx)])
    lvl = np.clip(lvl, mf, m_i)
    r.time = np.array([0.0, 1.0])
    init = np.full(nx, m_i)
    init[0] = mf
    r.pseudopressure = np.vstack([init, lvl])
    rf = r.recovery_factor(density=True)
    f = lambda q: np.interp(q, ms, rho) if ms[0] <= q <= ms[-1] else float(rho[0] + (rho[1] - rho[0]) / (ms[1] - ms[0]) * (q - ms[0]))
    ceil = 1 - f(mf) / f(m_i)
    bad = rf[1] > ceil + 1e-9 or rf[0] != 0
    return bad, {"what": f"in-place recovery {rf.tolist()} vs ceiling 1 - rho(m_f)/rho(m_i) = {ceil!r} (level {lvl.tolist()}, m_f={mf!r}, m_i={m_i!r})", "inputs": {}}


def replay_flux(model, cls="SinglePhaseReservoir", nx=3, nt=3):
    import numpy as np
    res, t, fluid = _real_run(model, cls, nx, nt, False)
    rf = np.asarray(res.recovery_factor(), float)
    bad = rf[0] != 0 or bool(np.any(np.diff(rf) < -1e-9 * (1 + abs(rf).max())))
    return bad, {"what": f"{cls} nx={nx}: flux-mode recovery {rf.tolist()} over times {t.tolist()} is not 0 first and non-decreasing", "inputs": {}}


def job_zero_and_ceiling(job, nx, rows, descending=False):
    mod = load_reservoir()
    job.encoded(mod, "IdealReservoir.recovery_factor", "SinglePhaseReservoir.fvf_scale", "SinglePhaseReservoir.simulate")
    job.stub("scipy interp1d (extrapolating density lookup): exact piecewise-linear model", "linear solve: the level after the initial "
             "one is havoc'd inside [lowest frac-face value, initial value] (C01's conclusion taken as hypothesis)")
    job.bound(ceiling_nx=nx, density_rows=rows)
    hold = {}

    def inv(rec):
        return [(lift(x) >= lift(hold["lo"])).node for x in rec["x"]] + [(lift(x) <= lift(hold["hi"])).node for x in rec["x"]]

    def run():
        SS.LinSolve.reset(None)
        SS.reset_names()
        t, _ = times(2)
        fluid = DensityFluid(rows, descending)
        c = ctx()
        c.assume((lift(fluid.m_i) <= lift(fluid.ms_top)).node)
        r = mod.SinglePhaseReservoir(Q(nx), fresh("pf"), fresh("pi", pos=True), fluid)
        mf = fluid.m_scaled_func(r.pressure_fracface)
        hold.update(lo=mf, hi=fluid.m_i)
        SS.LinSolve.policy = policy_havoc_then_exact({0}, inv)
        r.simulate(t)
        rho = SS.Interp1d(fluid.pvt_props["m-scaled"], fluid.pvt_props["density"], fill_value="extrapolate")
        rfd = r.recovery_factor(density=True)
        rff = r.recovery_factor()
        return rfd.d, rff.d, rho(mf), rho(fluid.m_i)

    rp = (replay_ceiling, {"nx": nx, "rows": rows, "descending": descending})
    for k, pr in enumerate(paths(job, run, [], max_paths=256)):
        if pr.exc is not None:
            if isinstance(pr.exc, SS.NonMonotoneAbscissae):
                continue
            job.errors.append(f"ceiling nx={nx} raised {pr.exc!r}")
            continue
        rfd, rff, rho_f, rho_i = pr.value
        tag = f"nx={nx},table={rows}" + (",rows listed high to low" if descending else "")
        job.prove(f"ceiling[{tag}]/reach[path{k}]", pr.pc + [T.b_lt(T.ZERO, P(rho_f))], expect="sat")
        job.prove(f"zero[{tag}]/in-place recovery is 0 at the first time[path{k}]", pr.pc + [T.b_not(T.b_eq0(P(rfd[0])))], bound=tag, replay=rp)
        job.prove(f"zero[{tag}]/flux recovery is 0 at the first time[path{k}]", pr.pc + [T.b_not(T.b_eq0(P(rff[0])))], bound=tag, replay=rp)
        # rfd[1] <= 1 - rho_f/rho_i   <=>   rfd[1]*rho_i <= rho_i - rho_f   (rho_i > 0)
        job.prove(f"ceiling[{tag}]/in-place recovery <= 1 - rho(m_f)/rho(m_i) for any level inside the bounds[path{k}]",
                  pr.pc + [T.b_lt(T.ZERO, P(rho_f)), T.b_lt(P(rho_i - rho_f), P(rfd[1] * rho_i))], bound=tag, replay=rp, abstract=True)
        seen = set()
        for cond, why in pr.ctx.defined:
            if cond.id in seen:
                continue
            seen.add(cond.id)
            job.prove(f"ceiling[{tag}]/finite[path{k}][{len(seen)}]", pr.pc + [T.b_lt(T.ZERO, P(rho_f)), T.b_not(cond)], bound=tag, note=why[:80], replay=rp)


def replay_ceiling_run(model, nx=3, tdtype="i8", after_schedule=False):
    """Real run on the shipped gas table with a non-integer frac-face pressure close to the initial pressure, whole-day
    time grid of the given dtype, large steps: in-place recovery against its ceiling 1 - rho(p_f)/rho(p_i)."""
    import numpy as np
    from bluebonnet.flow import reservoir as rr
    from .c04 import _real_fluid
    fluid = _real_fluid()
    pf = 7990.6
    res = rr.SinglePhaseReservoir(max(nx, 80), pf, 8000.0, fluid)
    t = (np.arange(0, 60) * 500).astype({"i8": "int64", "f8": "float64", "i4": "int32"}[tdtype])
    if after_schedule:
        # the object was first run with a drawdown schedule of the same length (a history match), then with its own constant
        # frac-face pressure: the ceiling is that of the constant pressure
        res.simulate(t, pressure_fracface=np.linspace(7900.0, 1500.0, len(t)))
        res.recovery_factor(density=True)
    res.simulate(t)
    rf = np.asarray(res.recovery_factor(density=True), float)
    pp = np.asarray(res.pseudopressure, float)
    ms, rho = np.asarray(fluid.pvt_props["m-scaled"], float), np.asarray(fluid.pvt_props["density"], float)
    m_f, m_i = float(fluid.m_scaled_func(pf)), float(fluid.m_i)
    ceil = 1 - float(np.interp(m_f, ms, rho)) / float(np.interp(m_i, ms, rho))
    bad = bool(rf.max() > ceil * (1 + 1e-9) + 1e-12 or rf[0] != 0 or pp.min() < m_f - 1e-9 * m_i)
    return bad, {"what": f"SinglePhaseReservoir on the {t.dtype} time grid {t[:3].tolist()}.., p_f={pf}, p_i=8000, nx={res.nx}: in-place recovery reaches "
                         f"{rf.max()!r}, ceiling 1 - rho(p_f)/rho(p_i) = {ceil!r}; lowest stored value {pp.min()!r} vs frac-face value {m_f!r}", "inputs": {}}


def job_ceiling_run(job, nx, tdtype, after_schedule=False):
    """The ceiling for the field the real simulate stores (ideal solve, first step from the real initial state), with
    the frac-face value of the object's own frac-face pressure - whatever the dtype of the time grid."""
    mod = load_reservoir()
    job.encoded(mod, "IdealReservoir.recovery_factor", "SinglePhaseReservoir.simulate")
    job.solve_defaults = {"abstract": True}
    tag = f"nx={nx},table=2,{ {'i8': 'int64', 'f8': 'float64'}[tdtype] } time grid" + (",after a run of the same object with a schedule" if after_schedule else "")

    def run():
        SS.LinSolve.reset(policy_exact())
        SS.reset_names()
        t, _ = times(2)
        if tdtype != "f8":
            t = SymArray(list(t.d), tdtype)
        fluid = DensityFluid(2)
        c = ctx()
        c.assume((lift(fluid.m_i) <= lift(fluid.ms_top)).node)
        pf_own = fresh("pf")
        r = mod.SinglePhaseReservoir(Q(nx), pf_own, fresh("pi", pos=True), fluid)
        mf = fluid.m_scaled_func(pf_own)
        if after_schedule:
            r.simulate(t, pressure_fracface=SymArray([fresh(f"pfs{k}") for k in range(2)], "f8"))
            SS.LinSolve.reset(policy_exact())
        r.simulate(t)
        rho = SS.Interp1d(fluid.pvt_props["m-scaled"], fluid.pvt_props["density"], fill_value="extrapolate")
        rfd = r.recovery_factor(density=True)
        return rfd.d, rho(mf), rho(fluid.m_i), rows_of(r), mf, fluid.m_i

    rp = (replay_ceiling_run, {"nx": nx, "tdtype": tdtype, "after_schedule": after_schedule})
    for k, pr in enumerate(paths(job, run, [], max_paths=256)):
        if pr.exc is not None:
            if isinstance(pr.exc, SS.NonMonotoneAbscissae):
                continue
            job.errors.append(f"ceiling-run {tag} raised {pr.exc!r}")
            continue
        rfd, rho_f, rho_i, rows, mf, m_i = pr.value
        pos = [T.b_lt(T.ZERO, P(rho_f))]
        inside = [T.b_le(P(mf), P(x)) for x in rows[1]] + [T.b_le(P(x), P(m_i)) for x in rows[1]]
        job.prove(f"ceiling-run[{tag}]/stored level inside [frac-face value of the object's pressure, initial][path{k}]",
                  pr.pc + pos + [T.b_not(T.b_and(*inside))], bound=tag, replay=rp)
        job.prove(f"ceiling-run[{tag}]/in-place recovery <= 1 - rho(m_f)/rho(m_i) given that[path{k}]",
                  pr.pc + pos + inside + [T.b_lt(P(rho_i - rho_f), P(rfd[1] * rho_i))], bound=tag, replay=rp)
        job.prove(f"ceiling-run[{tag}]/reach[path{k}]", pr.pc + pos, expect="sat", elim=True, abstract=False)


def job_flux_monotone(job, cls, nx):
    mod = load_reservoir()
    job.encoded(mod, f"{cls}.simulate", "IdealReservoir.recovery_factor")
    job.solve_defaults = {"abstract": True}
    job.assume_text("flux-mode monotonicity is claimed at nx = 3 over the first two steps only (nx = 4: z3 unknown at 600 s, measured; "
                    "outside the claim)")
    tag = f"{cls}[nx={nx}]"

    def run():
        SS.LinSolve.reset(policy_exact())
        SS.reset_names()
        t, _ = times(3)
        fluid = FluidStub() if cls != "IdealReservoir" else None
        r = (mod.IdealReservoir(Q(nx), fresh("pf", pos=True), fresh("pi", pos=True), None) if fluid is None
             else mod.SinglePhaseReservoir(Q(nx), fresh("pf"), fresh("pi", pos=True), fluid))
        r.simulate(t)
        rf = r.recovery_factor()
        return rows_of(r), rf.d, r

    rp = (replay_flux, {"cls": cls, "nx": nx, "nt": 3})
    for k, pr in enumerate(paths(job, run, [], max_paths=16)):
        if pr.exc is not None:
            job.errors.append(f"{tag} flux raised {pr.exc!r}")
            continue
        rows, rf, r = pr.value
        extra = [] if cls != "IdealReservoir" else [T.b_le(P(r.pressure_fracface), P(r.pressure_initial))]
        job.prove(f"{tag}/flux/reach[path{k}]", pr.pc + extra, expect="sat", elim=True, abstract=False)
        for i in range(3):
            u = rows[i]
            job.prove(f"{tag}/flux stencil -u2+4u1-3u0 >= 0 at level {i}[path{k}]", pr.pc + extra + [T.b_lt(P(-u[2] + 4 * u[1] - 3 * u[0]), T.ZERO)],
                      bound=f"nx={nx}, first two steps", replay=rp)
        job.prove(f"{tag}/flux recovery non-decreasing over the first steps[path{k}]",
                  pr.pc + extra + [T.b_or(T.b_lt(P(rf[1]), P(rf[0])), T.b_lt(P(rf[2]), P(rf[1])))], bound=f"nx={nx}, first two steps", replay=rp)


def job_trapezoid(job, n):
    """cumulative_trapezoid of non-negative rates over increasing times is non-decreasing and starts at 0
    (through the real recovery_factor code with an arbitrary stored field whose stencil rate is >= 0)."""
    mod = load_reservoir()
    job.encoded(mod, "IdealReservoir.recovery_factor")
    t, _ = times(n)

    def run():
        r = mod.SinglePhaseReservoir(Q(3), fresh("pf"), fresh("pi", pos=True), None)
        r.time = t
        rows = [[fresh(f"u{i}_{j}") for j in range(3)] for i in range(n)]
        c = ctx()
        for u in rows:
            c.assume((lift(-u[2] + 4 * u[1] - 3 * u[0]) >= 0).node)
        r.pseudopressure = SymArray([SymArray(u, "f8") for u in rows], "f8", (n, 3))
        return r.recovery_factor().d

    for k, pr in enumerate(paths(job, run, [])):
        rf = pr.value
        job.prove(f"trapezoid[nt={n}]/recovery non-decreasing for non-negative rates, any increasing time grid",
                  pr.pc + [T.b_or(T.b_not(T.b_eq0(P(rf[0]))), *[T.b_lt(P(rf[i + 1]), P(rf[i])) for i in range(n - 1)])], bound=f"nt={n}")


def job_scale(job):
    mod = load_sym("bluebonnet.flow.flowproperties", pd=pd_shim.PD, **SS.rebind())
    job.encoded(mod, "FlowProperties.__init__")
    job.assume_text("thermodynamic consistency of the table enters as symbols: d(rho)/dp = c rho and dm/dp = 2p/(mu z) at p_i")
    n = 3
    ps = [fresh(f"p{k}", pos=True) for k in range(n)]
    dom = [T.b_lt(P(ps[k]), P(ps[k + 1])) for k in range(n - 1)]
    cols = {c: [fresh(f"{c.replace('-', '_')}{k}", pos=True) for k in range(n)] for c in ("compressibility", "viscosity", "z-factor")}
    pp = [fresh("pp0", pos=True)]
    for k in range(1, n):
        pp.append(pp[-1] + fresh(f"dpp{k}", pos=True))
    tab = {"pressure": SymArray(ps, "f8"), "pseudopressure": SymArray(pp, "f8"), **{c: SymArray(v, "f8") for c, v in cols.items()}}
    node = 1
    for k, pr in enumerate(paths(job, lambda: mod.FlowProperties(tab, ps[node]), dom, max_paths=64)):
        if pr.exc is not None:
            job.errors.append(f"scale raised {pr.exc!r}")
            continue
        obj = pr.value
        factor = obj.pvt_props["m-scaled"].d[node] / pp[node]
        c, mu, z, p = cols["compressibility"][node], cols["viscosity"][node], cols["z-factor"][node], ps[node]
        job.prove(f"scale/factor == c mu z / (2 p) at p_i[path{k}]", pr.pc + [not_close(factor, c * mu * z / (2 * p), abs_tol=Fraction(0))], bound="3-row table, p_i a node")
        slope = c / ((2 * p / (mu * z)) * factor)     # (1/rho_i) d rho/dp  /  (dm/dp * factor)
        job.prove(f"scale/d(rho/rho_i)/d(m~) == 1 at p_i[path{k}]", pr.pc + [not_close(slope, Q(1), abs_tol=Fraction(0))], bound="3-row table, p_i a node")
    # an initial pressure between two table rows: the factor is the table's (linearly interpolated) c mu z / (2 p) at p_i itself
    pim = fresh("p_i_mid", pos=True)
    dom_mid = dom + [T.b_lt(P(ps[0]), P(pim)), T.b_lt(P(pim), P(ps[1]))]
    for k, pr in enumerate(paths(job, lambda: mod.FlowProperties({k_: SymArray(list(v.d), "f8") for k_, v in tab.items()}, pim), dom_mid, max_paths=64)):
        if pr.exc is not None:
            job.prove(f"scale/p_i between rows raises {type(pr.exc).__name__}[path{k}]", pr.pc, bound="3-row table", replay=replay_scale_mid, note=repr(pr.exc)[:80])
            continue
        obj = pr.value
        factor = obj.pvt_props["m-scaled"].d[2] / pp[2]
        node_s = [cols["compressibility"][j] * cols["viscosity"][j] * cols["z-factor"][j] / (2 * ps[j]) for j in (0, 1)]
        want = node_s[0] + (node_s[1] - node_s[0]) * (pim - ps[0]) / (ps[1] - ps[0])
        job.prove(f"scale/p_i between two rows: factor == the table's c mu z / (2 p) interpolated at p_i[path{k}]",
                  pr.pc + [not_close(factor, want, abs_tol=Fraction(0))], bound="3-row table, p_i in the first interval", replay=replay_scale_mid)
    # a sweep over pressure pairs builds several wrappers from the SAME table object: the scaling of each one is that of
    # its own initial pressure (nothing the first construction derived may steer the second)
    node2 = 2

    def twice():
        t2 = {k_: SymArray(list(v.d), "f8") for k_, v in tab.items()}
        mod.FlowProperties(t2, ps[node])
        return mod.FlowProperties(t2, ps[node2])
    for k, pr in enumerate(paths(job, twice, dom, max_paths=64)):
        if pr.exc is not None:
            job.prove(f"scale/second wrapper from the same table raises {type(pr.exc).__name__}[path{k}]", pr.pc, bound="3-row table", replay=replay_scale_twice, note=repr(pr.exc)[:80])
            continue
        obj = pr.value
        factor = obj.pvt_props["m-scaled"].d[node2] / pp[node2]
        c, mu, z, p = cols["compressibility"][node2], cols["viscosity"][node2], cols["z-factor"][node2], ps[node2]
        job.prove(f"scale/second wrapper built from the same table: factor == c mu z / (2 p) at its own p_i[path{k}]",
                  pr.pc + [not_close(factor, c * mu * z / (2 * p), abs_tol=Fraction(0))], bound="3-row table, p_i a node", replay=replay_scale_twice)


def replay_scale_mid(model):
    """FlowProperties with an initial pressure between two table rows: the scaling is the table's c mu z / (2 p) interpolated at p_i."""
    import warnings
    import numpy as np
    from bluebonnet.flow import FlowProperties
    p = np.array([1000.0, 3000.0, 6000.0, 9000.0])
    tab = {"pressure": p, "pseudopressure": p ** 2 / 2e3, "compressibility": 1.0 / p, "viscosity": np.full(4, 0.02), "z-factor": np.ones(4)}
    problems = []
    for pi in (1700.0, 4020.0, 8000.0):
        with warnings.catch_warnings():
            warnings.simplefilter("ignore")
            o = FlowProperties({k: v.copy() for k, v in tab.items()}, pi)
        got = float(np.asarray(o.pvt_props["m-scaled"], float)[-1] / tab["pseudopressure"][-1])
        want = float(np.interp(pi, p, tab["compressibility"] * tab["viscosity"] * tab["z-factor"] / (2 * p)))
        if abs(got - want) > 1e-12 * abs(want):
            problems.append(f"p_i={pi}: scaling factor {got!r} vs the table's c mu z/(2p) interpolated at p_i {want!r}")
    return bool(problems), {"what": "; ".join(problems[:2]) or "scaling factor interpolated at p_i", "inputs": {}}


def replay_scale_twice(model):
    """Two FlowProperties from one dict of arrays (a sweep over initial pressures): the second one's scaling."""
    import warnings
    import numpy as np
    from bluebonnet.flow import FlowProperties
    p = np.array([1000.0, 3000.0, 6000.0, 9000.0])
    tab = {"pressure": p, "pseudopressure": p ** 2 / 2e3, "compressibility": 1.0 / p, "viscosity": np.full(4, 0.02), "z-factor": np.ones(4)}
    with warnings.catch_warnings():
        warnings.simplefilter("ignore")
        FlowProperties(tab, 3000.0)
        second = FlowProperties(tab, 6000.0)
        fresh_ = FlowProperties({k: v.copy() for k, v in tab.items() if k in ("pressure", "pseudopressure", "compressibility", "viscosity", "z-factor")}, 6000.0)
    a, b = float(second.m_i), float(fresh_.m_i)
    return abs(a - b) > 1e-12 * abs(b), {"what": f"second FlowProperties built from the same dict: m_i = {a!r}, a wrapper built from a fresh copy gives {b!r}", "inputs": {}}


def job_balance(job, nx):
    mod = load_reservoir()
    job.encoded(mod, "IdealReservoir.simulate", "_build_matrix", "IdealReservoir.fvf_scale")

    def run():
        SS.LinSolve.reset(policy_exact())
        SS.reset_names()
        t, _ = times(2)
        r = mod.IdealReservoir(Q(nx), fresh("pf", pos=True), fresh("pi", pos=True), None)
        r.simulate(t)
        return rows_of(r), t, r

    for k, pr in enumerate(paths(job, run, [])):
        rows, t, r = pr.value
        dt = t.d[1] - t.d[0]
        h2inv = Q((nx - 1) ** 2)
        lhs = Q(0)
        for j in range(nx):
            lhs = lhs + rows[1][j] - rows[0][j]
        job.prove(f"balance[nx={nx}]/sum_j (x_new - x_old) == -(dt/h^2) x_new[0]", pr.pc + [not_close(lhs, -dt * h2inv * rows[1][0], abs_tol=Fraction(0))],
                  bound=f"nx={nx}, any dt", abstract=False)
        job.prove(f"balance[nx={nx}]/fvf_scale == 1 - p_f/p_i", pr.pc + [not_close(r.fvf_scale(), 1 - r.pressure_fracface / r.pressure_initial, abs_tol=Fraction(0))],
                  bound="any pressures")


class ConstAlphaFluid(FluidStub):
    """FlowProperties contract stub with a pressure-independent diffusivity (one positive symbol)."""

    def __init__(self, name=""):
        super().__init__(name)
        self.a0 = fresh(f"alpha0{name}", pos=True)

    def alpha(self, m):
        if isinstance(m, SymArray):
            return m._map(lambda _v: self.a0, "f8")
        return self.a0


def replay_balance_sp(model, nx=3, nt=3):
    """Real runs (public API, duck-typed constant-diffusivity fluid, the model's schedule; the model's steps and the
    same steps scaled up): at every step the change of the stored field over nodes 1.. must equal the flux through
    the face next to the fracture.  The havoc'd level of the symbolic step is not injected."""
    import numpy as np
    for scale in (1.0, 30.0, 1000.0):
        m2 = dict(model)
        m2.pop("__uf__", None)
        for k in range(1, nt):
            m2[f"dt{k}"] = scale * float(model.get(f"dt{k}") or 10.0 ** (-k))
        res, t, fluid = _real_run(m2, "SinglePhaseReservoir", nx, nt, True)
        pp = np.asarray(res.pseudopressure, float)
        for i in range(nt - 1):
            prev = np.minimum(pp[i], fluid.m_i)
            lhs = float(np.sum(pp[i + 1][1:] - prev[1:]))
            rhs = float((t[i + 1] - t[i]) * nx ** 2 * (pp[i + 1][0] - pp[i + 1][1]))
            if abs(lhs - rhs) > 1e-9 * (abs(lhs) + abs(rhs)) + 1e-12 * fluid.m_i:
                return True, {"what": f"SinglePhaseReservoir nx={nx}, constant diffusivity, times {t.tolist()}, m_f={fluid._mf}, m_i={fluid.m_i}: step {i}: "
                                      f"sum over nodes 1.. of (new - stored previous) = {lhs!r} but the flux through the first face is {rhs!r} "
                                      f"(previous level {pp[i].tolist()}, new level {pp[i + 1].tolist()})",
                              "inputs": {k: v for k, v in model.items() if k != "__uf__"}}
    return False, {"what": "discrete mass balance holds on the real runs", "inputs": {k: v for k, v in model.items() if k != "__uf__"}}


def replay_balance_reused(model, nx=3, nt=3):
    """Real runs: one SinglePhaseReservoir simulated with a constant-diffusivity fluid, its `fluid` replaced by another one
    (other diffusivity, other m_i), simulated again: the discrete mass balance of the second run."""
    import numpy as np
    from bluebonnet.flow import reservoir as rr
    from .c01 import _DuckFluid
    t = [0.0]
    for k in range(1, nt):
        t.append(t[-1] + float(model.get(f"dt{k}") or 10.0 ** (-k)))
    t = np.array(t)
    problems = []
    for a1, a2 in ((1.0, 7.0), (3.0, 0.2)):
        fa, fb = _DuckFluid({"m_i": 1.0}, nt), _DuckFluid({"m_i": 2.5}, nt)
        fa.alpha = lambda m, a=a1: np.full(np.shape(m), a) if hasattr(m, "__len__") else a
        fb.alpha = lambda m, a=a2: np.full(np.shape(m), a) if hasattr(m, "__len__") else a
        r = rr.SinglePhaseReservoir(nx, 0.0, float(nt), fa)
        r.simulate(t, pressure_fracface=np.arange(nt, dtype=float))
        r.fluid = fb
        r.simulate(t, pressure_fracface=np.arange(nt, dtype=float))
        pp = np.asarray(r.pseudopressure, float)
        for i in range(nt - 1):
            prev = np.minimum(pp[i], fb.m_i)
            lhs = float(np.sum(pp[i + 1][1:] - prev[1:]))
            rhs = float((t[i + 1] - t[i]) * nx ** 2 * (pp[i + 1][0] - pp[i + 1][1]))
            if abs(lhs - rhs) > 1e-9 * (abs(lhs) + abs(rhs)) + 1e-12 * fb.m_i:
                problems.append(f"object re-used after its fluid was replaced (constant diffusivity {a1} -> {a2}): step {i}: change of the stored field "
                                f"over nodes 1.. = {lhs!r} but the flux through the first face is {rhs!r}")
                break
    return bool(problems), {"what": "; ".join(problems[:2]) or "mass balance holds on the re-used object", "inputs": {k: v for k, v in model.items() if k != "__uf__"}}


def job_balance_sp(job, nx, reachable, reused=False, tseries=False):
    """Single-phase reservoir, pressure-independent diffusivity, arbitrary frac-face schedule: the stored field changes
    by exactly what crosses the face next to the fracture (discrete mass conservation of the interior and outer rows).
    reachable=False: step from an arbitrary level inside C01's bounds; True: first two steps from the initial state."""
    mod = load_reservoir()
    job.encoded(mod, "SinglePhaseReservoir.simulate", "_build_matrix", "SinglePhaseReservoir.alpha_scaled")
    job.stub("fluid*: FlowProperties contract stub with constant diffusivity", "linear solve: ideal solve A x = b")
    nt = 3
    tag = f"balance-singlephase[nx={nx},{'from the initial state' if reachable else 'arbitrary level'}{',object re-used after its fluid was replaced' if reused else ''}{',time grid a pandas Series' if tseries else ''}]"
    hold = {}

    def pol(rec):
        if rec["index"] == 0 and not reachable:
            c = ctx()
            fl = hold["fluid"]
            from ..sx.sym import s_min
            lo = list(fl._mf.values())[0]
            for x in rec["x"]:
                c.assume((lift(x) >= lift(lo)).node)
                c.assume((lift(x) <= lift(fl.m_i)).node)
            return 0
        SS.exact_solve(rec)
        return 0

    def run():
        SS.LinSolve.reset(pol)
        SS.reset_names()
        t, _ = times(nt)
        if tseries:
            from ..shims.pd_shim import SymSeries
            t = SymSeries(list(t.d), "f8", list(range(nt)))      # the time column of a production table
        fluid = ConstAlphaFluid()
        hold["fluid"] = fluid
        if reused:
            # an earlier run of the same object with another constant-diffusivity fluid (solves of that run: exact)
            first = ConstAlphaFluid("_first")
            hold["fluid"] = first
            r = mod.SinglePhaseReservoir(Q(nx), fresh("pf"), fresh("pi", pos=True), first)
            r.simulate(t, pressure_fracface=SymArray([fresh(f"pfs0_{k}") for k in range(nt)], "f8"))
            SS.LinSolve.reset(pol)
            r.fluid = fluid
            hold["fluid"] = fluid
        else:
            r = mod.SinglePhaseReservoir(Q(nx), fresh("pf"), fresh("pi", pos=True), fluid)
        r.simulate(t, pressure_fracface=SymArray([fresh(f"pfs{k}") for k in range(nt)], "f8"))
        return rows_of(r), t, fluid

    rp = (replay_balance_reused, {"nx": nx, "nt": nt}) if reused else (replay_balance_sp, {"nx": nx, "nt": nt})
    if tseries:
        rp = (replay_series_time, {"cls": "SinglePhaseReservoir", "nx": nx})
    for k, pr in enumerate(paths(job, run, [], max_paths=16)):
        if pr.exc is not None:
            if tseries:
                job.prove(f"{tag}/raises {type(pr.exc).__name__}[path{k}]", pr.pc, bound=f"nx={nx}", replay=rp, note=repr(pr.exc)[:100])
                continue
            job.errors.append(f"{tag} raised {pr.exc!r}")
            continue
        rows, t, fluid = pr.value
        from ..sx.sym import s_min
        for i in range(nt - 1):
            if i == 0 and not reachable:
                continue        # level 1 is the havoc'd one here: only the step that starts from it is a solve
            dt = t.d[i + 1] - t.d[i]
            lhs = Q(0)
            for j in range(1, nx):
                lhs = lhs + rows[i + 1][j] - s_min(rows[i][j], fluid.m_i)
            rhs = dt * Q(nx * nx) * (rows[i + 1][0] - rows[i + 1][1])
            job.prove(f"{tag}/step {i}: change of the stored field over nodes 1.. == flux through the first face[path{k}]",
                      pr.pc + [not_close(lhs, rhs, abs_tol=Fraction(0))], bound=f"nx={nx}, any dt, any schedule", replay=rp, elim=True)
        job.prove(f"{tag}/reach[path{k}]", pr.pc, expect="sat", elim=True)


def _falling_table(n=400, p_lo=100.0, p_hi=6000.0):
    """A thermodynamically consistent single-phase table whose diffusivity FALLS with pressure: z = 1, density ~ p,
    compressibility 1/p, viscosity ~ p^2 (so alpha = 1/(c mu) ~ 1/p), pseudopressure the exact integral of 2p/(mu z)."""
    import numpy as np
    import pandas as pd
    p = np.linspace(p_lo, p_hi, n)
    mu = 0.02 * (p / 1000.0) ** 2
    pp = 2 * 1000.0 ** 2 / 0.02 * np.log(p / p_lo)           # integral of 2p/(mu z) from p_lo
    return pd.DataFrame({"pressure": p, "z-factor": np.ones(n), "density": 0.05 * p, "compressibility": 1.0 / p, "viscosity": mu, "pseudopressure": pp})


def replay_diffusivity_ratio(model, nx=3):
    """Real SinglePhaseReservoir on a consistent table whose diffusivity falls with pressure (the ratio alpha(m)/alpha(m_i)
    is above 1 in the depleted zone): alpha_scaled against the fluid's own ratio, and the flux / in-place recovery gap on
    a refinement ladder (it must shrink, as it does for tables whose diffusivity rises with pressure)."""
    import warnings
    import numpy as np
    from bluebonnet.flow import FlowProperties, SinglePhaseReservoir
    with warnings.catch_warnings():
        warnings.simplefilter("ignore")
        fluid = FlowProperties(_falling_table(), 5000.0)
    r = SinglePhaseReservoir(20, 500.0, 5000.0, fluid)
    m = np.linspace(float(fluid.m_scaled_func(500.0)), float(fluid.m_i), 9)
    got = np.asarray(r.alpha_scaled(m), float)
    want = np.asarray(fluid.alpha(m), float) / float(fluid.alpha(fluid.m_i))
    if got.shape != want.shape or np.any(np.abs(got - want) > 1e-12 * np.abs(want)):
        return True, {"what": f"SinglePhaseReservoir.alpha_scaled on a table whose diffusivity falls with pressure (z = 1, c = 1/p, viscosity ~ p^2): "
                              f"{got.tolist()} vs the fluid's alpha(m)/alpha(m_i) = {want.tolist()}", "inputs": {"table": "z=1, c=1/p, mu~p^2, p_i=5000, p_f=500"}}
    gaps = []
    for n in (20, 80):
        r = SinglePhaseReservoir(n, 500.0, 5000.0, fluid)
        r.simulate(np.linspace(0, np.sqrt(0.3), 40 * n // 20 * n // 20 + 1) ** 2)
        gaps.append(float(abs(np.asarray(r.recovery_factor(), float)[-1] - np.asarray(r.recovery_factor(density=True), float)[-1])))
    bad = not gaps[1] < 0.6 * gaps[0]
    return bad, {"what": f"falling-diffusivity table: |flux recovery - in-place recovery| at the end of the run for nx = 20, 80: {gaps}", "inputs": {"table": "z=1, c=1/p, mu~p^2"}}


def job_diffusivity_ratio(job, nx):
    """The balance between flux and in-place recovery rests on the step using the fluid's own diffusivity 1/(c mu): the
    scaled diffusivity is alpha(m)/alpha(m_i) for every value the (uninterpreted, positive) diffusivity function takes -
    also where the ratio is above 1 (diffusivity falling with pressure) or tiny."""
    mod = load_reservoir()
    job.encoded(mod, "SinglePhaseReservoir.alpha_scaled")
    job.stub("fluid.alpha: uninterpreted positive function of scaled pseudopressure")
    job.bound(nx=nx)

    def run():
        SS.reset_names()
        fluid = FluidStub()
        r = mod.SinglePhaseReservoir(Q(nx), fresh("pf"), fresh("pi", pos=True), fluid)
        m = SymArray([fresh(f"m{j}") for j in range(nx)], "f8")
        return r.alpha_scaled(m), m, fluid
    rp = (replay_diffusivity_ratio, {"nx": nx})
    for k, pr in enumerate(paths(job, run, [], max_paths=64)):
        if pr.exc is not None:
            job.errors.append(f"alpha_scaled raised {pr.exc!r}")
            continue
        got, m, fluid = pr.value
        if not isinstance(got, SymArray) or len(got.d) != nx:
            job.prove(f"diffusivity-ratio[nx={nx}]/one value per node[path{k}]", pr.pc, bound=f"nx={nx}", replay=rp)
            continue
        want = [fluid.alpha(x) / fluid.alpha(fluid.m_i) for x in m.d]
        job.prove(f"diffusivity-ratio[nx={nx}]/alpha_scaled == alpha(m)/alpha(m_i) for any positive diffusivity values[path{k}]",
                  pr.pc + [T.b_or(*[not_close(g, w, abs_tol=Fraction(0)) for g, w in zip(got.d, want)])], bound=f"nx={nx}, any positive alpha values", replay=rp)
    job.prove(f"diffusivity-ratio[nx={nx}]/reach", [], expect="sat")


def replay_diffusivity_own_table(model, frame="labelled"):
    """Real FlowProperties built from the falling-diffusivity table as a DataFrame whose integer row labels are a
    permutation of the row positions (a file stored high-pressure-first and sorted with sort_values, no reset_index) against
    the same table as a dict of arrays: the scaled diffusivity the reservoir uses, and both recoveries of a run."""
    import warnings
    import numpy as np
    from bluebonnet.flow import FlowProperties, SinglePhaseReservoir
    df = _falling_table(60)
    lab = df.iloc[::-1].reset_index(drop=True).sort_values("pressure")      # labels 59..0 in row order
    with warnings.catch_warnings():
        warnings.simplefilter("ignore")
        f_lab = FlowProperties(lab, 5000.0)
        f_ref = FlowProperties({c: df[c].to_numpy().copy() for c in df.columns}, 5000.0)
    m = np.linspace(float(f_ref.m_scaled_func(500.0)), float(f_ref.m_i), 9)
    r_lab, r_ref = SinglePhaseReservoir(20, 500.0, 5000.0, f_lab), SinglePhaseReservoir(20, 500.0, 5000.0, f_ref)
    got, want = np.asarray(r_lab.alpha_scaled(m), float), np.asarray(r_ref.alpha_scaled(m), float)
    if got.shape != want.shape or np.any(np.abs(got - want) > 1e-9 * np.abs(want)):
        return True, {"what": f"scaled diffusivity from a DataFrame table with permuted integer row labels {got.tolist()} vs the same table as a dict of arrays {want.tolist()}",
                      "inputs": {"table": "z=1, c=1/p, mu~p^2, 60 rows, labels 59..0"}}
    t = np.linspace(0, 0.6, 61) ** 2
    r_lab.simulate(t)
    r_ref.simulate(t)
    a, b = np.asarray(r_lab.recovery_factor(), float), np.asarray(r_ref.recovery_factor(), float)
    bad = bool(np.any(np.abs(a - b) > 1e-9 * (1 + np.abs(b))))
    return bad, {"what": f"flux recovery at the end of the run: labelled frame {a[-1]!r}, dict of arrays {b[-1]!r}", "inputs": {"table": "z=1, c=1/p, mu~p^2, 60 rows"}}


def job_diffusivity_own_table(job, frame):
    """The same statement with the library's own FlowProperties (executed symbolically) as the fluid: at every table node
    the reservoir's scaled diffusivity is the node's alpha over alpha(m_i) - for a dict of arrays and for a DataFrame whose
    integer row labels are the reverse of the row positions."""
    from .c09 import _table, _load as _load_fp, LONG
    mod = load_reservoir()
    fpm = _load_fp()
    job.encoded(mod, "SinglePhaseReservoir.alpha_scaled")
    job.encoded(fpm, "FlowProperties.__init__")
    job.stub("scipy.interpolate.interp1d: exact piecewise-linear model")
    n = 3
    job.bound(table_rows=n, table_kind=str(frame))
    tab, ps, dom = _table(n, LONG, frame=frame)
    import warnings
    tag = f"diffusivity-own-table[{'labelled frame' if frame == 'labelled' else 'dict'},N={n}]"
    rp = (replay_diffusivity_own_table, {"frame": frame})

    def run():
        with warnings.catch_warnings():
            warnings.simplefilter("ignore")
            fluid = fpm.FlowProperties(tab, ps[-1])
        r = mod.SinglePhaseReservoir(Q(n), fresh("pf", pos=True), ps[-1], fluid)
        ms, al = fluid.pvt_props["m-scaled"], fluid.pvt_props["alpha"]
        return r.alpha_scaled(SymArray(list(ms.d), "f8")), list(al.d), fluid.alpha(fluid.m_i)
    res = paths(job, run, dom, max_paths=128, catch=(ValueError, SS.NonMonotoneAbscissae))
    done = 0
    for k, pr in enumerate(res):
        if pr.exc is not None:
            if isinstance(pr.exc, SS.NonMonotoneAbscissae):
                job.prove(f"{tag}/scaled pseudopressure not monotone[path{k}]", pr.pc, bound=f"{n} rows", replay=rp)
            continue
        got, al, ai = pr.value
        done += 1
        job.prove(f"{tag}/alpha_scaled at every node == node's alpha / alpha(m_i)[path{k}]",
                  pr.pc + [T.b_or(*[not_close(g, a / ai, abs_tol=Fraction(0)) for g, a in zip(got.d, al)])], bound=f"{n} rows", replay=rp)
        job.prove(f"{tag}/reach[path{k}]", pr.pc, expect="sat")
    if not done:
        job.errors.append(f"{tag}: no path constructs the fluid")


def job_flux_is_boundary_derivative(job, nx):
    """Shared with C02-L5: the flux-mode recovery is FVF scale x trapezoid-in-time of the exact boundary
    derivative for a quadratic profile - the quantity whose in-place counterpart is the mass change."""
    from .c02 import job_recovery
    job_recovery(job, nx)


# concrete replays run on the real code when the changed code uses something the engine does not model (harness.finish)
FALLBACK = [(replay_diffusivity_ratio, {}), (replay_diffusivity_own_table, {}), (replay_ceiling_run, {}), (replay_ceiling_run, {"tdtype": "f8"}), (replay_balance_sp, {}), (replay_flux, {}), (replay_flux, {"cls": "IdealReservoir"})]


def jobs(tier):
    out = [("flux-derivative-5", lambda j: job_flux_is_boundary_derivative(j, 5)), ("ceiling-3-2", lambda j: job_zero_and_ceiling(j, 3, 2)), ("ceiling-4-2", lambda j: job_zero_and_ceiling(j, 4, 2)),
           ("scale", job_scale), ("trapezoid-4", lambda j: job_trapezoid(j, 4)),
           ("ceiling-3-3-descending", lambda j: job_zero_and_ceiling(j, 3, 3, True)),
           ("ceiling-run-3-float", lambda j: job_ceiling_run(j, 3, "f8")), ("ceiling-run-3-int", lambda j: job_ceiling_run(j, 3, "i8")),
           ("ceiling-run-3-after-a-schedule-run", lambda j: job_ceiling_run(j, 3, "f8", True))]
    for cls in ("SinglePhaseReservoir", "IdealReservoir"):
        out.append((f"flux-{cls[:6]}-3", lambda j, c=cls: job_flux_monotone(j, c, 3)))
    for nx in ((3, 5) if tier == "quick" else (3, 4, 5, 8)):
        out.append((f"balance-{nx}", lambda j, n=nx: job_balance(j, n)))
    for nx in ((3, 4) if tier == "quick" else (3, 4, 5, 6)):
        out.append((f"balance-sp-{nx}", lambda j, n=nx: job_balance_sp(j, n, False)))
        out.append((f"balance-sp-reach-{nx}", lambda j, n=nx: job_balance_sp(j, n, True)))
    out.append(("diffusivity-ratio-3", lambda j: job_diffusivity_ratio(j, 3)))
    out.append(("diffusivity-own-table-dict", lambda j: job_diffusivity_own_table(j, False)))
    out.append(("diffusivity-own-table-labelled-frame", lambda j: job_diffusivity_own_table(j, "labelled")))
    out.append(("balance-sp-reused-3", lambda j: job_balance_sp(j, 3, True, True)))
    out.append(("balance-sp-series-time-3", lambda j: job_balance_sp(j, 3, True, False, True)))
    if tier != "quick":
        out += [("ceiling-5-3", lambda j: job_zero_and_ceiling(j, 5, 3)), ("ceiling-3-3", lambda j: job_zero_and_ceiling(j, 3, 3)),
                ("trapezoid-6", lambda j: job_trapezoid(j, 6))]
        # flux monotonicity at nx = 4 was tried here and z3 answers unknown at 600 s: outside the claim (stated bound nx = 3)
    return out
