"""C12 - black-oil correlations are continuous and correctly ordered at the bubble point.

The scalar correlations are executed on symbolic inputs; the bubble-point test splits the run
into an 'at/above' and a 'below' path.  Continuity is decided branch-formula-wise: the term the
'below' path returns is re-evaluated at p := p_b(T, API, gamma_g, R_si) (substitution through the
normalising constructors, i.e. the continuous extension of that branch) and compared with the
term of the 'at/above' path at the same point.  Orderings are two-point statements.
"""
from __future__ import annotations

from fractions import Fraction

from ..sx import terms as T
from .common import (P, box, check_defined, evalf, load_sym, model_floats, not_close, paths, rng, K, Q, Sym, lift,
                     simp, fresh)
from .c13 import OIL_BOX, _uf, _var_atom
from .common import SymI  # noqa: F401


def _at(term, p_atom, value):
    return simp(T.substitute(P(term), {p_atom: P(value)}))


# ------------------------------------------------------------------ replays

def _oil_args(m):
    return m["T"], m["api"], m["gg"], m["rsi"]


def replay_continuity(model, fn="solution_gor_Standing"):
    from bluebonnet.fluids import oil
    m = model_floats(model, ["T", "api", "gg", "rsi"])
    T_, api, gg, rsi = _oil_args(m)
    pb = oil.pressure_bubblepoint_Standing(T_, api, gg, rsi)
    f = getattr(oil, fn)
    lo, hi = float(f(T_, pb * (1 - 1e-9), api, gg, rsi)), float(f(T_, pb, api, gg, rsi))
    bad = abs(lo - hi) > 1e-6 * abs(hi)
    return bad, {"what": f"{fn} just below the bubble point {lo!r} vs at it {hi!r} (p_b={pb!r})", "inputs": m}


def replay_two_point(model, fn="solution_gor_Standing", sense="nondecreasing", region=None):
    from bluebonnet.fluids import oil
    m = model_floats(model, ["T", "api", "gg", "rsi", "p1", "p2"])
    T_, api, gg, rsi = _oil_args(m)
    f = getattr(oil, fn)
    pb = oil.pressure_bubblepoint_Standing(T_, api, gg, rsi)
    if not (pb > 50 and 15 <= m["p1"] < m["p2"] <= 2.5 * pb):
        return False, {"what": "model point outside the property's quantifier on the real code", "inputs": m, "pb": pb}
    if region == "below" and not m["p2"] < pb or region == "above" and not m["p1"] >= pb:
        return False, {"what": "pressures not on the required side of the real bubble point", "inputs": m, "pb": pb}
    a, b = float(f(T_, m["p1"], api, gg, rsi)), float(f(T_, m["p2"], api, gg, rsi))
    if sense == "nondecreasing":
        bad = m["p1"] < m["p2"] and a > b * (1 + 1e-12)
    elif sense == "increasing":
        bad = m["p1"] < m["p2"] and not a < b
    else:
        bad = m["p1"] < m["p2"] and a < b * (1 - 1e-12)
    return bad, {"what": f"{fn}: p1={m['p1']!r} -> {a!r}, p2={m['p2']!r} -> {b!r}, expected {sense}", "inputs": m}


def replay_bo_above(model):
    from bluebonnet.fluids import oil
    m = model_floats(model, ["T", "api", "gg", "rsi", "p2"])
    T_, api, gg, rsi = _oil_args(m)
    pb = oil.pressure_bubblepoint_Standing(T_, api, gg, rsi)
    if not (pb > 50 and pb <= m["p2"] <= 2.5 * pb):
        return False, {"what": "model point outside the property's quantifier on the real code", "inputs": m, "pb": pb}
    a, b = float(oil.b_o_Standing(T_, pb, api, gg, rsi)), float(oil.b_o_Standing(T_, m["p2"], api, gg, rsi))
    return b > a * (1 + 1e-12), {"what": f"b_o_Standing at p_b={pb!r}: {a!r}; at p={m['p2']!r} above it: {b!r}", "inputs": m}


def replay_inverse(model):
    from bluebonnet.fluids import oil
    m = model_floats(model, ["T", "api", "gg", "rsi", "p"])
    T_, api, gg, rsi = _oil_args(m)
    rs = oil.solution_gor_Standing(T_, m["p"], api, gg, rsi)
    back = oil.pressure_bubblepoint_Standing(T_, api, gg, rs)
    pb = oil.pressure_bubblepoint_Standing(T_, api, gg, rsi)
    bad = m["p"] < pb and abs(back - m["p"]) > 1e-8 * m["p"]
    return bad, {"what": f"p_b(R_s(p)) = {back!r} for p = {m['p']!r} below the bubble point {pb!r}", "inputs": m}


def replay_rs_above(model):
    from bluebonnet.fluids import oil
    m = model_floats(model, ["T", "api", "gg", "rsi", "p"])
    T_, api, gg, rsi = _oil_args(m)
    pb = oil.pressure_bubblepoint_Standing(T_, api, gg, rsi)
    rs = oil.solution_gor_Standing(T_, m["p"], api, gg, rsi)
    return (m["p"] >= pb and rs != rsi), {"what": f"R_s({m['p']!r}) = {rs!r} at/above p_b={pb!r}, R_si={rsi!r}", "inputs": m}


def replay_visc_pos(model):
    from bluebonnet.fluids import oil
    m = model_floats(model, ["T", "api", "gg", "rsi", "p"])
    T_, api, gg, rsi = _oil_args(m)
    v = float(oil.viscosity_beggs_robinson(T_, m["p"], api, gg, rsi))
    return (not v > 0), {"what": f"viscosity_beggs_robinson = {v!r}", "inputs": m}


# ------------------------------------------------------------------ jobs

def _setup(job, extra=None, **loadkw):
    oil = load_sym("bluebonnet.fluids.oil", **loadkw)
    ranges = dict(OIL_BOX)
    ranges.update(extra or {})
    vs, dom = box(job, **ranges)
    T_, api, gg, rsi = vs["T"], vs["api"], vs["gg"], vs["rsi"]
    job.bound(oil_box="T 80..350 F, API 12..55, gas gravity 0.56..1.3, initial GOR 20..2500 scf/bbl, bubble point > 50 "
                      "psia, pressures 15 psia .. 2.5 x bubble point")
    return oil, vs, dom, (T_, api, gg, rsi)


def _pb_conds(oil, a4, ps):
    """Assumptions: p_b > 50, each p in [15, 2.5 p_b]."""
    from ..sx.sym import Context
    prev = Context.current
    Context.current = Context()
    try:
        pb = oil.pressure_bubblepoint_Standing(*a4)
    finally:
        Context.current = prev
    conds = [T.b_lt(T.Poly.const(50), P(pb))]
    for p in ps:
        conds += [T.b_le(T.Poly.const(15), P(p)), T.b_le(P(p), T.p_scale(P(pb), Fraction(5, 2)))]
    return pb, conds


def _two_sides(job, name, res):
    """Return (above_path, below_path) of a single-pressure exploration."""
    if len(res) != 2 or any(r.exc is not None for r in res):
        job.errors.append(f"{name}: expected one path on each side of the bubble point, got "
                          f"{[(r.exc, len(r.ctx.decisions)) for r in res]}")
        return None
    return res


def job_continuity(job):
    sp = _uf("c_o_Spivey", like=__import__("bluebonnet.fluids.oil", fromlist=["x"]).oil_compressibility_undersat_Spivey)
    oil, vs, dom, a4 = _setup(job, extra=dict(p=(15, 50000)), oil_compressibility_undersat_Spivey=sp)
    job.encoded(oil, "solution_gor_Standing", "b_o_Standing", "density_Standing", "viscosity_beggs_robinson",
                "_mu_dead_to_live_br", "pressure_bubblepoint_Standing", "b_o_bubblepoint_Standing")
    job.stub("oil_compressibility_undersat_Spivey: positive uninterpreted function (only its finiteness matters here)")
    T_, api, gg, rsi = a4
    p = vs["p"]
    p_atom = _var_atom(p)
    pb, pbc = _pb_conds(oil, a4, [p])
    dom = dom + pbc
    from bluebonnet.fluids import oil as ro
    for fn in ("solution_gor_Standing", "b_o_Standing", "density_Standing", "viscosity_beggs_robinson"):
        f = getattr(oil, fn)
        res = paths(job, lambda: (f(T_, p, api, gg, rsi), bool(p >= pb)), dom)
        if _two_sides(job, fn, res) is None:
            continue
        above = next(r for r in res if r.value[1])
        below = next(r for r in res if not r.value[1])
        va = _at(above.value[0], p_atom, pb)
        vb = _at(below.value[0], p_atom, pb)
        base = [c for c in dom]
        job.prove(f"continuity/{fn}", base + [not_close(vb, va)], bound="oil box", replay=(replay_continuity, {"fn": fn}),
                  note="syntactic" if P(va) == P(vb) else None)
        for side, r in (("above", above), ("below", below)):
            job.prove(f"continuity/{fn}/reach[{side}]", r.pc, expect="sat")
            check_defined(job, f"continuity/{fn}/{side}", r)
            for env in (dict(T=200.0, api=35.0, gg=0.8, rsi=650.0, p=3000.0), dict(T=200.0, api=35.0, gg=0.8, rsi=650.0, p=2000.0)):
                pbr = ro.pressure_bubblepoint_Standing(200.0, 35.0, 0.8, 650.0)
                if (env["p"] >= pbr) != (side == "above"):
                    continue
                ufs = {"c_o_Spivey": ro.oil_compressibility_undersat_Spivey}
                job.validate(fn, evalf(r.value[0], env, ufs), float(getattr(ro, fn)(env["T"], env["p"], env["api"], env["gg"], env["rsi"])), inputs=env)


def job_rs(job):
    oil, vs, dom, a4 = _setup(job, extra=dict(p1=(15, 50000), p2=(15, 50000)))
    job.encoded(oil, "solution_gor_Standing", "pressure_bubblepoint_Standing")
    T_, api, gg, rsi = a4
    p1, p2 = vs["p1"], vs["p2"]
    pb, pbc = _pb_conds(oil, a4, [p1, p2])
    dom = dom + pbc + [T.b_lt(P(p1), P(p2))]
    res = paths(job, lambda: (oil.solution_gor_Standing(T_, p1, api, gg, rsi), oil.solution_gor_Standing(T_, p2, api, gg, rsi),
                              bool(p1 >= pb), bool(p2 >= pb)), dom)
    seen = set()
    for k, r in enumerate(res):
        if r.exc is not None:
            job.errors.append(f"rs path {k} raised {r.exc!r}")
            continue
        r1, r2, a1, a2 = r.value
        seen.add((a1, a2))
        tag = f"p1 {'>=' if a1 else '<'} pb, p2 {'>=' if a2 else '<'} pb"
        job.prove(f"Rs/non-decreasing[{tag}]", r.pc + [T.b_lt(P(r2), P(r1))], bound="oil box, p1<p2",
                  replay=(replay_two_point, {"fn": "solution_gor_Standing", "sense": "nondecreasing"}))
        if a2:
            job.prove(f"Rs/==Rsi at and above pb[{tag}]", r.pc + [not_close(r2, rsi)], bound="oil box",
                      replay=lambda m: replay_rs_above({**m, "p": m.get("p2")}))
        else:
            back = oil.pressure_bubblepoint_Standing(T_, api, gg, r2)
            job.prove(f"Rs/pb(Rs(p))==p below pb[{tag}]", r.pc + [not_close(back, p2)], bound="oil box",
                      replay=lambda m: replay_inverse({**m, "p": m.get("p2")}))
        job.prove(f"Rs/reach[{tag}]", r.pc, expect="sat")
    if seen != {(True, True), (False, True), (False, False)}:
        job.errors.append(f"Rs: expected the three orderings of (p1, p2) around the bubble point, got {sorted(seen)}")


def job_bo(job):
    sp = _uf("c_o_Spivey", like=__import__("bluebonnet.fluids.oil", fromlist=["x"]).oil_compressibility_undersat_Spivey)
    oil, vs, dom, a4 = _setup(job, extra=dict(p1=(15, 50000), p2=(15, 50000)), oil_compressibility_undersat_Spivey=sp)
    job.encoded(oil, "b_o_Standing", "b_o_bubblepoint_Standing", "solution_gor_Standing")
    job.stub("oil_compressibility_undersat_Spivey: positive uninterpreted function (its positivity over the box is a "
             "transcendental sign claim outside the solver's reach and is assumed)")
    job.assume_text("undersaturated oil compressibility (Spivey) is positive")
    T_, api, gg, rsi = a4
    p1, p2 = vs["p1"], vs["p2"]
    p2_atom = _var_atom(p2)
    pb, pbc = _pb_conds(oil, a4, [p1, p2])
    dom = dom + pbc + [T.b_lt(P(p1), P(p2))]
    res = paths(job, lambda: (oil.b_o_Standing(T_, p1, api, gg, rsi), oil.b_o_Standing(T_, p2, api, gg, rsi),
                              bool(p1 >= pb), bool(p2 >= pb)), dom)
    seen = set()
    for k, r in enumerate(res):
        if r.exc is not None:
            job.errors.append(f"bo path {k} raised {r.exc!r}")
            continue
        b1, b2, a1, a2 = r.value
        seen.add((a1, a2))
        tag = f"p1 {'>=' if a1 else '<'} pb, p2 {'>=' if a2 else '<'} pb"
        if not a1 and not a2:
            job.prove(f"Bo/increasing below pb[{tag}]", r.pc + [T.b_le(P(b2), P(b1))], bound="oil box, p1<p2<pb",
                      replay=(replay_two_point, {"fn": "b_o_Standing", "sense": "increasing", "region": "below"}))
        if a2:
            # B_o(p2) <= B_o(p_b): compare with the same branch formula at p := p_b
            bpb = _at(b2, p2_atom, pb)
            job.prove(f"Bo/Bo(p)<=Bo(pb) above pb[{tag}]", r.pc + [T.b_lt(P(bpb), P(b2))], bound="oil box",
                      replay=replay_bo_above)
        if a1 and a2:
            pass
        job.prove(f"Bo/reach[{tag}]", r.pc, expect="sat")
    if len(seen) != 3:
        job.errors.append(f"Bo: expected three orderings around the bubble point, got {sorted(seen)}")


def job_visc(job):
    oil, vs, dom, a4 = _setup(job, extra=dict(p=(15, 50000)))
    job.encoded(oil, "viscosity_beggs_robinson", "_mu_dead_to_live_br")
    T_, api, gg, rsi = a4
    p = vs["p"]
    pb, pbc = _pb_conds(oil, a4, [p])
    dom = dom + pbc
    res = paths(job, lambda: (oil.viscosity_beggs_robinson(T_, p, api, gg, rsi), bool(p >= pb)), dom)
    if _two_sides(job, "viscosity", res) is None:
        return
    for r in res:
        mu, above = r.value
        side = "above" if above else "below"
        job.prove(f"viscosity/positive[{side}]", r.pc + [T.b_le0(P(mu))], bound="oil box", replay=replay_visc_pos)
        job.prove(f"viscosity/reach[{side}]", r.pc, expect="sat")
        check_defined(job, f"viscosity/{side}", r)


def replay_array(model, dtype="f8", intparams=False, descending=False, series=False):
    """The orderings on the array entry points (one call with both pressures), real code."""
    import numpy as np
    from bluebonnet.fluids import oil
    m = model_floats(model, ["T", "api", "gg", "rsi", "p1", "p2"])
    if intparams:
        for k in ("T", "api", "rsi"):
            m[k] = int(round(m[k]))
    T_, api, gg, rsi = _oil_args(m)
    pb = float(oil.pressure_bubblepoint_Standing(T_, api, gg, rsi))
    ps = [m["p1"], m["p2"]]
    if dtype.startswith("i"):
        ps = [float(round(x)) for x in ps]
    if not (pb > 50 and 15 <= ps[0] < ps[1] <= 2.5 * pb):
        return False, {"what": "model point outside the property's quantifier on the real code", "inputs": m, "pb": pb}
    if dtype == "f8":
        # an element exactly at the bubble point (bit for bit, as a caller gets it from pressure_bubblepoint_Standing):
        # the solver's value for it cannot be hit in doubles, so the real p_b is put in its place
        for trial in ([0.5 * pb, pb], [pb, min(1.5 * pb, 2.4 * pb)]):
            arr = np.array(trial)
            with np.errstate(all="ignore"):
                rs = np.asarray(oil.solution_gor_Standing(T_, arr, api, gg, rsi), float)
                bo = np.asarray(oil.b_o_Standing(T_, arr, api, gg, rsi), float)
            bad = []
            for j, p in enumerate(trial):
                rs_s, bo_s = float(oil.solution_gor_Standing(T_, float(p), api, gg, rsi)), float(oil.b_o_Standing(T_, float(p), api, gg, rsi))
                if not (np.isfinite(rs[j]) and abs(rs[j] - rs_s) <= 1e-9 * abs(rs_s)):
                    bad.append(f"R_s array element at p={p!r} is {rs[j]!r}, scalar call gives {rs_s!r}")
                if not (np.isfinite(bo[j]) and abs(bo[j] - bo_s) <= 1e-9 * abs(bo_s)):
                    bad.append(f"B_o array element at p={p!r} is {bo[j]!r}, scalar call gives {bo_s!r}")
            if bad:
                return True, {"what": f"array entry points with an element exactly at the bubble point p_b={pb!r}: " + "; ".join(bad[:2]), "inputs": m, "pressures": trial}
    arr = np.array(ps, dtype={"f8": "float64", "i8": "int64", "i4": "int32"}[dtype])
    if series:
        # the pressure column of a table that was re-ordered (index labels 1, 0 in row order): positions pair pressures with results
        import pandas as pd
        sarr = pd.Series(arr, index=[1, 0])
        with np.errstate(all="ignore"):
            try:
                rs_s = np.asarray(oil.solution_gor_Standing(T_, sarr, api, gg, rsi), float)
                bo_s = np.asarray(oil.b_o_Standing(T_, sarr, api, gg, rsi), float)
            except Exception as ex:  # noqa: BLE001
                return True, {"what": f"array entry points raised {ex!r} on a pressure Series labelled 1, 0", "inputs": m}
        bad = []
        for j, q in enumerate(ps):
            for nm, got, f in (("R_s", rs_s, oil.solution_gor_Standing), ("B_o", bo_s, oil.b_o_Standing)):
                want = float(f(T_, float(q), api, gg, rsi))
                if got.shape != arr.shape or not abs(float(got[j]) - want) <= 1e-9 * abs(want):
                    bad.append(f"{nm} at position {j} (p={q!r}) is {float(got[j]) if got.shape == arr.shape else got!r}, the scalar call gives {want!r}")
        if bad:
            return True, {"what": f"pressure Series {ps} labelled 1, 0 (p_b={pb!r}): " + "; ".join(bad[:2]), "inputs": m}
    with np.errstate(all="ignore"):
        if descending:
            # the same two pressures listed from high to low (a depletion sequence); results mapped back to ascending order
            rs = np.asarray(oil.solution_gor_Standing(T_, arr[::-1].copy(), api, gg, rsi), float)[::-1]
            bo = np.asarray(oil.b_o_Standing(T_, arr[::-1].copy(), api, gg, rsi), float)[::-1]
        else:
            rs = np.asarray(oil.solution_gor_Standing(T_, arr, api, gg, rsi), float)
            bo = np.asarray(oil.b_o_Standing(T_, arr, api, gg, rsi), float)
    problems = []
    for j, p in enumerate(ps):
        if p < pb:
            back = float(oil.pressure_bubblepoint_Standing(T_, api, gg, float(rs[j])))
            if abs(back - p) > 1e-8 * p:
                problems.append(f"p_b(R_s(p)) = {back!r} for p = {p!r} below the bubble point {pb!r}")
        elif rs[j] != rsi:
            problems.append(f"R_s({p!r}) = {rs[j]!r} at/above p_b={pb!r}, R_si={rsi!r}")
    if rs[0] > rs[1] * (1 + 1e-12):
        problems.append(f"R_s decreasing: {rs.tolist()} at {ps}")
    if ps[1] < pb and not bo[0] < bo[1]:
        problems.append(f"B_o not increasing below the bubble point: {bo.tolist()} at {ps}")
    # every element of the array result is what the scalar call gives at that pressure (arrays straddling the bubble
    # point and arrays above it: the orderings decided for the scalar form carry over element by element)
    trials = [ps] + ([[0.6 * pb, 1.3 * pb], [1.1 * pb, 1.7 * pb], [0.3 * pb, 0.8 * pb]] if dtype == "f8" else [[float(round(0.6 * pb)), float(round(1.3 * pb))]])
    for trial in trials:
        a2 = np.array(trial, dtype={"f8": "float64", "i8": "int64", "i4": "int32"}[dtype])
        with np.errstate(all="ignore"):
            bo2 = np.asarray(oil.b_o_Standing(T_, a2[::-1].copy() if descending else a2, api, gg, rsi), float)
            bo2 = bo2[::-1] if descending else bo2
        for j, q in enumerate(trial):
            bo_s = float(oil.b_o_Standing(T_, float(q), api, gg, rsi))
            if not (np.isfinite(bo2[j]) and abs(bo2[j] - bo_s) <= 1e-9 * abs(bo_s)):
                problems.append(f"B_o array element at p={q!r} (array {trial}, p_b={pb!r}) is {bo2[j]!r}, the scalar call gives {bo_s!r}")
    return bool(problems), {"what": f"array entry points on {arr.dtype}{' with Python-int parameters' if intparams else ''}: "
                                    + ("; ".join(problems[:2]) or "orderings hold"), "inputs": m, "pressures": ps}


def job_array(job, variants=(("f8", False), ("i8", False), ("i8", True), ("f8", True))):
    """The same orderings through the array entry points (every pressure array is an oil input too): one call with
    both pressures, float64 and int64 arrays, float and Python-int scalar parameters."""
    from ..shims.np_shim import SymArray, Uninit
    from ..sx.sym import Sym as _Sym
    sp = _uf("c_o_Spivey", like=__import__("bluebonnet.fluids.oil", fromlist=["x"]).oil_compressibility_undersat_Spivey)
    oil = load_sym("bluebonnet.fluids.oil", oil_compressibility_undersat_Spivey=sp)
    job.encoded(oil, "solution_gor_Standing", "b_o_Standing", "pressure_bubblepoint_Standing")
    job.stub("oil_compressibility_undersat_Spivey: positive uninterpreted function")
    job.bound(array_form="length 2, dtypes float64 / int64, scalar parameters float or Python int (whole numbers)")
    for var in variants:
        dt, intp = var[0], var[1]
        desc = len(var) > 2 and var[2] is True
        ser = len(var) > 2 and var[2] == "series"
        ranges = dict(OIL_BOX)
        ranges.update(p1=(15, 50000), p2=(15, 50000))
        vs, dom = box(job, _integer=("T", "api", "rsi") if intp else (), **ranges)
        a4 = (vs["T"], vs["api"], vs["gg"], vs["rsi"])
        T_, api, gg, rsi = a4
        p1, p2 = vs["p1"], vs["p2"]
        pb, pbc = _pb_conds(oil, a4, [p1, p2])
        dom = dom + pbc + [T.b_lt(P(p1), P(p2))]
        tagv = f"{ {'f8': 'float64', 'i8': 'int64'}[dt] }{',python-int parameters' if intp else ''}{',listed high to low' if desc else ''}{',Series labelled 1,0' if ser else ''}"
        rp = (replay_array, {"dtype": dt, "intparams": intp, "descending": desc, "series": ser})

        def run():
            arr = SymArray([p2, p1] if desc else [p1, p2], dt)
            if ser:
                from ..shims.pd_shim import SymSeries
                arr = SymSeries([p1, p2], dt, [1, 0])
            rs = oil.solution_gor_Standing(T_, arr, api, gg, rsi)
            bo = oil.b_o_Standing(T_, arr, api, gg, rsi)
            if ser:
                rs, bo = (x.__sx_plain__() if hasattr(x, "__sx_plain__") else x for x in (rs, bo))
            if desc and isinstance(rs, SymArray) and isinstance(bo, SymArray) and len(rs.d) == 2 and len(bo.d) == 2:
                rs, bo = SymArray(list(reversed(rs.d)), rs.dtype_tag), SymArray(list(reversed(bo.d)), bo.dtype_tag)
            bo_s = [oil.b_o_Standing(T_, p1, api, gg, rsi), oil.b_o_Standing(T_, p2, api, gg, rsi)]
            return rs, bo, bool(p1 >= pb), bool(p2 >= pb), bo_s
        res = paths(job, run, dom, max_paths=32)
        seen = set()
        for k, r in enumerate(res):
            if r.exc is not None:
                job.prove(f"array[{tagv}]/raises {type(r.exc).__name__}[path{k}]", r.pc, bound="oil box", replay=rp, note=str(r.exc)[:80])
                continue
            rs, bo, a1, a2, bo_s = r.value
            seen.add((a1, a2))
            tag = f"array[{tagv}; p1 {'>=' if a1 else '<'} pb, p2 {'>=' if a2 else '<'} pb]"
            bad = [x for x in list(rs.d) + list(bo.d) if isinstance(x, Uninit)]
            if bad or rs.dtype_tag not in ("f8", "f4") or bo.dtype_tag not in ("f8", "f4"):
                job.prove(f"{tag}/floating result without uninitialised elements (got {rs.dtype_tag}, {bo.dtype_tag})", r.pc, bound="oil box", replay=rp)
                if bad:
                    continue
            for j, (pj, aj) in enumerate(((p1, a1), (p2, a2))):
                if aj:
                    job.prove(f"{tag}/Rs[{j}]==Rsi", r.pc + [not_close(rs.d[j], rsi)], bound="oil box", replay=rp)
                else:
                    back = oil.pressure_bubblepoint_Standing(T_, api, gg, rs.d[j])
                    job.prove(f"{tag}/pb(Rs[{j}])==p", r.pc + [not_close(back, pj)], bound="oil box", replay=rp)
            job.prove(f"{tag}/Rs non-decreasing", r.pc + [T.b_lt(P(rs.d[1]), P(rs.d[0]))], bound="oil box", replay=rp)
            if not a2:
                job.prove(f"{tag}/Bo increasing below pb", r.pc + [T.b_le(P(bo.d[1]), P(bo.d[0]))], bound="oil box", replay=rp)
            job.prove(f"{tag}/each Bo element is the scalar call's value at that pressure", r.pc + [T.b_or(not_close(bo.d[0], bo_s[0]), not_close(bo.d[1], bo_s[1]))],
                      bound="oil box", replay=rp)
            job.prove(f"{tag}/reach", r.pc, expect="sat")
        if seen != {(True, True), (False, True), (False, False)}:
            job.errors.append(f"array[{tagv}]: expected the three orderings around the bubble point, got {sorted(seen)}")


def replay_array_f32(model):
    """float32 pressure grids (a memory-saving dtype) with the initial GOR an np.float64 that float32 storage rounds down
    (650.3, 1210.1) or up (412.7): every element against the scalar call, at float32 accuracy."""
    import numpy as np
    from bluebonnet.fluids import oil
    m = model_floats(model, ["T", "api", "gg"], default=dict(T=200.0, api=35.0, gg=0.8))
    problems = []
    for rsi in (np.float64(650.3), np.float64(1210.1), np.float64(412.7)):
        pb = float(oil.pressure_bubblepoint_Standing(m["T"], m["api"], m["gg"], float(rsi)))
        if not pb > 60:
            continue
        qs = np.array([0.3 * pb, 0.8 * pb, 1.3 * pb, 2.4 * pb], dtype=np.float32)
        with np.errstate(all="ignore"):
            rs = np.asarray(oil.solution_gor_Standing(m["T"], qs, m["api"], m["gg"], rsi), float)
            bo = np.asarray(oil.b_o_Standing(m["T"], qs, m["api"], m["gg"], rsi), float)
        for j, q in enumerate(qs):
            for nm, got, f in (("R_s", rs, oil.solution_gor_Standing), ("B_o", bo, oil.b_o_Standing)):
                want = float(f(m["T"], float(q), m["api"], m["gg"], float(rsi)))
                if got.shape != qs.shape or not abs(float(got[j]) - want) <= 2e-4 * abs(want):
                    problems.append(f"float32 pressures {qs.tolist()}, R_si = np.float64({float(rsi)!r}), p_b = {pb!r}: {nm}[{j}] = "
                                    f"{float(got[j]) if got.shape == qs.shape else got!r}, the scalar call at that pressure gives {want!r}")
    return bool(problems), {"what": "; ".join(problems[:2]) or "float32 grids agree with the scalar calls", "inputs": m}


def replay_array3(model):
    """Three pressures in arbitrary order through the array entry point of solution_gor_Standing (and B_o): element by
    element the plateau above and the inverse pair below the bubble point."""
    import numpy as np
    from bluebonnet.fluids import oil
    m = model_floats(model, ["T", "api", "gg", "rsi", "q0", "q1", "q2"], default=dict(T=200.0, api=35.0, gg=0.8, rsi=650.0, q0=4000.0, q1=800.0, q2=1500.0))
    T_, api, gg, rsi = _oil_args(m)
    pb = float(oil.pressure_bubblepoint_Standing(T_, api, gg, rsi))
    cands = [[m["q0"], m["q1"], m["q2"]]]
    if pb > 60:
        cands += [[1.5 * pb, 0.3 * pb, 0.7 * pb], [0.7 * pb, 1.5 * pb, 0.3 * pb], [2.0 * pb, 1.2 * pb, 0.5 * pb]]
    problems = []
    for qs in cands:
        if not all(15 <= q <= 2.5 * pb for q in qs) or pb <= 50:
            continue
        with np.errstate(all="ignore"):
            rs = np.asarray(oil.solution_gor_Standing(T_, np.array(qs), api, gg, rsi), float)
        for j, q in enumerate(qs):
            if q >= pb and rs[j] != rsi:
                problems.append(f"pressures {qs}: R_s[{j}] = {rs[j]!r} at/above p_b={pb!r}, R_si={rsi!r}")
            elif q < pb:
                back = float(oil.pressure_bubblepoint_Standing(T_, api, gg, float(rs[j])))
                if abs(back - q) > 1e-8 * q:
                    problems.append(f"pressures {qs}: p_b(R_s[{j}]) = {back!r} for p = {q!r} below the bubble point {pb!r}")
    return bool(problems), {"what": "; ".join(problems[:2]) or "element-wise orderings hold", "inputs": m}


# concrete replays run on the real code when the changed code uses something the engine does not model (harness.finish);
# float32 storage rounding is outside the engine's real-number model, so the float32 grid is exercised here only
FALLBACK = [(replay_array_f32, {}), (replay_array3, {})]


def job_array3(job):
    """Three pressures in arbitrary order (unsorted, straddling the bubble point in every way) through the array entry
    point of solution_gor_Standing."""
    from ..shims.np_shim import SymArray, Uninit
    oil = load_sym("bluebonnet.fluids.oil")
    job.encoded(oil, "solution_gor_Standing", "pressure_bubblepoint_Standing")
    ranges = dict(OIL_BOX)
    ranges.update(q0=(15, 50000), q1=(15, 50000), q2=(15, 50000))
    vs, dom = box(job, **ranges)
    a4 = (vs["T"], vs["api"], vs["gg"], vs["rsi"])
    T_, api, gg, rsi = a4
    qs = [vs["q0"], vs["q1"], vs["q2"]]
    pb, pbc = _pb_conds(oil, a4, qs)
    dom = dom + pbc

    def run():
        rs = oil.solution_gor_Standing(T_, SymArray(list(qs), "f8"), api, gg, rsi)
        return rs, [bool(q >= pb) for q in qs]
    res = paths(job, run, dom, max_paths=64)
    seen = set()
    for k, r in enumerate(res):
        if r.exc is not None:
            job.prove(f"array3/raises {type(r.exc).__name__}[path{k}]", r.pc, bound="oil box", replay=replay_array3, note=str(r.exc)[:80])
            continue
        rs, sides = r.value
        seen.add(tuple(sides))
        tag = "array3[" + ",".join(">=" if a else "<" for a in sides) + " pb]"
        if not isinstance(rs, SymArray) or len(rs.d) != 3 or any(isinstance(x, Uninit) for x in rs.d):
            job.prove(f"{tag}/full length-3 result", r.pc, bound="oil box", replay=replay_array3)
            continue
        bad = []
        for j in range(3):
            if sides[j]:
                bad.append(not_close(rs.d[j], rsi))
            else:
                bad.append(not_close(oil.pressure_bubblepoint_Standing(T_, api, gg, rs.d[j]), qs[j]))
        job.prove(f"{tag}/each element: Rs==Rsi at/above pb, pb(Rs)==p below", r.pc + [T.b_or(*bad)], bound="oil box, 3 pressures in any order", replay=replay_array3)
        job.prove(f"{tag}/reach", r.pc, expect="info")
    if len(seen) != 8:
        job.errors.append(f"array3: expected all 8 placements of three pressures around the bubble point, got {len(seen)}")


def replay_zero_d(model, fn="density_Standing"):
    """The oil correlations with their scalar parameters passed as 0-d numpy arrays (np.array(650.0)): same results as with
    floats on both sides of the bubble point, and the caller's arrays are left alone."""
    import numpy as np
    from bluebonnet.fluids import oil
    m = model_floats(model, ["T", "api", "gg", "rsi"], default=dict(T=200.0, api=35.0, gg=0.8, rsi=650.0))
    T_, api, gg, rsi = _oil_args(m)
    pb = float(oil.pressure_bubblepoint_Standing(T_, api, gg, rsi))
    f = getattr(oil, fn)
    problems = []
    for p in (0.6 * pb, pb, 1.4 * pb):
        boxes = [np.array(v) for v in (T_, api, gg, rsi)]
        with np.errstate(all="ignore"):
            got = float(f(boxes[0], p, boxes[1], boxes[2], boxes[3]))
            again = float(f(boxes[0], p, boxes[1], boxes[2], boxes[3]))
            want = float(f(T_, p, api, gg, rsi))
        after = [float(b) for b in boxes]
        if after != [T_, api, gg, rsi]:
            problems.append(f"{fn} at p={p!r}: the caller's 0-d parameters (T, API, gas gravity, GOR) changed from {[T_, api, gg, rsi]} to {after}")
        if not (abs(got - want) <= 1e-12 * abs(want) and abs(again - want) <= 1e-12 * abs(want)):
            problems.append(f"{fn} at p={p!r} with 0-d array parameters: {got!r}, then {again!r}; with floats {want!r}")
    return bool(problems), {"what": "; ".join(problems[:2]) or "0-d array parameters behave like floats and are left alone", "inputs": m}


def job_zero_d(job):
    """Scalar parameters handed over as 0-d arrays (mutable): the correlations read them and leave them alone - a result
    that aliases an input and is then updated in place would change the caller's fluid for every later call."""
    from ..sx.sym import SymBox
    sp = _uf("c_o_Spivey", like=__import__("bluebonnet.fluids.oil", fromlist=["x"]).oil_compressibility_undersat_Spivey)
    oil, vs, dom, a4 = _setup(job, extra=dict(p=(15, 50000)), oil_compressibility_undersat_Spivey=sp)
    job.encoded(oil, "solution_gor_Standing", "b_o_Standing", "density_Standing", "viscosity_beggs_robinson")
    p = vs["p"]
    pb, pbc = _pb_conds(oil, a4, [p])
    dom = dom + pbc
    for fn in ("solution_gor_Standing", "b_o_Standing", "density_Standing", "viscosity_beggs_robinson"):
        f = getattr(oil, fn)

        def run():
            boxes = [SymBox(v.p) for v in a4]
            before = [b.p for b in boxes]
            out = f(boxes[0], p, boxes[1], boxes[2], boxes[3])
            out_p = P(out)
            changed = [k for k in range(4) if boxes[k].p != before[k]]
            return out_p, changed
        res = paths(job, run, dom)
        plain = {bool(r.ctx.known.get(k)) for r in res for k in ()}
        for k, pr in enumerate(res):
            if pr.exc is not None:
                job.prove(f"0-d parameters/{fn} raises {type(pr.exc).__name__}[path{k}]", pr.pc, bound="oil box", replay=(replay_zero_d, {"fn": fn}), note=repr(pr.exc)[:80])
                continue
            out_p, changed = pr.value
            if changed:
                job._violation(f"0-d parameters/{fn} leaves the caller's parameters alone[path{k}]", {},
                               {"what": f"parameter(s) {[('T', 'API', 'gas gravity', 'GOR')[c] for c in changed]} were written to", "replayer": "replay_zero_d", "replayer_kwargs": {"fn": fn}}, None)
            else:
                job.record(f"0-d parameters/{fn} leaves the caller's parameters alone[path{k}]", "unsat", 0.0, note="effect check on the path")
    job.prove("0-d parameters/reach", dom, expect="sat")


from .c19 import job_facade_oil_reassigned, replay_facade  # noqa: E402,F401


def jobs(tier):
    return [("continuity", job_continuity), ("Rs", job_rs), ("Bo", job_bo), ("viscosity", job_visc), ("facade-oil-reassigned", job_facade_oil_reassigned), ("zero-d-parameters", job_zero_d), ("array3-unsorted", job_array3)] + \
        [(f"array-{dt}{'-int' if intp else ''}", (lambda j, v=(dt, intp): job_array(j, (v,)))) for dt, intp in (("f8", False), ("i8", False), ("i8", True), ("f8", True))] + \
        [("array-f8-descending", lambda j: job_array(j, (("f8", False, True),))), ("array-f8-labelled-series", lambda j: job_array(j, (("f8", False, "series"),)))]
