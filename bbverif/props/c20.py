"""C20 - plots carry the simulated data and the square-root axis is a true bijection.

The plotting helpers are executed on a duck-typed simulated reservoir with symbolic data and a
recording `Axes`; what they hand to `Axes.plot` is compared with the data.  matplotlib itself is not
executed.  The transform pair is checked over the reals symbolically and, as a floating-point lemma,
in QF_FP at binary16 (binary32 does not finish in z3 or cvc5 within 300 s: the smaller width is the
stated bound).
"""
from __future__ import annotations

import time as _time
from fractions import Fraction

from ..sx import terms as T
from ..shims import pd_shim
from ..shims import scipy_shim as SS
from ..shims.np_shim import SymArray
from .common import (P, box, evalf, load_sym, model_floats, not_close, paths, rng, K, Q, Sym, lift, simp, fresh)
from . import c18


class AxStub:
    def __init__(self):
        self.lines = []
        self.calls = []

    def plot(self, *args, **kw):
        xs = [a for a in args if not isinstance(a, str)]
        self.lines.append({"x": xs[0], "y": xs[1] if len(xs) > 1 else None, "kw": kw})
        return [object()]

    def __getattr__(self, name):
        def f(*a, **k):
            self.calls.append((name, a, k))
            return None
        return f


class FigStub:
    def __getattr__(self, name):
        return lambda *a, **k: None


class PltStub:
    Axes = AxStub
    made = []

    @staticmethod
    def subplots(nrows=1, ncols=1, **kw):
        n = int(nrows) * int(ncols)
        axes = [AxStub() for _ in range(n)]
        PltStub.made.append(axes)
        return FigStub(), (axes[0] if n == 1 else tuple(axes))


class DuckReservoir:
    def __init__(self, nx, nt, mode="scalar"):
        self.nx = nx
        self.time = SymArray([fresh(f"t{k}", pos=True) for k in range(nt)], "f8")
        self.pseudopressure = SymArray([SymArray([fresh(f"m{i}_{j}") for j in range(nx)], "f8") for i in range(nt)], "f8", (nt, nx))
        self._rf = SymArray([fresh(f"rf{k}") for k in range(nt)], "f8")
        self._rfd = SymArray([fresh(f"rfd{k}") for k in range(nt)], "f8")      # in-place (density) recovery: a different curve
        # the other fields a reservoir object carries; none of them is what a figure shows (an IdealReservoir may be given a
        # fluid, whose scaled initial pseudopressure has nothing to do with the ideal field's 1)
        self.pressure_fracface, self.pressure_initial = fresh("pf_field", pos=True), fresh("pi_field", pos=True)

        class _Fluid:
            m_i = fresh("fluid_m_i", pos=True)
            pvt_props = {}
        self.fluid = _Fluid()

    def recovery_factor(self, time=None, density=False):
        # as the real classes do: the last result is kept in `recovery`
        self.recovery = self._rfd if density else self._rf
        return self.recovery


def _same(a, b):
    a = list(a.d) if isinstance(a, SymArray) else list(a)
    b = list(b.d) if isinstance(b, SymArray) else list(b)
    if len(a) != len(b):
        return T.b_const(True)
    out = []
    for x, y in zip(a, b):
        d = T.p_sub(P(x), P(y))
        if not d.is_zero() and not T.rational_equal(P(x), P(y)):
            out.append(T.b_not(T.b_eq0(d)))
    return T.b_or(*out) if out else T.b_const(False)


# ------------------------------------------------------------------ replay with real matplotlib

def _real_res(nx, nt):
    import numpy as np

    class R:
        pass
    r = R()
    r.nx = nx
    rs = np.random.RandomState(5)
    r.time = np.sort(rs.uniform(0.1, 5, nt))
    r.pseudopressure = np.sort(rs.uniform(0.1, 1, (nt, nx)), axis=1)
    rf = np.cumsum(rs.uniform(0, 0.1, nt))
    r.recovery_factor = lambda: rf
    # the remaining fields of a reservoir object (an IdealReservoir built with a fluid: its field starts at 1 whatever the
    # fluid's scaled initial pseudopressure is)
    r.pressure_fracface, r.pressure_initial = 1000.0, 8000.0

    class F:
        m_i = 0.40731
        pvt_props = {}
    r.fluid = F()
    return r, rf


def replay_plot(model, which="pseudopressure", nx=3, nt=4, every=1, rescale=False, ticks=False, x_max=None):
    import matplotlib
    matplotlib.use("Agg")
    import matplotlib.pyplot as plt
    import numpy as np
    from bluebonnet import plotting
    import matplotlib.scale as _ms
    _ms.register_scale(plotting.SquareRootScale)      # the symbolically loaded module may have registered its own class under this name
    r, rf = _real_res(nx, nt)
    fig, ax = plt.subplots()
    problems = []
    try:
        if which == "pseudopressure":
            if every is None:
                plotting.plot_pseudopressure(r, rescale=rescale, ax=ax)       # the default stride (200) on a short run
                every = 200
            elif x_max is None:
                plotting.plot_pseudopressure(r, every=every, rescale=rescale, ax=ax)
            else:
                # zooming in (x_max, y_max only set the axis limits): the curves are still drawn against the node positions
                plotting.plot_pseudopressure(r, every=every, rescale=rescale, ax=ax, x_max=float(x_max), y_max=0.9)
            idx = [i for i in range(nt) if i % every == 0]
            lines = ax.get_lines()
            if len(lines) != len(idx):
                problems.append(f"{len(lines)} profiles drawn for {len(idx)} selected time levels")
            x = np.linspace(1 / nx, 1, nx)
            for ln, i in zip(lines, idx):
                p = r.pseudopressure[i]
                want = (p - p[0]) / (r.pseudopressure[0, -1] - p[0]) if rescale else p
                if not np.allclose(ln.get_xdata(), x) or not np.allclose(ln.get_ydata(), want, rtol=1e-12, atol=0):
                    problems.append(f"profile {i}: drawn {ln.get_ydata().tolist()} vs data {want.tolist()}")
        elif which == "rate":
            plotting.plot_recovery_rate(r, ax=ax, change_ticks=ticks)
            ln = ax.get_lines()[0]
            want = np.gradient(rf, r.time)
            if not np.allclose(ln.get_xdata(), r.time) or not np.allclose(ln.get_ydata(), want, rtol=1e-12):
                problems.append(f"rate drawn {ln.get_ydata().tolist()} vs d(recovery)/dt {want.tolist()}")
        else:
            plotting.plot_recovery_factor(r, ax=ax, change_ticks=ticks)
            ln = ax.get_lines()[0]
            if not np.allclose(ln.get_xdata(), r.time) or not np.allclose(ln.get_ydata(), rf, rtol=1e-12):
                problems.append(f"recovery drawn {ln.get_ydata().tolist()} vs data {rf.tolist()}")
    finally:
        plt.close(fig)
    return bool(problems), {"what": f"plot_{which}: " + ("; ".join(problems[:2]) or "lines carry the data")}


def replay_plot_after_density(model, which="factor"):
    """Real reservoir: simulate, ask for the in-place (density) recovery, then plot: the curve must still be recovery_factor()."""
    import matplotlib
    matplotlib.use("Agg")
    import matplotlib.pyplot as plt
    import numpy as np
    from bluebonnet import plotting
    import matplotlib.scale as _ms
    _ms.register_scale(plotting.SquareRootScale)      # the symbolically loaded module may have registered its own class under this name
    from bluebonnet.flow import reservoir as rr
    from .c04 import _real_fluid
    fluid = _real_fluid()
    t = np.linspace(0, 2.0, 12) ** 2
    r = rr.SinglePhaseReservoir(12, 1000.0, 8000.0, fluid)
    r.simulate(t)
    r.recovery_factor(density=True)
    fresh_r = rr.SinglePhaseReservoir(12, 1000.0, 8000.0, fluid)
    fresh_r.simulate(t)
    rf = np.asarray(fresh_r.recovery_factor(), float)
    fig, ax = plt.subplots()
    try:
        if which == "rate":
            plotting.plot_recovery_rate(r, ax=ax)
            want = np.gradient(rf, t)
        else:
            plotting.plot_recovery_factor(r, ax=ax)
            want = rf
        got = np.asarray(ax.get_lines()[0].get_ydata(), float)
    finally:
        plt.close(fig)
    bad = got.shape != want.shape or not np.allclose(got, want, rtol=1e-9, atol=1e-12)
    return bad, {"what": f"plot_recovery_{which} after recovery_factor(density=True): drawn {got[:4].tolist()}.. vs recovery_factor() data {want[:4].tolist()}.."}


def replay_transform(model):
    import numpy as np
    from bluebonnet.plotting import SquareRootScale
    t = SquareRootScale.SquareRootTransform()
    inv = t.inverted()
    a = np.array([0.0, 1e-12, 0.3, 1.0, 2.0, 77.5, 1e9])
    f, b = t.transform_non_affine(a), inv.transform(a)
    bad = not np.allclose(f, np.sqrt(a), rtol=1e-15) or not np.allclose(inv.transform(f), a, rtol=1e-14) or \
        not np.allclose(inv.inverted().transform_non_affine(b), a, rtol=1e-14)
    return bad, {"what": f"sqrt transform {f.tolist()}, inverse of it {inv.transform(f).tolist()} for {a.tolist()}"}


def replay_plot_history(model, every=2, rescale=True):
    """Real matplotlib: plot_pseudopressure on a simulated reservoir must leave the stored field alone; a second figure
    (raw profiles, recovery) drawn from the same object is the one a fresh object gives."""
    import matplotlib
    matplotlib.use("Agg")
    import matplotlib.pyplot as plt
    import numpy as np
    from bluebonnet import plotting
    from bluebonnet.flow import reservoir as rr
    r = rr.IdealReservoir(12, 1000.0, 5000.0, None)
    r.simulate(np.linspace(0, 1.2, 9) ** 2)
    before = np.array(r.pseudopressure, dtype=float, copy=True)
    fig, ax = plt.subplots()
    plotting.plot_pseudopressure(r, every=every, rescale=rescale, ax=ax)
    plt.close(fig)
    after = np.asarray(r.pseudopressure, float)
    bad = after.shape != before.shape or not np.array_equal(after, before)
    rows = [] if not bad or after.shape != before.shape else np.nonzero(np.any(after != before, axis=1))[0].tolist()
    return bad, {"what": f"plot_pseudopressure(every={every}, rescale={rescale}) changed reservoir.pseudopressure (rows {rows})" if bad else "the stored field is left alone", "inputs": {}}


# ------------------------------------------------------------------ jobs

def _load_plotting():
    return load_sym("bluebonnet.plotting", plt=PltStub, **SS.rebind())


def job_profiles(job, nx, nt):
    mod = _load_plotting()
    job.encoded(mod, "plot_pseudopressure")
    job.stub("matplotlib Axes / pyplot.subplots: recording stubs (the x and y data handed to Axes.plot are recorded)")
    job.bound(plot_nx=nx, plot_nt=nt, strides=[1, 2, 3, nt, nt + 3, "default (200)"])
    r = DuckReservoir(nx, nt)
    x_want = [Q(1, nx) + (1 - Q(1, nx)) * Q(j, nx - 1) for j in range(nx)]
    xm, ym = fresh("x_max", pos=True), fresh("y_max", pos=True)
    # strides up to and beyond the number of stored profiles (only the initial profile is then selected), and the default
    # stride (200, left to the function) on this short run
    for every, rescale, given_ax, zoom in [(e, rs_, g, False) for e in (1, 2, 3) for rs_ in (False, True) for g in (True, False)] + \
            [(1, False, True, True), (2, True, True, True)] + [(e, rs_, True, False) for e in (nt, nt + 3, None) for rs_ in (False, True)]:
        if True:
            if True:
                def run():
                    PltStub.made.clear()
                    ax = AxStub() if given_ax else None
                    rr_ = DuckReservoir(nx, nt)          # a fresh object per path: what the figure is compared with is the field BEFORE the call
                    before = [list(row.d) for row in rr_.pseudopressure.d]
                    if zoom:
                        out = mod.plot_pseudopressure(rr_, every=every, rescale=rescale, ax=ax, x_max=xm, y_max=ym)
                    elif every is None:
                        out = mod.plot_pseudopressure(rr_, rescale=rescale, ax=ax)
                    else:
                        out = mod.plot_pseudopressure(rr_, every=every, rescale=rescale, ax=ax)
                    after = [list(row.d) for row in rr_.pseudopressure.d] if isinstance(rr_.pseudopressure, SymArray) and rr_.pseudopressure.ndim == 2 else None
                    changed = after is None or len(after) != len(before) or any(len(a) != len(b) or any(P(x) != P(y) for x, y in zip(a, b)) for a, b in zip(after, before))
                    return out, changed
                tag = f"profiles[nx={nx},nt={nt},every={every},rescale={rescale},ax={'given' if given_ax else 'created'}{',symbolic x_max / y_max' if zoom else ''}]"
                rp = (replay_plot, {"which": "pseudopressure", "nx": nx, "nt": nt, "every": every, "rescale": rescale, "x_max": 0.5 if zoom else None})
                for k, pr in enumerate(paths(job, run, [], max_paths=16)):
                    if pr.exc is not None:
                        job.prove(f"{tag}/raises[path{k}]", pr.pc, replay=rp, bound="any data", note=repr(pr.exc)[:80])
                        continue
                    ax, changed = pr.value
                    if changed:
                        job._violation(f"{tag}/plotting leaves the simulated field alone[path{k}]", {},
                                       {"what": "plot_pseudopressure wrote to reservoir.pseudopressure", "replayer": "replay_plot_history", "replayer_kwargs": {"every": every, "rescale": rescale}}, None)
                    else:
                        job.record(f"{tag}/plotting leaves the simulated field alone[path{k}]", "unsat", 0.0, note="effect check on the path")
                    idx = [i for i in range(nt) if i % (every or 200) == 0]
                    ok = isinstance(ax, AxStub) and len(ax.lines) == len(idx)
                    bad = []
                    if ok:
                        pinit = r.pseudopressure.d[0].d[-1]
                        for ln, i in zip(ax.lines, idx):
                            p = r.pseudopressure.d[i].d
                            want = [(v - p[0]) / (pinit - p[0]) for v in p] if rescale else p
                            bad += [_same(ln["x"], x_want), _same(ln["y"], want)]
                            if rescale:
                                bad.append(T.b_not(T.b_eq0(P(ln["y"].d[0]))))
                    job.prove(f"{tag}/every k-th profile against node position" + (", frac value -> 0" if rescale else "") + f"[path{k}]",
                              pr.pc + [T.b_or(*bad) if ok else T.b_const(True)], bound="any data", replay=rp)


def job_recovery_plots(job, nt):
    mod = _load_plotting()
    job.encoded(mod, "plot_recovery_rate", "plot_recovery_factor")
    r = DuckReservoir(3, nt)
    for ticks, after_density in ((False, False), (True, False), (False, True)):
        for name, fn, y in (("rate", mod.plot_recovery_rate, None), ("factor", mod.plot_recovery_factor, r._rf)):
            def run():
                PltStub.made.clear()
                r.__dict__.pop("recovery", None)
                if after_density:
                    r.recovery_factor(density=True)     # the caller looked at the in-place recovery before plotting
                return fn(r, ax=AxStub(), change_ticks=ticks)
            rp = (replay_plot, {"which": name, "nx": 3, "nt": nt, "ticks": ticks}) if not after_density else (replay_plot_after_density, {"which": name})
            if after_density:
                name = name + ",after recovery_factor(density=True)"
            for k, pr in enumerate(paths(job, run, [], max_paths=64)):
                if pr.exc is not None:
                    job.prove(f"plot_recovery_{name}[ticks={ticks}]/raises[path{k}]", pr.pc, replay=rp, bound="any data", note=repr(pr.exc)[:80])
                    continue
                ax = pr.value
                if not isinstance(ax, AxStub) or len(ax.lines) != 1:
                    job.prove(f"plot_recovery_{name}[ticks={ticks}]/one line[path{k}]", pr.pc, replay=rp, bound="any data")
                    continue
                ln = ax.lines[0]
                if y is None:
                    t, f = r.time.d, r._rf.d
                    want = [(f[1] - f[0]) / (t[1] - t[0])]
                    for i in range(1, nt - 1):
                        hd, hs = t[i + 1] - t[i], t[i] - t[i - 1]
                        want.append((hs * hs * f[i + 1] + (hd * hd - hs * hs) * f[i] - hd * hd * f[i - 1]) / (hs * hd * (hd + hs)))
                    want.append((f[-1] - f[-2]) / (t[-1] - t[-2]))
                else:
                    want = y.d
                job.prove(f"plot_recovery_{name}[ticks={ticks}]/line carries (time, " + ("d recovery/dt" if y is None else "recovery") + f")[path{k}]",
                          pr.pc + [T.b_or(_same(ln["x"], r.time), _same(ln["y"], want))], bound=f"{nt} times, any data", replay=rp)


def job_transform(job):
    mod = _load_plotting()
    job.encoded(mod, "SquareRootScale.SquareRootTransform.transform_non_affine", "SquareRootScale.InvertedSquareRootTransform.transform")
    fwd = mod.SquareRootScale.SquareRootTransform()
    inv = fwd.inverted()
    a = fresh("a", pos=True)

    def run():
        arr = SymArray([a, Q(0), Q(4)], "f8")
        f = fwd.transform_non_affine(arr)
        b = inv.transform(arr)
        return f, inv.transform(f), inv.inverted().transform_non_affine(b), type(inv.inverted()).__name__, type(inv).__name__

    for k, pr in enumerate(paths(job, run, [], max_paths=16)):
        if pr.exc is not None:
            job.errors.append(f"transform raised {pr.exc!r}")
            continue
        f, back, back2, n1, n2 = pr.value
        job.prove(f"sqrt-axis/forward is the square root (f >= 0, f*f = a)[path{k}]",
                  pr.pc + [T.b_or(T.b_lt(P(f.d[0]), T.ZERO), T.b_not(T.b_eq0(P(f.d[0] * f.d[0] - a))), T.b_not(T.b_eq0(P(f.d[1]))), T.b_not(T.b_eq0(P(f.d[2] - 2))))],
                  bound="a > 0 symbolic, a = 0, a = 4", replay=replay_transform)
        job.prove(f"sqrt-axis/inverse(forward(a)) == a and forward(inverse(a)) == a[path{k}]",
                  pr.pc + [T.b_or(_same(back, [a, Q(0), Q(4)]), _same(back2, [a, Q(0), Q(4)]))], bound="a >= 0", replay=replay_transform)
        ok = n1 == "SquareRootTransform" and n2 == "InvertedSquareRootTransform"
        job.record("sqrt-axis/inverted() of each transform is the other one", "unsat" if ok else "sat", 0.0, note=f"{n1}, {n2}")
        if not ok:
            job._violation("sqrt-axis/inverted", {}, {"what": f"inverted() returns {n2} / {n1}", "replayer": "replay_transform", "replayer_kwargs": {}}, None)
    # floating-point lemma at binary16: | fl(fl(sqrt a)^2) - a | <= 4 eps a for normal a
    import z3
    t0 = _time.time()
    F = z3.Float16()
    rm = z3.RNE()
    x = z3.FP("x", F)
    s = z3.Solver()
    s.set("timeout", 120000 if job.tier == "quick" else 600000)
    rt = z3.fpMul(rm, z3.fpSqrt(rm, x), z3.fpSqrt(rm, x))
    eps4 = z3.FPVal(4 * 2.0 ** -11, F)
    s.add(z3.fpIsNormal(x), z3.fpGT(x, z3.FPVal(0.0, F)), z3.fpLT(x, z3.FPVal(30000.0, F)), z3.fpGT(x, z3.FPVal(2.0 ** -10, F)))
    s.add(z3.fpGT(z3.fpAbs(z3.fpSub(rm, rt, x)), z3.fpMul(rm, eps4, x)))
    r = str(s.check())
    job.record("sqrt-axis/floating point: |fl(fl(sqrt a)^2) - a| <= 4 eps a (QF_FP, binary16, normal a in [2^-10, 30000])", r, _time.time() - t0,
               bound="binary16", note="binary32/64 do not finish within 300 s in z3 or cvc5: stated bound")
    if r != "unsat":
        job.errors.append(f"floating-point round-trip lemma: {r}")


def replay_comparison(model, filt=False, window=None, gap=False, other_gap=False):
    """Real plot_production_comparison (matplotlib, Agg) on a small production table whose Days are not 0, 1, 2, ...:
    the three drawn curves against an independent run of the library's forward model on the documented time axis."""
    import warnings
    import numpy as np
    import pandas as pd
    import matplotlib
    matplotlib.use("Agg")
    import matplotlib.pyplot as plt
    from lmfit import Parameters
    import bluebonnet.plotting  # noqa: F401  (registers the square-root scale)
    from bluebonnet.forecast import forecast_pressure as fp
    from bluebonnet.flow import FlowProperties, SinglePhaseReservoir
    from bluebonnet.fluids import build_pvt_gas
    n = 6
    d0 = [float(model.get(f"day{k}") or 0.0) for k in range(3)]
    days = np.cumsum([max(d0[0], 15.0)] + [max(abs(d0[1] - d0[0]), 30.0)] * (n - 1))       # an offset start, monthly samples
    gas = np.array([900.0, 800.0, 0.0, 700.0, 650.0, 600.0])
    prs = np.array([3000.0, 2800.0, 2700.0, 2500.0, 2300.0, 2200.0])
    if gap:
        prs[4] = np.nan          # a producing day without a gauge reading: dropped by the filter, with its gas
    data = pd.DataFrame({"Days": days, "Gas": gas, "Pressure": prs})
    if other_gap:
        data["Water"] = [5.0, np.nan, 4.0, 3.0, np.nan, 2.0]        # gaps in a column the figure does not use: those days stay
    tau = float(model.get("tau") or 400.0)
    tau = min(max(tau, 50.0), 5000.0)
    M, pi = 20000.0, 4500.0
    gv = {"N2": 0.0, "H2S": 0.0, "CO2": 0.0, "Gas Specific Gravity": 0.65, "Reservoir Temperature (deg F)": 200.0}
    pvt = build_pvt_gas(gv, "dry gas", 6000)
    par = Parameters()
    par.add("tau", value=tau)
    par.add("M", value=M)
    par.add("p_initial", value=pi)
    with warnings.catch_warnings():
        warnings.simplefilter("ignore")
        fig, (ax1, ax2) = fp.plot_production_comparison(data, pvt, par, filter_zero_prod_days=filt, filter_window_size=window)
        kept = data[(data["Gas"] > 0) & data["Pressure"].notna()] if filt else data
        t = np.arange(len(kept), dtype=float) if filt else kept["Days"].to_numpy(float)
        pf = kept["Pressure"].to_numpy(float)
        if window is not None:
            from scipy.ndimage import uniform_filter1d
            pf = uniform_filter1d(pf, size=window)      # the documented boxcar smoothing of the frac-face pressure
        r = SinglePhaseReservoir(80, pf, pi, FlowProperties(pvt, pi))
        r.simulate(t / tau, pressure_fracface=pf)
        rf = np.asarray(r.recovery_factor(), float)
    want = [(t / tau, rf), (t / tau, np.cumsum(kept["Gas"].to_numpy(float)) / M), (t / tau, pf)]
    got = [ln for ln in ax1.get_lines()] + [ln for ln in ax2.get_lines()]
    plt.close(fig)
    problems = []
    if len(got) != 3:
        problems.append(f"{len(got)} curves drawn instead of 3")
    else:
        for name, ln, (wx, wy) in zip(("simulated recovery", "cumulative production / M", "frac-face pressure"), got, want):
            gx, gy = np.asarray(ln.get_xdata(), float), np.asarray(ln.get_ydata(), float)
            if gx.shape != wx.shape or np.any(np.abs(gx - wx) > 1e-9 * (1 + np.abs(wx))):
                problems.append(f"{name}: x data {gx.tolist()} vs time/tau {wx.tolist()}")
            elif gy.shape != wy.shape or np.any(np.abs(gy - wy) > 1e-9 * (1 + np.abs(wy))):
                problems.append(f"{name}: y data {gy.tolist()} vs {wy.tolist()}")
    return bool(problems), {"what": f"plot_production_comparison(filter_zero_prod_days={filt}, filter_window_size={window}), Days {days.tolist()}: " + ("; ".join(problems[:2]) or "curves carry the data"),
                            "inputs": {"tau": tau}}


def job_comparison(job, filt, window=None, gap=False, other_gap=False):
    """`gap`: a producing day (Gas > 0) whose pressure reading is missing; with the row filter on it is dropped from every
    curve, its gas included (cumulative production is that of the rows that are drawn)."""
    mod = load_sym("bluebonnet.forecast.forecast_pressure", pd=pd_shim.PD, plt=PltStub, FlowProperties=c18._flow_stub,
                   SinglePhaseReservoir=c18._ResStub, Parameters=c18.ParametersStub, Minimizer=c18.MinimizerStub, **SS.rebind())
    job.encoded(mod, "plot_production_comparison")
    n = 4 if gap else 3
    gas = [fresh(f"gas{k}", pos=True) for k in range(n)]
    prs = [fresh(f"pr{k}", pos=True) for k in range(n)]
    days = [fresh(f"day{k}", pos=True) for k in range(n)]
    if gap:
        prs[1] = pd_shim.NA
    frame = pd_shim.SymFrame()
    frame.cols = {"Days": SymArray(days, "f8"), "Gas": SymArray(gas, "f8"), "Pressure": SymArray(prs, "f8")}
    if other_gap:
        # the caller's table has another column (water rate) with a gap on a producing day: the figure does not use it
        frame.cols["Water"] = SymArray([Q(7), pd_shim.NA] + [Q(7)] * (n - 2), "f8")
    par = c18.ParametersStub()
    tau, M, pi = fresh("tau", pos=True), fresh("M", pos=True), fresh("p_init", pos=True)
    par.add("tau", value=tau)
    par.add("M", value=M)
    par.add("p_initial", value=pi)

    def run():
        PltStub.made.clear()
        c18.Rec.log.clear()
        fig, (ax1, ax2) = mod.plot_production_comparison(frame, object(), par, filter_zero_prod_days=filt, filter_window_size=(None if window is None else Q(window)))
        return ax1, ax2, list(c18.Rec.log)

    for k, pr in enumerate(paths(job, run, [], max_paths=16)):
        if pr.exc is not None:
            job.errors.append(f"comparison raised {pr.exc!r}")
            continue
        ax1, ax2, log = pr.value
        rf = [e[1] for e in log if e[0] == "recovery_factor"]
        ok = len(ax1.lines) == 2 and len(ax2.lines) == 1 and len(rf) == 1
        keep = [j for j in range(n) if not (gap and filt and j == 1)]
        t = [Q(k) for k in range(len(keep))] if filt else days
        ts = [v / tau for v in t]
        bad = []
        if ok:
            cum, acc = [], Q(0)
            for j in keep:
                acc = acc + gas[j]
                cum.append(acc / M)
            prs_kept = [prs[j] for j in keep]
            pshow = prs_kept if window is None else list(SS.uniform_filter1d(SymArray(list(prs_kept), "f8"), size=window).d)
            simulated_with = [e for e in log if e[0] == "simulate"]
            bad = [_same(ax1.lines[0]["x"], ts), _same(ax1.lines[0]["y"], rf[0]), _same(ax1.lines[1]["x"], ts), _same(ax1.lines[1]["y"], cum),
                   _same(ax2.lines[0]["x"], ts), _same(ax2.lines[0]["y"], pshow)]
        job.prove(f"comparison[filter={filt}{',window=' + str(window) if window else ''}{',a producing day without a pressure reading' if gap else ''}{',a gap in another column' if other_gap else ''}]/curves are (t/tau, simulated recovery), (t/tau, cumulative/M), (t/tau, frac-face pressure)[path{k}]",
                  pr.pc + [T.b_or(*bad) if ok else T.b_const(True)], bound=f"{n} rows, any data", replay=(replay_comparison, {"filt": filt, "window": window, "gap": gap, "other_gap": other_gap}))
        job.prove(f"comparison[filter={filt}{',window=' + str(window) if window else ''}]/reach[path{k}]", pr.pc, expect="sat")


# concrete replays run on the real code when the changed code uses something the engine does not model (harness.finish)
FALLBACK = [(replay_plot_history, {}), (replay_plot, {}), (replay_plot_after_density, {}), (replay_transform, {}), (replay_comparison, {}), (replay_comparison, {"filt": True})]


def jobs(tier):
    out = [("profiles", lambda j: job_profiles(j, 3, 4)), ("recovery-plots", lambda j: job_recovery_plots(j, 4)), ("transform", job_transform),
           ("comparison-filter", lambda j: job_comparison(j, True)), ("comparison-nofilter", lambda j: job_comparison(j, False)),
           ("comparison-window2", lambda j: job_comparison(j, False, 2)), ("comparison-filter-pressure-gap", lambda j: job_comparison(j, True, None, True)),
           ("comparison-filter-gap-in-another-column", lambda j: job_comparison(j, True, None, False, True))]
    if tier != "quick":
        out += [("profiles-big", lambda j: job_profiles(j, 4, 7)), ("recovery-plots-6", lambda j: job_recovery_plots(j, 6)),
                ("profiles-6x12", lambda j: job_profiles(j, 6, 12)), ("recovery-plots-10", lambda j: job_recovery_plots(j, 10)),
                ("comparison-window3", lambda j: job_comparison(j, False, 3)),
                ("profiles-8x20", lambda j: job_profiles(j, 8, 20)), ("recovery-plots-16", lambda j: job_recovery_plots(j, 16)),
                ("profiles-12x30", lambda j: job_profiles(j, 12, 30)), ("recovery-plots-32", lambda j: job_recovery_plots(j, 32)),
                ("comparison-window4", lambda j: job_comparison(j, False, 4)), ("comparison-window2-filter", lambda j: job_comparison(j, True, 2))]
    return out
