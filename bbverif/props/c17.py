"""C17 - simulation is invariant to time-origin shifts and equivalent schedule forms.

Relational harness: two symbolic runs of the real `simulate` (ideal, memoised linear solve, so that
syntactically identical systems have identical solutions) are compared term by term.
"""
from __future__ import annotations

from fractions import Fraction

from ..sx import terms as T
from ..shims import scipy_shim as SS
from ..shims.np_shim import SymArray
from .common import (P, box, evalf, model_floats, not_close, paths, rng, K, Q, Sym, lift, simp, fresh)
from .resv import FluidStub, load_reservoir, times, rows_of, MemoSolve


def _mk(mod, cls, nx, fluid):
    if cls == "IdealReservoir":
        return mod.IdealReservoir(Q(nx), fresh("pf", pos=True), fresh("pi", pos=True), None)
    return mod.SinglePhaseReservoir(Q(nx), fresh("pf", pos=True), fresh("pi", pos=True), fluid)


def _differs(a, b, norm=None):
    """BoolT: some pair of corresponding values differs (False constant if all syntactically equal).
    `norm` rewrites a term with the equalities of the path condition (Context.normal)."""
    out = []
    for x, y in zip(a, b):
        d = T.p_sub(P(x), P(y))
        if not d.is_zero() and norm is not None:
            d = T.p_sub(norm(P(x)), norm(P(y)))
        if not d.is_zero() and not T.rational_equal(P(x), P(y)):
            out.append(T.b_not(T.b_eq0(d)))
    return T.b_or(*out) if out else T.b_const(False)


# ------------------------------------------------------------------ replays (real code)

def _real(cls, nx):
    from bluebonnet.flow import reservoir as rr
    from .c04 import _real_fluid
    if cls == "IdealReservoir":
        return rr.IdealReservoir(nx, 1000.0, 8000.0, None)
    return rr.SinglePhaseReservoir(nx, 1000.0, 8000.0, _real_fluid())


def replay_shift(model, cls="SinglePhaseReservoir", nx=4, nt=3, tseries=False):
    import numpy as np
    t = [float(model.get("t0") or 0.0)]
    for k in range(1, nt):
        t.append(t[-1] + float(model.get(f"dt{k}") or 0.01 * k))
    t = np.array(t)
    s = float(model.get("shift") or 3.5)
    a, b = _real(cls, nx), _real(cls, nx)
    a.simulate(t)
    if tseries:
        import pandas as pd
        try:
            b.simulate(pd.Series(t + s))          # the shifted grid as a column of a production table
        except Exception as ex:  # noqa: BLE001
            return True, {"what": f"{cls}.simulate raised {ex!r} for a time grid passed as a pandas Series", "inputs": {"t": t.tolist()}}
    else:
        b.simulate(t + s)
    ra, rb = np.asarray(a.recovery_factor(), float), np.asarray(b.recovery_factor(), float)
    if not np.all(np.isfinite(np.asarray(b.pseudopressure, float))):
        return True, {"what": f"{cls}: the run on the shifted grid{' (a pandas Series)' if tseries else ''} holds non-finite values", "inputs": {"t": t.tolist()}}
    da = float(np.abs(np.asarray(a.pseudopressure) - np.asarray(b.pseudopressure)).max())
    dr = float(np.abs(ra - rb).max())
    bad = da > 1e-7 or dr > 1e-7 * (1 + abs(ra).max())
    return bad, {"what": f"{cls}: shifting all times by {s!r} changes pseudopressure by {da:.3e} and recovery by {dr:.3e}", "inputs": {"t": t.tolist()}}


def replay_schedule(model, cls="SinglePhaseReservoir", nx=4, nt=3, tdtype="f8"):
    import numpy as np
    t = np.cumsum([0.0] + [float(model.get(f"dt{k}") or 0.01 * k) for k in range(1, nt)])
    if tdtype == "i8":
        t = np.arange(nt) * 3          # whole days as an integer grid
    pf = 1000.6                        # not representable in an integer grid's dtype
    a, b = _real(cls, nx), _real(cls, nx)
    a.pressure_fracface = b.pressure_fracface = pf
    a.simulate(t)
    b.simulate(t, pressure_fracface=np.full(nt, pf))
    d = float(np.abs(np.asarray(a.pseudopressure) - np.asarray(b.pseudopressure)).max())
    if d == 0:
        # the same schedule on an object configured with another frac-face pressure (3000 psi)
        c = _real(cls, nx)
        c.pressure_fracface = 3000.0
        c.simulate(t, pressure_fracface=np.full(nt, pf))
        dc = float(np.abs(np.asarray(a.pseudopressure) - np.asarray(c.pseudopressure)).max())
        if dc > 0:
            return True, {"what": f"time grid {t.tolist()}: a constant schedule at {pf} psi on a reservoir configured with 3000 psi differs from the scalar setting {pf} psi by {dc:.3e}",
                          "inputs": {"t": t.tolist()}}
    return d > 0, {"what": f"time grid {t.tolist()} ({t.dtype}), frac-face pressure {pf}: constant schedule vs scalar setting differ by {d:.3e}",
                   "inputs": {"t": t.tolist()}}


def replay_errors(model, cls="SinglePhaseReservoir", which="length", length=None, after_rejected=False):
    import numpy as np
    r = _real(cls, 4)
    t = np.array([0.0, 0.01, 0.03])
    if after_rejected:
        # a simulate call that was REJECTED (wrong schedule length) is not a simulation: recovery still has nothing to report
        try:
            r.simulate(t, pressure_fracface=np.full(len(t) + 1, 1000.0))
            return True, {"what": "a schedule of the wrong length was accepted"}
        except ValueError:
            pass
    try:
        if which == "length":
            r.simulate(t, pressure_fracface=np.full(len(t) + 1 if length is None else length, 1000.0))
        elif which == "rf":
            r.recovery_factor()
        elif which == "rf-with-explicit-time":
            r.recovery_factor(np.array([0.0, 0.5]))
        elif which == "rf-with-explicit-time-density":
            r.recovery_factor(np.array([0.0, 0.5]), density=True)
        else:
            r.recovery_factor_interpolator()
    except (ValueError if which == "length" else Exception) as ex:  # noqa: BLE001
        return False, {"what": f"raises {ex!r} as required"}
    except Exception as ex:  # noqa: BLE001
        return True, {"what": f"raises {ex!r} instead of the documented error"}
    return True, {"what": f"{which}: accepted without an error"}


def replay_interp_buildup(model):
    """Real run with a frac-face schedule that is drawn down and then raised again (a shut-in): recovery rises and then
    FALLS, so 'the final recovery' is neither the largest value nor anything else but the last one."""
    import numpy as np
    r = _real("SinglePhaseReservoir", 20)
    t = np.linspace(0, 1.2, 25) ** 2
    sched = np.concatenate([np.full(12, 1500.0), np.full(13, 7600.0)])
    r.simulate(t, pressure_fracface=sched)
    rf = np.asarray(r.recovery_factor(), float)
    f = r.recovery_factor_interpolator()
    problems = []
    for k in range(len(t)):
        if abs(float(f(t[k])) - rf[k]) > 1e-12 * (1 + abs(rf[k])):
            problems.append(f"interpolator({t[k]!r}) = {float(f(t[k]))!r} vs recovery[{k}] = {rf[k]!r}")
            break
    if float(f(t[0] - 1.0)) != 0.0:
        problems.append(f"before the first time: {float(f(t[0] - 1.0))!r}")
    if float(f(t[-1] + 1.0)) != rf[-1]:
        problems.append(f"after the last time: {float(f(t[-1] + 1.0))!r} vs the final recovery {rf[-1]!r} (recovery peaked at {rf.max()!r} before the shut-in)")
    return bool(problems), {"what": "drawdown followed by a build-up: " + ("; ".join(problems) or "interpolator reproduces recovery, 0 before, final value after"), "inputs": {}}


def replay_interp(model, cls="SinglePhaseReservoir", nx=4, nt=3, rerun=None, kept=False):
    if kept:
        # the interpolator of run A is kept while the same object is simulated on another grid (and its recovery asked for):
        # it still is run A's recovery curve
        import numpy as np
        t = np.cumsum([float(model.get("t0") or 0.0)] + [float(model.get(f"dt{k}") or 0.01 * k) for k in range(1, nt)])
        r = _real(cls, nx)
        r.simulate(t)
        rf = np.array(r.recovery_factor(), float)
        f = r.recovery_factor_interpolator()
        r.simulate(2.5 * t + 1.0)
        r.recovery_factor()
        try:
            got = [float(f(v)) for v in t] + [float(f(t[-1] + 1.0))]
        except Exception as ex:  # noqa: BLE001
            return True, {"what": f"the interpolator of the first run raised {ex!r} after the object was simulated again", "inputs": {"t": t.tolist()}}
        want = rf.tolist() + [float(rf[-1])]
        bad = any(abs(a - b) > 1e-12 * (1 + abs(b)) for a, b in zip(got, want))
        return bad, {"what": f"interpolator obtained after the run on {t.tolist()}, evaluated at those times (and beyond the last) after the same object was simulated on "
                             f"{(2.5 * t + 1.0).tolist()}: {got} vs the first run's recovery {want}", "inputs": {"t": t.tolist()}}
    if cls != "IdealReservoir" and not rerun:
        bad, det = replay_interp_buildup(model)
        if bad:
            return bad, det
    import numpy as np
    t = np.cumsum([float(model.get("t0") or 0.0)] + [float(model.get(f"dt{k}") or 0.01 * k) for k in range(1, nt)])
    if not rerun and model.get("t0") is None:
        # no witness: a grid shifted to negative times as well (all shifts are in the property's quantifier)
        bad, det = replay_interp({"t0": -2.5, **{f"dt{k}": 0.4 * k for k in range(1, nt)}}, cls=cls, nx=nx, nt=nt)
        if bad:
            return bad, det
    r = _real(cls, nx)
    if rerun:
        # an earlier run on the same object (shifted and stretched grid), with the calls named in `rerun` made after it
        t_old = 2.5 * t + 1.0
        r.simulate(t_old)
        for call in rerun:
            getattr(r, call)()
    r.simulate(t)
    if rerun:
        f = r.recovery_factor_interpolator()     # asked for first, as a fitting loop does
        rf = r.recovery_factor()
    else:
        rf = r.recovery_factor()
        f = r.recovery_factor_interpolator()
    problems = []
    for k in range(nt):
        if abs(float(f(t[k])) - rf[k]) > 1e-12 * (1 + abs(rf[k])):
            problems.append(f"interpolator({t[k]!r}) = {float(f(t[k]))!r} vs recovery[{k}] = {rf[k]!r}")
    if float(f(t[0] - 1.0)) != 0.0:
        problems.append(f"before the first time: {float(f(t[0] - 1.0))!r}")
    if float(f(t[-1] + 1.0)) != rf[-1]:
        problems.append(f"after the last time: {float(f(t[-1] + 1.0))!r} vs {rf[-1]!r}")
    return bool(problems), {"what": "; ".join(problems) or "interpolator reproduces recovery", "inputs": {"t": t.tolist()}}


# ------------------------------------------------------------------ jobs

def job_shift(job, cls, nx, nt, tseries=False):
    mod = load_reservoir()
    job.encoded(mod, f"{cls}.simulate", "IdealReservoir.recovery_factor")
    job.stub("linear solve: ideal, memoised on the syntactic system (deterministic routine)", "fluid*: contract stub")
    job.bound(shift_nx=nx, shift_nt=nt)
    tag = f"{cls}[nx={nx},nt={nt}{',shifted grid a pandas Series' if tseries else ''}]"
    rp = (replay_shift, {"cls": cls, "nx": nx, "nt": nt, "tseries": tseries})

    def run():
        memo = MemoSolve()
        SS.LinSolve.reset(memo)
        SS.reset_names()
        t, _ = times(nt)
        s = fresh("shift")
        fluid = FluidStub() if cls != "IdealReservoir" else None
        a = _mk(mod, cls, nx, fluid)
        a.simulate(t)
        b = _mk(mod, cls, nx, fluid)
        if tseries:
            from ..shims.pd_shim import SymSeries
            b.simulate(SymSeries([v + s for v in t.d], "f8", list(range(nt))))
        else:
            b.simulate(SymArray([v + s for v in t.d], "f8"))
        return rows_of(a), rows_of(b), a.recovery_factor().d, b.recovery_factor().d

    for k, pr in enumerate(paths(job, run, [], max_paths=16)):
        if pr.exc is not None:
            if tseries:
                job.prove(f"{tag}/raises {type(pr.exc).__name__}[path{k}]", pr.pc, bound=f"nx={nx}, nt={nt}", replay=rp, note=repr(pr.exc)[:100])
                continue
            job.errors.append(f"{tag} shift raised {pr.exc!r}")
            continue
        ra, rb, fa, fb = pr.value
        flat = lambda rows: [v for r in rows for v in r]
        job.prove(f"{tag}/shifted run has the same pseudopressure field[path{k}]", pr.pc + [_differs(flat(ra), flat(rb))], bound=f"nx={nx}, nt={nt}, any shift", replay=rp)
        job.prove(f"{tag}/shifted run has the same recovery[path{k}]", pr.pc + [_differs(fa, fb)], bound=f"nx={nx}, nt={nt}, any shift", replay=rp)
        job.prove(f"{tag}/reach[path{k}]", pr.pc, expect="sat", elim=True)


def job_schedule(job, nx, nt, tdtype="f8"):
    cls = "SinglePhaseReservoir"
    mod = load_reservoir()
    job.encoded(mod, "SinglePhaseReservoir.simulate")
    tag = f"{cls}[nx={nx},nt={nt}" + (",integer time grid" if tdtype == "i8" else "") + "]"

    def run():
        memo = MemoSolve()
        SS.LinSolve.reset(memo)
        SS.reset_names()
        t, _ = times(nt)
        if tdtype != "f8":
            t = SymArray(list(t.d), tdtype)      # e.g. whole days: the grid's dtype must not leak into the frac-face value
        fluid = FluidStub()
        a = _mk(mod, cls, nx, fluid)
        a.simulate(t)
        b = mod.SinglePhaseReservoir(Q(nx), a.pressure_fracface, a.pressure_initial, fluid)
        b.simulate(t, pressure_fracface=SymArray([a.pressure_fracface] * nt, "f8"))
        # ... and the same constant schedule on an object configured with ANOTHER frac-face pressure (as the pressure-history
        # fit does: reservoir built at the initial pressure, schedule passed in): the schedule is what counts
        c = mod.SinglePhaseReservoir(Q(nx), fresh("pf_configured", pos=True), a.pressure_initial, fluid)
        c.simulate(t, pressure_fracface=SymArray([a.pressure_fracface] * nt, "f8"))
        return rows_of(a), rows_of(b), rows_of(c)

    for k, pr in enumerate(paths(job, run, [], max_paths=16)):
        if pr.exc is not None:
            job.errors.append(f"{tag} schedule raised {pr.exc!r}")
            continue
        ra, rb, rc = pr.value
        flat = lambda rows: [v for r in rows for v in r]
        job.prove(f"{tag}/constant schedule == scalar setting[path{k}]", pr.pc + [_differs(flat(ra), flat(rb))], bound=f"nx={nx}, nt={nt}",
                  replay=(replay_schedule, {"cls": cls, "nx": nx, "nt": nt, "tdtype": tdtype}))
        job.prove(f"{tag}/constant schedule on an object configured with another frac-face pressure == scalar setting at the schedule's value[path{k}]",
                  pr.pc + [_differs(flat(ra), flat(rc))], bound=f"nx={nx}, nt={nt}", replay=(replay_schedule, {"cls": cls, "nx": nx, "nt": nt, "tdtype": tdtype}))
    if tdtype != "f8":
        return
    # wrong schedule length: every length from 0 to nt + 2 except nt (a one-element schedule broadcasts in numpy)
    for extra in [e for e in range(-nt, 3) if e != 0]:
        def bad():
            SS.LinSolve.reset(MemoSolve())
            SS.reset_names()
            t, _ = times(nt)
            r = _mk(mod, cls, nx, FluidStub())
            r.simulate(t, pressure_fracface=SymArray([fresh(f"s{j}") for j in range(nt + extra)], "f8"))
            return r
        res = paths(job, bad, [], catch=(Exception,), max_paths=16)
        ok = res and all(isinstance(p.exc, ValueError) for p in res)
        job.record(f"{tag}/schedule of length {nt + extra} for {nt} times is rejected with ValueError", "unsat" if ok else "sat", 0.0,
                   note=str([type(p.exc).__name__ for p in res]))
        if not ok:
            job._violation(f"{tag}/schedule length", {}, {"what": f"schedule of length {nt + extra} for {nt} times: {[type(p.exc).__name__ if p.exc else 'accepted' for p in res]}",
                                                         "replayer": "replay_errors", "replayer_kwargs": {"cls": cls, "which": "length", "length": nt + extra}}, None)


def job_before(job, cls, after_rejected=False):
    """`after_rejected`: the only simulate call so far was rejected (schedule of the wrong length): still no simulation."""
    mod = load_reservoir()
    job.encoded(mod, "IdealReservoir.recovery_factor", "IdealReservoir.recovery_factor_interpolator")
    what = "after a rejected simulate call" if after_rejected else "before simulate"
    tq = SymArray([Q(0), fresh("tq1", pos=True)], "f8")
    calls = [("rf", lambda r: r.recovery_factor()), ("interpolator", lambda r: r.recovery_factor_interpolator()),
             ("rf-with-explicit-time", lambda r: r.recovery_factor(tq))]
    if cls != "IdealReservoir":
        calls.append(("rf-with-explicit-time-density", lambda r: r.recovery_factor(tq, density=True)))
    for which, call in calls:
        def run():
            SS.LinSolve.reset(MemoSolve())
            SS.reset_names()
            r = _mk(mod, cls, 4, FluidStub(density_rows=2) if cls != "IdealReservoir" else None)
            if after_rejected:
                t, _ = times(3)
                try:
                    r.simulate(t, pressure_fracface=SymArray([fresh(f"pfs{k}") for k in range(4)], "f8"))
                except ValueError:
                    pass
                else:
                    raise AssertionError("wrong-length schedule accepted")
            return call(r)
        res = paths(job, run, [], catch=(Exception,))
        # the property asks for "an error": any exception counts (the code documents RuntimeError; after a rejected call the
        # pinned tree raises AttributeError because `time` is stored before the schedule is validated - still an error)
        from ..shims.np_shim import UninitRead      # the engine's marker for "numbers computed from np.empty memory": not an error of the code
        ok = res and all(p.exc is not None and not isinstance(p.exc, (AssertionError, UninitRead)) for p in res)
        job.record(f"{cls}/{which} {what} raises an error (nothing is returned)", "unsat" if ok else "sat", 0.0, note=str([type(p.exc).__name__ for p in res]))
        if not ok:
            job._violation(f"{cls}/{which} {what}", {}, {"what": f"{which} {what}: {[type(p.exc).__name__ if p.exc else 'returned' for p in res]}",
                                                         "replayer": "replay_errors", "replayer_kwargs": {"cls": cls, "which": which, "after_rejected": after_rejected}}, None)


def job_interp(job, cls, nx, nt, rerun=None, kept=False):
    """`rerun`: the object already carried an earlier run on another grid (plus the recovery calls named) when the run
    under test was made; the interpolator is then requested before recovery_factor()."""
    mod = load_reservoir()
    job.encoded(mod, "IdealReservoir.recovery_factor_interpolator", "IdealReservoir.recovery_factor")
    job.stub("scipy.interpolate.interp1d: exact piecewise-linear model")
    tag = f"{cls}[nx={nx},nt={nt}{',after an earlier run + ' + '+'.join(rerun) if rerun else ''}{',evaluated after a later run on another grid' if kept else ''}]"
    q = fresh("q")

    def run():
        SS.LinSolve.reset(MemoSolve())
        SS.reset_names()
        t, _ = times(nt)
        r = _mk(mod, cls, nx, FluidStub() if cls != "IdealReservoir" else None)
        if rerun:
            t_old, _ = times(nt, prefix="u")
            r.simulate(t_old)
            for call in rerun:
                getattr(r, call)()
            r.simulate(t)
            f = r.recovery_factor_interpolator()
            rf = r.recovery_factor()
        else:
            r.simulate(t)
            rf = r.recovery_factor()
            f = r.recovery_factor_interpolator()
        if kept:
            # the caller keeps the interpolator of this run; the object is then simulated on another grid
            td, rfd = list(t.d), list(rf.d)
            t_new, _ = times(nt, prefix="w")
            r.simulate(t_new)
            r.recovery_factor()
            return td, rfd, [f(v) for v in td], f(q)
        return t.d, rf.d, [f(v) for v in t.d], f(q)

    rp = (replay_interp, {"cls": cls, "nx": nx, "nt": nt, "rerun": list(rerun) if rerun else None, "kept": kept})
    for k, pr in enumerate(paths(job, run, [], max_paths=64)):
        if pr.exc is not None:
            if isinstance(pr.exc, SS.NonMonotoneAbscissae):
                continue
            job.errors.append(f"{tag} interp raised {pr.exc!r}")
            continue
        t, rf, at_nodes, fq = pr.value
        job.prove(f"{tag}/interpolator reproduces recovery at the simulated times[path{k}]", pr.pc + [_differs(at_nodes, rf)], bound=f"nt={nt}", replay=rp)
        job.prove(f"{tag}/interpolator is 0 before the first time[path{k}]", pr.pc + [T.b_lt(P(q), P(t[0])), T.b_not(T.b_eq0(P(fq)))], bound=f"nt={nt}", replay=rp)
        job.prove(f"{tag}/interpolator is the final recovery after the last time[path{k}]",
                  pr.pc + [T.b_lt(P(t[-1]), P(q)), T.b_not(T.b_eq0(T.p_sub(P(fq), P(rf[-1]))))], bound=f"nt={nt}", replay=rp)
        job.prove(f"{tag}/recovery starts at 0[path{k}]", pr.pc + [T.b_not(T.b_eq0(P(rf[0])))], bound=f"nt={nt}", replay=rp)
        # nothing on the way is undefined for some admissible grid (a root or logarithm of a time, a division by a time ...):
        # the grid's origin is arbitrary, negative times included
        seen = set()
        for cond, why in pr.ctx.defined:
            if cond.id in seen or why.startswith("integer overflow"):
                continue
            seen.add(cond.id)
            job.prove(f"{tag}/defined for every time origin[path{k}][{len(seen)}]", pr.pc + [T.b_not(cond)], bound=f"nt={nt}, any t0", replay=rp, note=why[:100], elim=True)
        job.prove(f"{tag}/reach[path{k}]", pr.pc, expect="sat", elim=True)


# concrete replays run on the real code when the changed code uses something the engine does not model (harness.finish)
FALLBACK = [(replay_interp_buildup, {}), (replay_shift, {}), (replay_shift, {"cls": "IdealReservoir"}), (replay_schedule, {}), (replay_interp, {}), (replay_interp, {"rerun": ["recovery_factor_interpolator"]}), (replay_interp, {"kept": True}), (replay_errors, {}), (replay_errors, {"length": 1}), (replay_errors, {"which": "rf"}), (replay_errors, {"which": "interp"})]


def jobs(tier):
    out = []
    # (6, 5) was tried in the thorough tier: the identities are unsat there too but the reachability witness of the
    # ideal reservoir is unknown at 600 s, so the harness cannot rule out vacuity - outside the claim (bound: nx <= 5, nt <= 4)
    cfg = [(3, 3), (4, 3)] if tier == "quick" else [(3, 3), (4, 3), (4, 4), (5, 4)]
    for cls in ("SinglePhaseReservoir", "IdealReservoir"):
        for nx, nt in cfg:
            out.append((f"shift-{cls[:6]}-{nx}-{nt}", lambda j, c=cls, a=nx, b=nt: job_shift(j, c, a, b)))
        out.append((f"shift-series-{cls[:6]}-3-3", lambda j, c=cls: job_shift(j, c, 3, 3, True)))
        out.append((f"before-{cls[:6]}", lambda j, c=cls: job_before(j, c)))
        if cls != "IdealReservoir":
            out.append((f"after-rejected-simulate-{cls[:6]}", lambda j, c=cls: job_before(j, c, True)))
        out.append((f"interp-{cls[:6]}", lambda j, c=cls: job_interp(j, c, 3, 3)))
        out.append((f"interp-kept-{cls[:6]}", lambda j, c=cls: job_interp(j, c, 3, 3, kept=True)))
        out.append((f"interp-rerun-{cls[:6]}", lambda j, c=cls: job_interp(j, c, 3, 3, rerun=("recovery_factor_interpolator",))))
        out.append((f"interp-rerun2-{cls[:6]}", lambda j, c=cls: job_interp(j, c, 3, 3, rerun=("recovery_factor", "recovery_factor_interpolator"))))
    for nx, nt in cfg[:2]:
        out.append((f"schedule-{nx}-{nt}", lambda j, a=nx, b=nt: job_schedule(j, a, b)))
    out.append(("schedule-inttime-3-3", lambda j: job_schedule(j, 3, 3, "i8")))
    return out
