"""C10 - results always reflect the most recent simulation, never stale state.

All call histories up to a bounded length over
  {simulate(A), simulate(B, same length), simulate(C, other length), recovery_factor(),
   recovery_factor(density=True), recovery_factor_interpolator()}
are enumerated (finite, exhaustive).  Each history is executed symbolically on one object
(symbolic grids, ideal memoised linear solve); the observables after its last call - stored
times and field, the returned array, the interpolator at a symbolic time - are compared with a
fresh object on which only the latest simulate and the recovery calls after it were executed.
Equality is syntactic identity of canonical terms, else a z3 query.
"""
from __future__ import annotations

import itertools
from fractions import Fraction

from ..sx import terms as T
from ..shims import scipy_shim as SS
from ..shims.np_shim import SymArray
from .common import (P, box, evalf, model_floats, not_close, paths, rng, K, Q, Sym, lift, simp, fresh)
from .resv import FluidStub, load_reservoir, rows_of, MemoSolve
from .c17 import _differs

OPS = ("simA", "simB", "simC", "simAs", "rf", "rfd", "interp")
GRID_LEN = {"simA": 3, "simB": 3, "simC": 2}
# simAs: simulate(A, schedule) - single phase only; it rebinds the object's frac-face setting (anchor: state
# `pressure_fracface`), which a later simulate without a schedule must not inherit
SIMS = ("simA", "simB", "simC", "simAs")


def _grids():
    g = {}
    for name, n in GRID_LEN.items():
        ts = [fresh(f"{name}_t0")]
        for k in range(1, n):
            ts.append(ts[-1] + fresh(f"{name}_d{k}", pos=True))
        g[name] = SymArray(ts, "f8")
    g["sched"] = SymArray([fresh(f"sch{k}", pos=True) for k in range(GRID_LEN["simA"])], "f8")
    return g


def _apply(obj, op, grids, q):
    """Execute one operation; returns ('value', observable list) or ('exc', type name)."""
    try:
        if op == "scaleA":
            # the caller converts its own time array to other units in place (days -> scaled time) before simulating on it
            # again: not a call on the object, but the object was handed this very array earlier
            grids["simA"] *= Q(4)
            return "value", []
        if op == "simAs":
            obj.simulate(grids["simA"], grids["sched"])
            return "value", []
        if op in GRID_LEN:
            obj.simulate(grids[op])
            return "value", []
        if op == "rf":
            return "value", list(obj.recovery_factor().d)
        if op == "rfd":
            return "value", list(obj.recovery_factor(density=True).d)
        f = obj.recovery_factor_interpolator()
        return "value", [f(q)] + [f(t) for t in obj.time.d]       # at a symbolic time and at the simulated times
    except (RuntimeError, AttributeError, ValueError, KeyError, TypeError) as ex:
        return "exc", type(ex).__name__


def _state(obj):
    out = []
    if hasattr(obj, "time"):
        out += list(obj.time.d)
    if hasattr(obj, "pseudopressure"):
        out += [v for r in rows_of(obj) for v in r]
    return out


def _fresh_history(hist):
    """Latest simulate and the recovery calls after it (whole history if no simulate yet)."""
    last = max((i for i, op in enumerate(hist) if op in SIMS), default=None)
    return list(hist) if last is None else list(hist[last:])


# ------------------------------------------------------------------ replay on the real code

def replay_history(model, cls="SinglePhaseReservoir", hist=(), pf0d=False):
    import numpy as np
    from bluebonnet.flow import reservoir as rr
    from .c04 import _real_fluid
    grids = {}
    for name, n in GRID_LEN.items():
        t = [float(model.get(f"{name}_t0") or 0.0)]
        for k in range(1, n):
            t.append(t[-1] + float(model.get(f"{name}_d{k}") or (0.01 * k if name != "simB" else 0.05 * k)))
        grids[name] = np.array(t)
    fluid = None if cls == "IdealReservoir" else _real_fluid()
    sched = np.array([min(max(float(model.get(f"sch{k}") or (6000.0 - 1500.0 * k)), 200.0), 7900.0) for k in range(GRID_LEN["simA"])])
    if len(set(sched.tolist())) == 1:
        sched = sched + np.array([0.0, -500.0, -900.0])[:len(sched)]

    def mk():
        pf_ = np.array(1000.0) if pf0d else 1000.0       # the documented type of the field is float | NDArray
        return rr.IdealReservoir(5, pf_, 8000.0, None) if fluid is None else rr.SinglePhaseReservoir(5, pf_, 8000.0, fluid)

    def run(ops, state_after_first=False):
        o = mk()
        last = None
        since, repeats, st_first = {}, [], None
        last_rec = None
        for n_, op in enumerate(ops):
            try:
                if op == "scaleA":
                    grids["simA"] *= 4.0
                    last = ("value", [])
                elif op == "simAs":
                    o.simulate(grids["simA"], sched)
                    last = ("value", [])
                elif op in GRID_LEN:
                    o.simulate(grids[op])
                    last = ("value", [])
                elif op == "rf":
                    last = ("value", np.asarray(o.recovery_factor(), float).tolist())
                elif op == "rfd":
                    last = ("value", np.asarray(o.recovery_factor(density=True), float).tolist())
                else:
                    f = o.recovery_factor_interpolator()
                    # the solver's query time as it is (it may lie outside the simulated range, where the interpolator's fill
                    # values answer), plus one probe beyond each end of the range
                    tq = float(model.get("q")) if model.get("q") is not None else float(o.time[-1] + 1.0)
                    last = ("value", [float(f(tq))] + [float(f(t_)) for t_ in o.time] + [float(f(o.time[-1] + 1.0)), float(f(o.time[0] - 1.0))])
                    if last_rec is not None and (len(last_rec) != len(o.time) or any(abs(x - y) > 1e-9 * (1 + abs(y)) for x, y in zip(last[1][1:1 + len(o.time)], last_rec))):
                        stale.append(f"the interpolator gives {last[1][1:1 + len(o.time)]} at the simulated times, the recovery most recently returned was {last_rec}")
            except (RuntimeError, AttributeError, ValueError, KeyError, TypeError) as ex:
                last = ("exc", type(ex).__name__)
            if op in SIMS:
                last_rec = None
            elif op in ("rf", "rfd") and last[0] == "value":
                last_rec = last[1]
            if op in SIMS:
                since = {}
            elif op in since:
                repeats.append((op, since[op], last))
            else:
                since[op] = last
            if op in ("rf", "rfd"):
                since.pop("interp", None)
            if n_ == 0 and state_after_first and hasattr(o, "time"):
                st_first = list(map(float, o.time)) + np.asarray(o.pseudopressure, float).ravel().tolist()
        st = []
        if hasattr(o, "time"):
            st = list(map(float, o.time)) + np.asarray(o.pseudopressure, float).ravel().tolist()
        return last, (st_first if st_first is not None else st), repeats
    close = lambda x, y: abs(x - y) <= 1e-9 * (1 + abs(y))
    stale = []
    (ka, va), sa, reps = run(hist)
    stale_a = list(stale)
    (kb, vb), sb, _ = run(_fresh_history(hist), state_after_first=True)
    bad_rep = [f"{op} returned {r1} and then {r2}" for op, r1, r2 in reps
               if r1[0] != r2[0] or (r1[0] == "exc" and r1[1] != r2[1]) or (r1[0] == "value" and (len(r1[1]) != len(r2[1]) or not all(close(x, y) for x, y in zip(r1[1], r2[1]))))]
    bad = ka != kb or (ka == "exc" and va != vb) or len(sa) != len(sb) or \
        (ka == "value" and (len(va) != len(vb) or any(not close(x, y) for x, y in zip(va, vb)))) or \
        any(not close(x, y) for x, y in zip(sa, sb)) or bool(bad_rep) or bool(stale_a)
    what = f"{cls}: history {list(hist)} ends with {ka} {va} but a fresh object running {_fresh_history(hist)} gives {kb} {vb}"
    if stale_a:
        what = f"{cls}: history {list(hist)}: " + stale_a[0]
    elif bad_rep:
        what = f"{cls}: history {list(hist)}: repeating a call changed its result: " + "; ".join(bad_rep[:2])
    elif bad and ka == kb and (ka != "value" or (len(va) == len(vb) and all(close(x, y) for x, y in zip(va, vb)))):
        what = f"{cls}: history {list(hist)}: the stored times / field differ from those the latest simulate alone produces (a recovery or interpolator call modified them)"
    return bad, {"what": what, "inputs": dict({k: v.tolist() for k, v in grids.items()}, schedule=sched.tolist())}


# ------------------------------------------------------------------ job

# histories in which the caller rescales, in place, the time array it simulated on and simulates on it again
INPLACE = [("simA", "rf", "scaleA", "simA", "rf"), ("simA", "scaleA", "simA", "interp"), ("simA", "rf", "scaleA", "simA", "interp"), ("simA", "scaleA", "simA", "rfd"),
           ("simA", "scaleA", "simA")]


def job_histories(job, cls, L, chunk, nchunks, pf0d=False, given=None):
    mod = load_reservoir()
    job.encoded(mod, f"{cls}.simulate", "IdealReservoir.recovery_factor", "IdealReservoir.recovery_factor_interpolator")
    job.stub("linear solve: ideal, memoised on the syntactic system", "fluid*: contract stub with a 2-row (m-scaled, density) table",
             "scipy interp1d / cumulative_trapezoid: exact models")
    ops = [o for o in OPS if not (cls == "IdealReservoir" and o in ("rfd", "simAs"))]
    hists = [h for n in range(1, L + 1) for h in itertools.product(ops, repeat=n)]
    mine = [h for i, h in enumerate(hists) if i % nchunks == chunk]
    if given is not None:
        mine = [h for h in given if not (cls == "IdealReservoir" and "rfd" in h)]
    job.bound(history_length=L, operations=list(ops), nx=3, grid_lengths=dict(GRID_LEN), histories_total=len(hists))
    nx = 3
    checked = 0
    # on a tree without stale state every comparison is syntactic; a query that z3 cannot settle quickly is reported
    # inconclusive (exit 3) rather than allowed to eat the check's budget
    job.timeout = 40
    for hist in mine:
        def run():
            SS.LinSolve.reset(MemoSolve())
            SS.reset_names()
            grids = _grids()
            q = fresh("q")
            fluid = FluidStub(density_rows=2) if cls != "IdealReservoir" else None
            pf, pi = fresh("pf", pos=True), fresh("pi", pos=True)

            def mk():
                # pf0d: the frac-face pressure is handed over as a 0-d float64 array (the field is documented float | NDArray);
                # every object gets its own array
                from ..shims.np_shim import ZeroD
                pf_ = ZeroD(pf, "f8") if pf0d else pf
                return mod.IdealReservoir(Q(nx), pf_, pi, None) if fluid is None else mod.SinglePhaseReservoir(Q(nx), pf_, pi, fluid)
            a = mk()
            ra = None
            since = {}          # op -> first result since the latest simulate (for "repeating a call returns the same result")
            repeats = []
            follow = []         # (interpolator values at the simulated times, the recovery array most recently returned)
            last_rec = None
            for op in hist:
                ra = _apply(a, op, grids, q)
                if op in SIMS:
                    last_rec = None
                elif op in ("rf", "rfd") and ra[0] == "value":
                    last_rec = ra[1]
                elif op == "interp" and ra[0] == "value" and last_rec is not None:
                    follow.append((ra[1][1:], last_rec))
                if op in SIMS:
                    since = {}
                elif op in since:
                    repeats.append((op, since[op], ra))
                else:
                    since[op] = ra
                if op in ("rf", "rfd"):
                    # the interpolator is documented as the interpolator of the recovery most recently computed ("requires
                    # that recovery_factor has been run"): a recovery call in another mode legitimately changes what the
                    # next interpolator returns, so interpolator results are compared only across calls with no recovery
                    # call in between; rf / rfd carry their mode as an argument and are compared across any calls
                    since.pop("interp", None)
            b = mk()
            rb = None
            sb = None
            for op in _fresh_history(hist):
                rb = _apply(b, op, grids, q)
                if sb is None:
                    # the stored times / field are those the latest simulate produced: recovery and interpolator calls made
                    # afterwards must leave them alone, so the reference state is taken right after the fresh simulate
                    sb = _state(b)
            return ra, rb, _state(a), (sb if sb is not None else _state(b)), repeats, follow

        res = paths(job, run, [], max_paths=64)
        for k, pr in enumerate(res):
            if pr.exc is not None:
                if isinstance(pr.exc, SS.NonMonotoneAbscissae):
                    continue
                job.errors.append(f"{cls} history {hist} raised {pr.exc!r}")
                continue
            (ka, va), (kb, vb), sa, sb, repeats, follow = pr.value
            name = f"{cls}{'[frac-face pressure a 0-d array]' if pf0d else ''}/{'>'.join(hist)}[path{k}]"
            rp = (replay_history, {"cls": cls, "hist": list(hist), "pf0d": pf0d})
            checked += 1
            for n_, (at_times, rec) in enumerate(follow):
                fname = f"{name}: interpolator call {n_ + 1} reproduces the recovery most recently returned at the simulated times"
                if len(at_times) != len(rec):
                    job.prove(fname + " (lengths differ)", pr.pc, bound=f"history length {len(hist)}", replay=rp, elim=True)
                    continue
                d = _differs(list(at_times), list(rec), pr.ctx.normal)
                if d.kind == "const" and not d.args[0]:
                    job.record(fname, "unsat", 0.0, note="syntactically identical")
                else:
                    job.prove(fname, pr.pc + [d], bound=f"history length {len(hist)}", replay=rp, elim=True)
            for op, (k1, v1), (k2, v2) in repeats:
                rname = f"{name}: repeating {op} returns the same result"
                if k1 != k2 or (k1 == "exc" and v1 != v2) or (k1 == "value" and len(v1) != len(v2)):
                    job.prove(rname + f" (outcome kind {k1} then {k2})", pr.pc, bound=f"history length {len(hist)}", replay=rp, elim=True)
                elif k1 == "value":
                    d = _differs(list(v1), list(v2), pr.ctx.normal)
                    if d.kind == "const" and not d.args[0]:
                        job.record(rname, "unsat", 0.0, note="syntactically identical")
                    else:
                        job.prove(rname, pr.pc + [d], bound=f"history length {len(hist)}", replay=rp, elim=True)
            if ka != kb or (ka == "exc" and va != vb) or len(sa) != len(sb) or (ka == "value" and len(va) != len(vb)):
                job.prove(f"{name}: outcome kind differs from a fresh object ({ka} {va if ka == 'exc' else len(va)} vs {kb} {vb if kb == 'exc' else len(vb)})",
                          pr.pc, bound=f"history length {len(hist)}", replay=rp, elim=True)
                continue
            diff = _differs(list(va) + sa, list(vb) + sb, pr.ctx.normal) if ka == "value" else _differs(sa, sb, pr.ctx.normal)
            if diff.kind == "const" and not diff.args[0]:
                job.record(name, "unsat", 0.0, note="observables syntactically identical to the fresh object's")
            else:
                job.prove(name + ": observables equal a fresh object's", pr.pc + [diff], bound=f"history length {len(hist)}", replay=rp, elim=True)
    job.bound(**{f"histories_checked_chunk{chunk}": checked})
    # vacuity: the assumptions of one representative history (two simulations, all three recovery calls) are satisfiable
    if chunk == 0:
        def rep():
            SS.LinSolve.reset(MemoSolve())
            SS.reset_names()
            grids = _grids()
            fluid = FluidStub(density_rows=2) if cls != "IdealReservoir" else None
            o = (mod.IdealReservoir(Q(nx), fresh("pf", pos=True), fresh("pi", pos=True), None) if fluid is None
                 else mod.SinglePhaseReservoir(Q(nx), fresh("pf", pos=True), fresh("pi", pos=True), fluid))
            for op in ("simA", "rf", "simC", "interp"):
                _apply(o, op, grids, fresh("q"))
            return o
        for pr in paths(job, rep, [], max_paths=16):
            if pr.exc is None:
                job.prove(f"{cls}/reach: simA>rf>simC>interp", pr.pc, expect="sat", elim=True)
                break


def jobs(tier):
    L = 4 if tier == "quick" else 5
    n = 8 if tier == "quick" else 16
    out = []
    for cls in ("SinglePhaseReservoir", "IdealReservoir"):
        for c in range(n):
            out.append((f"hist-{cls[:6]}-{c}", lambda j, cl=cls, c=c: job_histories(j, cl, L, c, n)))
    for cls in ("IdealReservoir", "SinglePhaseReservoir"):
        out.append((f"hist-0d-fracface-{cls[:6]}", lambda j, cl=cls: job_histories(j, cl, 3, 0, 1, pf0d=True)))
    for cls in ("IdealReservoir", "SinglePhaseReservoir"):
        out.append((f"hist-grid-rescaled-in-place-{cls[:6]}", lambda j, cl=cls: job_histories(j, cl, 5, 1, 2, given=INPLACE)))
    return out
