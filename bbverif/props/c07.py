"""C07 - density, formation volume factor and compressibility are mutually consistent.

Gas:   density_DAK = p M / (Z R T) with the library's own Z call (uninterpreted, arguments checked);
       density(p1) * Bg(p1) = density(p2) * Bg(p2) for any two pressures.
       c_g = d ln(density)/dp where density is the one the library returns: Z is the root of the
       closure z_factor_DAK hands to its root finder; the derivative is obtained by implicit
       differentiation of that closure (symbolic, exact).  The state is parametrised by the reduced
       density rho (p_r := T_r rho Z_eos(rho) / 0.27, so the root condition holds by construction).
Visc.: positive; increasing in the density it is fed (two-point form).
Oil:   density_Standing * B_o = 62.37 gamma_o + 0.0136 gamma_g R_s with the library's own calls.
Water: density * B_w = 62.368 + 0.438603 S + 1.60074e-3 S^2.
"""
from __future__ import annotations

import math
from fractions import Fraction

from ..sx import terms as T
from ..sx.sym import s_exp
from ..shims import scipy_shim as SS
from .common import (P, box, check_defined, evalf, load_sym, model_floats, not_close, paths, rng, K, Q, Sym, lift,
                     simp, fresh)
from .c06 import dak_residual, A_PUB
from .c13 import _uf, _var_atom, _richardson


def _posvar(name):
    return fresh(name, pos=True)


def _gt0(x):
    return T.b_lt(T.ZERO, P(x))


# ------------------------------------------------------------------ replays

def _gas_inputs(m):
    return m["Tr"] * m["TpcR"] - 459.67, m["pr"] * m["ppc"], m["TpcR"] - 459.67, m["ppc"]


def replay_cg(model, published=False):
    """Real compressibility_DAK against (a) the numerical log-derivative of the real density_DAK, or
    (b) the textbook formula with the published EOS derivative at the real Z."""
    from bluebonnet.fluids import gas
    m = model_floats(model, ["Tr", "rho", "TpcR", "ppc"], default=dict(TpcR=380.0, ppc=650.0))
    Tr, rho = m["Tr"], m["rho"]
    # the state is given by (Tr, rho): recover p_r from the library's own Z at that state by fixed point
    zeos = lambda r, dev: 0.27 * 1.0 / (Tr * r) - dak_residual(r, Tr, 1.0, math.exp, num=float, deviation=dev)
    pr = Tr * rho * zeos(rho, not published) / 0.27
    if not (0 < pr <= 30):
        return False, {"what": "model point outside the rectangle after reconstruction", "inputs": m}
    m["pr"] = pr
    T_, p, Tpc, ppc = _gas_inputs(m)
    cg = float(gas.compressibility_DAK(T_, p, Tpc, ppc))
    if published:
        z = float(gas.z_factor_DAK(T_, p, Tpc, ppc))
        r = 0.27 * pr / (Tr * z)
        h = 1e-6 * r
        dz = (zeos(r + h, False) - zeos(r - h, False)) / (2 * h)
        want = (1 / pr - 0.27 / (z * z * Tr) * (dz / (1 + r * dz / z))) / ppc
        what = "compressibility_DAK vs the textbook c_r(Z, dZ/drho) with the published EOS"
    else:
        f = lambda q: math.log(gas.density_DAK(T_, q, Tpc, ppc, 0.7))
        want = _richardson(f, p, max(1e-3, 1e-4 * p))
        what = "compressibility_DAK vs d ln(density_DAK)/dp (Richardson finite difference of the real function)"
    bad = abs(cg - want) > 1e-5 * abs(want)
    return bad, {"what": f"{what}: {cg!r} vs {want!r} (ratio {cg / want:.4f}) at T={T_:.5g} F, p={p:.6g} psia, "
                         f"Tpc={Tpc:.5g} F, ppc={ppc:.5g}", "inputs": m}


def replay_density(model):
    from bluebonnet.fluids import gas
    m = model_floats(model, ["T", "p", "Tpc", "ppc", "sg"])
    z = gas.z_factor_DAK(m["T"], m["p"], m["Tpc"], m["ppc"])
    want = m["p"] * 28.964 * m["sg"] / (z * 10.73159 * (m["T"] + 459.67))
    got = gas.density_DAK(m["T"], m["p"], m["Tpc"], m["ppc"], m["sg"])
    return abs(got - want) > 1e-9 * abs(want), {"what": f"density_DAK {got!r} vs p M/(Z R T) {want!r}", "inputs": m}


def replay_rho_bg(model):
    from bluebonnet.fluids import gas
    m = model_floats(model, ["T", "p1", "p2", "Tpc", "ppc", "sg", "tstd", "pstd"], default=dict(tstd=60.0, pstd=14.7))
    f = lambda p: gas.density_DAK(m["T"], p, m["Tpc"], m["ppc"], m["sg"]) * \
        gas.b_factor_DAK(m["T"], p, m["Tpc"], m["ppc"], m["tstd"], m["pstd"])
    a, b = f(m["p1"]), f(m["p2"])
    return abs(a - b) > 1e-9 * abs(a), {"what": f"density*Bg at p1 {a!r} vs at p2 {b!r}", "inputs": m}


def replay_rho_bg_std(model):
    """density x Bg (x 5.615 ft3/bbl) against the mass of a standard cubic foot, M p_sc / (R T_sc) (Z = 1 at standard conditions)."""
    from bluebonnet.fluids import gas
    m = model_floats(model, ["T", "p1", "Tpc", "ppc", "sg", "tstd", "pstd"], default=dict(tstd=60.0, pstd=14.7))
    got = gas.density_DAK(m["T"], m["p1"], m["Tpc"], m["ppc"], m["sg"]) * gas.b_factor_DAK(m["T"], m["p1"], m["Tpc"], m["ppc"], m["tstd"], m["pstd"]) * 5.615
    want = 28.964 * m["sg"] * m["pstd"] / (10.73159 * (m["tstd"] + 459.67))
    return abs(got - want) > 1e-9 * abs(want), {"what": f"density*Bg*5.615 = {got!r} vs standard-condition gas density M p_sc/(R T_sc) = {want!r} "
                                                          f"(T_sc={m['tstd']!r} F, p_sc={m['pstd']!r} psia)", "inputs": m}


def replay_rho_bg_default(model):
    """density x Bg x 5.615 with Bg's standard conditions left to their defaults, against M p_sc / (R T_sc) at the library's
    standard conditions (bluebonnet.fluids.fluid.TEMPERATURE_STANDARD / PRESSURE_STANDARD)."""
    from bluebonnet.fluids import gas
    import bluebonnet.fluids.fluid as rfl
    m = model_floats(model, ["T", "p1", "Tpc", "ppc", "sg"], default=dict(T=250.0, p1=3000.0, Tpc=-80.0, ppc=650.0, sg=0.7))
    got = gas.density_DAK(m["T"], m["p1"], m["Tpc"], m["ppc"], m["sg"]) * gas.b_factor_DAK(m["T"], m["p1"], m["Tpc"], m["ppc"]) * 5.615
    want = 28.964 * m["sg"] * rfl.PRESSURE_STANDARD / (10.73159 * (rfl.TEMPERATURE_STANDARD + 459.67))
    return abs(got - want) > 1e-9 * abs(want), {"what": f"density*Bg*5.615 with Bg's default standard conditions = {got!r} vs M p_sc/(R T_sc) = {want!r} at the library's "
                                                          f"standard conditions ({rfl.TEMPERATURE_STANDARD!r} F, {rfl.PRESSURE_STANDARD!r} psia)", "inputs": m}


def replay_visc(model):
    from bluebonnet.fluids import gas
    m = model_floats(model, ["T", "Tpc", "ppc", "sg", "rho1", "rho2"])
    orig = gas.density_DAK
    try:
        out = []
        for r in (m["rho1"], m["rho2"]):
            gas.density_DAK = lambda *a, _r=r: _r
            out.append(float(gas.viscosity_Sutton(m["T"], 1000.0, m["Tpc"], m["ppc"], m["sg"])))
    finally:
        gas.density_DAK = orig
    bad = not (out[0] > 0 and out[1] > 0 and (out[0] < out[1]) == (m["rho1"] < m["rho2"]))
    return bad, {"what": f"viscosity_Sutton at densities {m['rho1']!r} < {m['rho2']!r}: {out!r}", "inputs": m}


def replay_oil(model):
    from bluebonnet.fluids import oil
    m = model_floats(model, ["T", "p", "api", "gg", "rsi"])
    a = (m["T"], m["p"], m["api"], m["gg"], m["rsi"])
    got = oil.density_Standing(*a) * oil.b_o_Standing(*a)
    want = 62.37 * 141.5 / (131.5 + m["api"]) + 0.0136 * m["gg"] * oil.solution_gor_Standing(*a)
    return abs(got - want) > 1e-9 * abs(want), {"what": f"density_Standing*b_o_Standing {got!r} vs stock-tank oil + dissolved gas {want!r}", "inputs": m}


def replay_water(model):
    from bluebonnet.fluids import water
    m = model_floats(model, ["T", "p", "S"])
    got = water.density_water_McCain(m["T"], m["p"], m["S"]) * water.b_water_McCain(m["T"], m["p"])
    want = 62.368 + 0.438603 * m["S"] + 1.60074e-3 * m["S"] ** 2
    return abs(got - want) > 1e-9 * abs(want), {"what": f"density_water*B_w {got!r} vs brine density at standard conditions {want!r}", "inputs": m}


# ------------------------------------------------------------------ jobs

def job_gas_density(job):
    import bluebonnet.fluids.gas as _rg
    zuf = _uf("Z", like=_rg.z_factor_DAK)
    gas = load_sym("bluebonnet.fluids.gas", z_factor_DAK=zuf, **SS.rebind())
    job.encoded(gas, "density_DAK", "b_factor_DAK")
    job.stub("z_factor_DAK: positive uninterpreted function of (T, p, Tpc, ppc) (its root property is C06)")
    vs, dom = box(job, T=(60, 400), p1=(10, 20000), p2=(10, 20000), Tpc=(-200, 100), ppc=(200, 1500), sg=("0.55", "1.2"),
                  tstd=(32, 100), pstd=(10, 20))
    T_, p1, p2, Tpc, ppc, sg = (vs[k] for k in ("T", "p1", "p2", "Tpc", "ppc", "sg"))

    hold = {}

    def run():
        d1 = gas.density_DAK(T_, p1, Tpc, ppc, sg)
        d2 = gas.density_DAK(T_, p2, Tpc, ppc, sg)
        b1 = gas.b_factor_DAK(T_, p1, Tpc, ppc, vs["tstd"], vs["pstd"])
        b2 = gas.b_factor_DAK(T_, p2, Tpc, ppc, vs["tstd"], vs["pstd"])
        hold["b_default"] = gas.b_factor_DAK(T_, p1, Tpc, ppc)      # standard conditions left to the library
        return d1, d2, b1, b2

    import bluebonnet.fluids.fluid as _rfl
    lib_t, lib_p = K(repr(_rfl.TEMPERATURE_STANDARD)), K(repr(_rfl.PRESSURE_STANDARD))
    for k, pr in enumerate(paths(job, run, dom)):
        d1, d2, b1, b2 = pr.value
        # called without standard conditions, Bg refers to the library's own (fluid.TEMPERATURE_STANDARD / PRESSURE_STANDARD,
        # the ones the facade and the oil correlations use): one standard cubic foot holds the same mass on every route
        job.prove(f"gas/density*Bg with the default standard conditions==M p_sc/(R T_sc) at the library's standard conditions[path{k}]",
                  pr.pc + [not_close(d1 * hold["b_default"] * K("5.615"), K("28.964") * sg * lib_p / (K("10.73159") * (lib_t + K("459.67"))))],
                  bound=f"gas box, library standard conditions {_rfl.TEMPERATURE_STANDARD!r} F, {_rfl.PRESSURE_STANDARD!r} psia", replay=replay_rho_bg_default)
        want = p1 * K("28.964") * sg / (zuf(T_, p1, Tpc, ppc) * K("10.73159") * (T_ + K("459.67")))
        job.prove(f"gas/density==pM/(ZRT)[path{k}]", pr.pc + [not_close(d1, want)], bound="gas box",
                  replay=lambda m: replay_density({**m, "p": m.get("p1")}))
        job.prove(f"gas/density*Bg independent of p[path{k}]", pr.pc + [not_close(d1 * b1, d2 * b2)], bound="gas box",
                  replay=replay_rho_bg)
        std = K("28.964") * sg * vs["pstd"] / (K("10.73159") * (vs["tstd"] + K("459.67")))
        job.prove(f"gas/density*Bg==standard-condition mass content M p_sc/(R T_sc) per scf, any standard conditions[path{k}]",
                  pr.pc + [not_close(d1 * b1 * K("5.615"), std)], bound="gas box, T_sc 32..100 F, p_sc 10..20 psia", replay=replay_rho_bg_std)
        job.prove(f"gas/density/reach[path{k}]", pr.pc, expect="sat")
        check_defined(job, f"gas/density/path{k}", pr)
    from bluebonnet.fluids import gas as rg
    for env in (dict(T=400.0, p1=100.0, p2=200.0, Tpc=-102.21827232417752, ppc=648.510797253794, sg=0.65, tstd=60.0, pstd=14.7),
                dict(T=300.0, p1=5014.7, p2=900.0, Tpc=-80.95111110103215, ppc=656.7949325583305, sg=0.7661054354004884, tstd=60.0, pstd=14.7)):
        zf = {"Z": lambda T__, p__, a, b: rg.z_factor_DAK(T__, p__, a, b)}
        job.validate("density_DAK", evalf(d1, env, zf), float(rg.density_DAK(env["T"], env["p1"], env["Tpc"], env["ppc"], env["sg"])), inputs=env)
        job.validate("b_factor_DAK", evalf(b1, env, zf), float(rg.b_factor_DAK(env["T"], env["p1"], env["Tpc"], env["ppc"], env["tstd"], env["pstd"])), inputs=env)


def job_gas_compressibility(job):
    job.stub("scipy.optimize.brentq/minimize: contract stubs used only to capture the closure of z_factor_DAK",
             "z_factor_DAK inside compressibility_DAK: returns the library's own root Z_eos(rho) when called with the "
             "caller's (T, p, Tpc, ppc), an unrelated uninterpreted value otherwise")
    job.assume_text("state parametrised by reduced density rho > 0: p_r := T_r rho Z_eos(rho)/0.27 (root condition by "
                    "construction); derivative of the implicit root by implicit differentiation")
    job.bound(rectangle="1.05 <= T_r <= 3, 0 < p_r <= 30, 0.05 <= Z <= 5, T_pc+459.67 in [250,900] R, p_pc in [200,1500]")
    gas0 = load_sym("bluebonnet.fluids.gas", **SS.rebind())
    job.encoded(gas0, "z_factor_DAK", "compressibility_DAK")
    vs, dom = box(job, Tr=("1.05", 3), TpcR=(250, 900), ppc=(200, 1500))
    Tr, TpcR, ppc = vs["Tr"], vs["TpcR"], vs["ppc"]
    rho = _posvar("rho")
    pr0 = _posvar("pr0")
    rho_at, pr0_at = _var_atom(rho), _var_atom(pr0)

    # 1. capture the closure of the library's own z_factor_DAK
    def cap():
        SS.OptCalls.reset()
        SS.reset_names()
        SS.OptCalls.brentq_sign_decision = False
        gas0.z_factor_DAK(Tr * TpcR - K("459.67"), pr0 * ppc, TpcR - K("459.67"), ppc)
        return list(SS.OptCalls.brentq), list(SS.OptCalls.minimize)

    res = paths(job, cap, dom + [_gt0(pr0)])
    if len(res) != 1 or res[0].exc is not None:
        job.errors.append(f"closure capture: expected one normal path, got {[r.exc for r in res]}")
        return
    brs, mins = res[0].value
    if brs:
        F_code = lift(brs[0]["f"](rho))
    elif mins:
        job.errors.append("z_factor_DAK hands an objective (not a residual) to a minimiser: the root it returns is not "
                          "characterised by the routine's contract; see C06")
        return
    else:
        job.errors.append("z_factor_DAK did not call a root finder")
        return
    zeos_code = K("0.27") * pr0 / (Tr * rho) - F_code
    if pr0_at.id in T.collect_atom_ids(P(zeos_code)):
        job.errors.append("the residual of z_factor_DAK is not of the form 0.27 p_r/(T_r rho) - Z_eos(rho)")
        return
    zeos_pub = K("0.27") * pr0 / (Tr * rho) - dak_residual(rho, Tr, pr0, s_exp)

    Zs = _posvar("Zs")
    pr = Tr * rho * Zs / K("0.27")          # root condition 0.27 p_r/(T_r rho) = Z holds by construction
    T_in, p_in, Tpc_in = Tr * TpcR - K("459.67"), pr * ppc, TpcR - K("459.67")

    def zstub(a, b, c, d, _args=(T_in, p_in, Tpc_in, ppc)):
        if all(P(x) == P(y) for x, y in zip((a, b, c, d), _args)):
            return Zs
        return simp(T.mkUF("Zother", [P(a), P(b), P(c), P(d)], True))

    gas = load_sym("bluebonnet.fluids.gas", z_factor_DAK=zstub, **SS.rebind())
    state = dom + [T.b_le(P(pr), T.Poly.const(30)), T.b_le(P(Zs), T.Poly.const(5)),
                   T.b_le(T.Poly.const(Fraction(1, 20)), P(Zs))]
    res2 = paths(job, lambda: gas.compressibility_DAK(T_in, p_in, Tpc_in, ppc), state)
    for tag, zeos, finding in (("library density", zeos_code, "C07-compressibility-vs-own-density"),
                               ("published EOS", zeos_pub, None)):
        for k, prr in enumerate(res2):
            cg = prr.value
            # reference: (1/ppc) (1/rho) d rho/d p_r  with  d rho/d p_r = -F_pr/F_rho  on the root, F the residual
            # 0.27 p_r/(T_r rho) - Z_eos(rho); Z (the root) is a free symbol Zs with p_r := T_r rho Zs / 0.27,
            # which over-approximates Zs = Z_eos(rho)
            F = K("0.27") * pr0 / (Tr * rho) - zeos
            F_rho = simp(T.substitute(T.diff(P(F), rho_at), {pr0_at: P(pr)}))
            F_pr = simp(T.substitute(T.diff(P(F), pr0_at), {pr0_at: P(pr)}))
            c_ref = -F_pr / (F_rho * rho * ppc)
            job.prove(f"gas/c_g==dln(density)/dp[{tag}][path{k}]",
                      prr.pc + [not_close(cg, c_ref)], bound="rectangle x rho", finding=finding,
                      replay=(replay_cg, {"published": tag == "published EOS"}))
            job.prove(f"gas/c_g/reach[{tag}][path{k}]", prr.pc, expect="sat")
    # translator validation of compressibility_DAK with the real Z
    from bluebonnet.fluids import gas as rg
    gasv = load_sym("bluebonnet.fluids.gas", z_factor_DAK=_uf("Z", like=__import__("bluebonnet.fluids.gas", fromlist=["x"]).z_factor_DAK), **SS.rebind())
    vv, _ = box(job, T=(0, 1000), p=(0, 1e5), Tpc=(-400, 400), ppcv=(0, 1e4))
    sym = paths(job, lambda: gasv.compressibility_DAK(vv["T"], vv["p"], vv["Tpc"], vv["ppcv"]), [])[0].value
    for env in (dict(T=400.0, p=104.7, Tpc=-102.0, ppcv=649.0), dict(T=300.0, p=5014.7, Tpc=-80.95111110103215, ppcv=656.7949325583305)):
        zf = {"Z": lambda a, b, c, d: rg.z_factor_DAK(a, b, c, d)}
        job.validate("compressibility_DAK", evalf(sym, env, zf),
                     float(rg.compressibility_DAK(env["T"], env["p"], env["Tpc"], env["ppcv"])), inputs=env)


def job_viscosity(job):
    job.stub("density_DAK inside viscosity_Sutton: returns the symbolic gas density it is fed (checked to be called "
             "with the caller's arguments)")
    job.assume_text("'viscosity increases with pressure' is decided as 'increases with the density it is fed'; that gas "
                    "density increases with pressure (c_g > 0 on the whole rectangle) is a transcendental sign claim "
                    "outside the solver's reach and is assumed")
    vs, dom = box(job, T=(60, 400), p=(10, 20000), TpcR=(250, 900), ppc=(200, 1500), sg=("0.55", "1.2"),
                  rho1=("0.001", 40), rho2=("0.001", 40))
    T_, p, TpcR, ppc, sg, r1, r2 = (vs[k] for k in ("T", "p", "TpcR", "ppc", "sg", "rho1", "rho2"))
    Tpc = TpcR - K("459.67")
    dom = dom + [T.b_le(T.p_scale(P(TpcR), Fraction(105, 100)), P(T_ + K("459.67"))),
                 T.b_le(P(T_ + K("459.67")), T.p_scale(P(TpcR), 3)), T.b_lt(P(r1), P(r2))]
    cur = {}

    def dstub(a, b, c, d, e):
        ok = all(P(x) == P(y) for x, y in zip((a, b, c, d, e), (T_, p, Tpc, ppc, sg)))
        return cur["rho"] if ok else simp(T.mkUF("rho_other", [P(x) for x in (a, b, c, d, e)], True))

    gas = load_sym("bluebonnet.fluids.gas", density_DAK=dstub, **SS.rebind())
    job.encoded(gas, "viscosity_Sutton")

    def run():
        out = []
        for r in (r1, r2):
            cur["rho"] = r
            out.append(gas.viscosity_Sutton(T_, p, Tpc, ppc, sg))
        return out

    for k, pr in enumerate(paths(job, run, dom)):
        m1, m2 = pr.value
        job.prove(f"gas/viscosity>0[path{k}]", pr.pc + [T.b_le0(P(m1))], bound="gas box, 1.05<=Tr<=3", replay=replay_visc)
        job.prove(f"gas/viscosity increasing in density[path{k}]", pr.pc + [T.b_le(P(m2), P(m1))],
                  bound="gas box, rho 0.001..40 lb/ft3", replay=replay_visc)
        job.prove(f"gas/viscosity/reach[path{k}]", pr.pc, expect="sat")
        check_defined(job, f"gas/viscosity/path{k}", pr)
    from bluebonnet.fluids import gas as rg
    for env in (dict(T=400.0, p=100.0, TpcR=-102.21827232417752 + 459.67, ppc=648.510797253794, sg=0.65),
                dict(T=300.0, p=5014.7, TpcR=-80.95111110103215 + 459.67, ppc=656.7949325583305, sg=0.7661054354004884)):
        rr = float(rg.density_DAK(env["T"], env["p"], env["TpcR"] - 459.67, env["ppc"], env["sg"]))
        e2 = dict(env, rho1=rr, rho2=rr * 2)
        job.validate("viscosity_Sutton", evalf(m1, e2),
                     float(rg.viscosity_Sutton(env["T"], env["p"], env["TpcR"] - 459.67, env["ppc"], env["sg"])), inputs=e2)


def job_oil(job):
    import bluebonnet.fluids.oil as _ro
    rs, bo = _uf("Rs", like=_ro.solution_gor_Standing), _uf("Bo", like=_ro.b_o_Standing)
    oil = load_sym("bluebonnet.fluids.oil", solution_gor_Standing=rs, b_o_Standing=bo)
    job.encoded(oil, "density_Standing")
    job.stub("solution_gor_Standing, b_o_Standing inside density_Standing: positive uninterpreted recording stubs")
    vs, dom = box(job, T=(80, 350), p=("14.7", 20000), api=(12, 55), gg=("0.56", "1.3"), rsi=(20, 2500))
    a = tuple(vs[k] for k in ("T", "p", "api", "gg", "rsi"))
    for k, pr in enumerate(paths(job, lambda: oil.density_Standing(*a), dom)):
        want = K("62.37") * K("141.5") / (K("131.5") + vs["api"]) + K("0.0136") * vs["gg"] * rs(*a)
        job.prove(f"oil/density*Bo==stock-tank oil+dissolved gas[path{k}]", pr.pc + [not_close(pr.value * bo(*a), want)],
                  bound="oil box", replay=replay_oil)
        job.prove(f"oil/density/reach[path{k}]", pr.pc, expect="sat")
    from bluebonnet.fluids import oil as ro
    for env in (dict(T=200.0, p=2000.0, api=35.0, gg=0.8, rsi=650.0), dict(T=200.0, p=3000.0, api=35.0, gg=0.8, rsi=650.0)):
        ufs = {"Rs": ro.solution_gor_Standing, "Bo": ro.b_o_Standing}
        job.validate("density_Standing", evalf(pr.value, env, ufs), float(ro.density_Standing(*[env[k] for k in ("T", "p", "api", "gg", "rsi")])), inputs=env)


def replay_oil_array(model, dtype="f8", two_d=False, int_gor=False):
    """density_Standing on a pressure array listed from high to low, element by element against the library's own scalar
    R_s and B_o at the same pressure."""
    import numpy as np
    from bluebonnet.fluids import oil
    m = model_floats(model, ["T", "p1", "p2", "api", "gg", "rsi"], default=dict(T=200.0, p1=1500.0, p2=4000.0, api=35.0, gg=0.8, rsi=650.0))
    if int_gor:
        m["rsi"] = int(round(m["rsi"]))          # the initial GOR as a Python int (650, as every docstring example writes it)
    lo, hi = sorted((m["p1"], m["p2"]))
    pb = float(oil.pressure_bubblepoint_Standing(m["T"], m["api"], m["gg"], m["rsi"]))
    cands = [[hi, lo]]
    if pb > 60:
        cands.append([1.3 * pb, 0.6 * pb])          # straddling the real bubble point
    problems = []
    for arr in cands:
        if dtype != "f8":
            arr = [float(round(x)) for x in arr]      # whole psi in an integer-typed array (np.arange, a CSV column of whole numbers)
        np_arr = np.array(arr, dtype={"f8": "float64", "i8": "int64"}[dtype])
        if two_d:
            np_arr = np_arr.reshape(1, -1)       # one time step by two cells: the functions are element-wise on any shape
        with np.errstate(all="ignore"):
            rho = np.asarray(oil.density_Standing(m["T"], np_arr, m["api"], m["gg"], m["rsi"]), float).ravel()
            bo_arr = np.asarray(oil.b_o_Standing(m["T"], np_arr, m["api"], m["gg"], m["rsi"]), float).ravel()
        if rho.shape != (len(arr),) or bo_arr.shape != (len(arr),):
            problems.append(f"pressures {np_arr!r}: results of shape {rho.shape} / {bo_arr.shape}")
            continue
        for j, p in enumerate(arr):
            a = (m["T"], float(p), m["api"], m["gg"], m["rsi"])
            want = 62.37 * 141.5 / (131.5 + m["api"]) + 0.0136 * m["gg"] * float(oil.solution_gor_Standing(*a))
            got = float(rho[j]) * float(oil.b_o_Standing(*a))
            if not abs(got - want) <= 1e-9 * abs(want):
                problems.append(f"pressures {np_arr!r}: element {j} (p={p!r}): density*B_o = {got!r} vs stock-tank oil + dissolved gas {want!r}")
            got2 = float(oil.density_Standing(*a)) * float(bo_arr[j])
            if not abs(got2 - want) <= 1e-9 * abs(want):
                problems.append(f"pressures {np_arr!r}: element {j} (p={p!r}): density * (B_o from the array call) = {got2!r} vs stock-tank oil + dissolved gas {want!r}")
    return bool(problems), {"what": "; ".join(problems[:2]) or "array density consistent with scalar R_s, B_o", "inputs": m}


def job_oil_array(job, dtype="f8", two_d=False, int_gor=False):
    """The oil identity for the values a caller gets back from an array call: density_Standing on two pressures listed
    from high to low (a depletion sequence), each element against the library's own scalar R_s and B_o at that pressure."""
    import bluebonnet.fluids.oil as _ro
    from ..shims.np_shim import SymArray, Uninit
    sp = _uf("c_o_Spivey", like=_ro.oil_compressibility_undersat_Spivey)
    oil = load_sym("bluebonnet.fluids.oil", oil_compressibility_undersat_Spivey=sp)
    job.encoded(oil, "density_Standing", "solution_gor_Standing", "b_o_Standing")
    job.stub("oil_compressibility_undersat_Spivey: positive uninterpreted function")
    vs, dom = box(job, _integer=("rsi",) if int_gor else (), T=(80, 350), p1=("14.7", 20000), p2=("14.7", 20000), api=(12, 55), gg=("0.56", "1.3"), rsi=(20, 2500))
    dom = dom + [T.b_lt(P(vs["p1"]), P(vs["p2"]))]
    T_, api, gg, rsi = vs["T"], vs["api"], vs["gg"], vs["rsi"]
    ps = [vs["p2"], vs["p1"]]

    dtag = ("" if dtype == "f8" else ", int64 pressure array") + (", pressures as a 1 x 2 array" if two_d else "") + (", initial GOR a Python int" if int_gor else "")
    rpo = (replay_oil_array, {"dtype": dtype, "two_d": two_d, "int_gor": int_gor})

    def mkarr():
        return SymArray([SymArray(list(ps), dtype)], dtype, (1, 2)) if two_d else SymArray(list(ps), dtype)

    def run():
        rho = oil.density_Standing(T_, mkarr(), api, gg, rsi)
        bo_arr = oil.b_o_Standing(T_, mkarr(), api, gg, rsi)
        if two_d and isinstance(rho, SymArray) and rho.shape == (1, 2) and isinstance(bo_arr, SymArray) and bo_arr.shape == (1, 2):
            rho, bo_arr = rho.d[0], bo_arr.d[0]
        sc = [(oil.solution_gor_Standing(T_, p, api, gg, rsi), oil.b_o_Standing(T_, p, api, gg, rsi), oil.density_Standing(T_, p, api, gg, rsi), bo_arr.d[j])
              for j, p in enumerate(ps)]
        return rho, sc
    res = paths(job, run, dom, max_paths=64)
    ok = 0
    for k, pr in enumerate(res):
        if pr.exc is not None:
            job.prove(f"oil-array{dtag}/raises {type(pr.exc).__name__}[path{k}]", pr.pc, bound="oil box", replay=rpo, note=repr(pr.exc)[:80])
            continue
        rho, sc = pr.value
        if not isinstance(rho, SymArray) or len(rho.d) != 2 or any(isinstance(x, Uninit) for x in rho.d):
            job.prove(f"oil-array{dtag}/result is a full length-2 array[path{k}]", pr.pc, bound="oil box", replay=rpo)
            continue
        ok += 1
        bad = []
        for j in range(2):
            want = K("62.37") * K("141.5") / (K("131.5") + api) + K("0.0136") * gg * sc[j][0]
            bad.append(not_close(rho.d[j] * sc[j][1], want))
            if not isinstance(sc[j][3], Uninit):
                bad.append(not_close(sc[j][2] * sc[j][3], want))      # scalar density x the FVF a caller gets from the array call
        job.prove(f"oil-array{dtag}/density*Bo==stock-tank oil+dissolved gas, pressures listed high to low[path{k}]", pr.pc + [T.b_or(*bad)],
                  bound="oil box, 2 pressures", replay=rpo)
        job.prove(f"oil-array{dtag}/reach[path{k}]", pr.pc, expect="info")
    if not ok:
        job.errors.append("oil-array: no path returns an array")


def job_water(job):
    water = load_sym("bluebonnet.fluids.water")
    job.encoded(water, "density_water_McCain", "b_water_McCain")
    vs, dom = box(job, T=(60, 400), p=("14.7", 20000), S=(0, 25))
    T_, p, S = vs["T"], vs["p"], vs["S"]
    for k, pr in enumerate(paths(job, lambda: (water.density_water_McCain(T_, p, S), water.b_water_McCain(T_, p)), dom)):
        d, b = pr.value
        want = K("62.368") + K("0.438603") * S + K("1.60074e-3") * S**2
        job.prove(f"water/density*Bw==brine density at standard conditions[path{k}]", pr.pc + [not_close(d * b, want)],
                  bound="T 60..400 F, p 14.7..20000 psia, salinity 0..25 wt%", replay=replay_water)
        job.prove(f"water/reach[path{k}]", pr.pc, expect="sat")
        check_defined(job, f"water/path{k}", pr)
    from bluebonnet.fluids import water as rw
    for env in (dict(T=200.0, p=4000.0, S=15.0), dict(T=350.0, p=9000.0, S=3.0)):
        job.validate("density_water_McCain", evalf(d, env), float(rw.density_water_McCain(env["T"], env["p"], env["S"])), inputs=env)


from .c19 import job_facade_gas, replay_facade  # noqa: E402,F401  (replay_facade is looked up in this module by --replay)


from .c19 import job_facade_oil_reassigned, replay_facade  # noqa: E402,F401  (the oil FVF a caller gets from a re-used Fluid object)


def jobs(tier):
    return [("gas-density", job_gas_density), ("gas-compressibility", job_gas_compressibility),
            ("gas-viscosity", job_viscosity), ("oil-density", job_oil), ("water-density", job_water),
            ("gas-through-the-facade", job_facade_gas), ("oil-density-array", job_oil_array), ("oil-density-array-int64", lambda j: job_oil_array(j, "i8")),
            ("oil-through-the-facade-reassigned", job_facade_oil_reassigned), ("oil-density-array-1x2", lambda j: job_oil_array(j, "f8", True)),
            ("oil-density-array-int-gor", lambda j: job_oil_array(j, "f8", False, True))]
