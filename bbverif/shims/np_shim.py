"""Symbolic stand-in for the subset of numpy the repository uses.

`SymArray` is a 1-D / 2-D container of Q / Sym / SymBool elements with a dtype tag and
numpy's rules for the operations the repository performs.  Semantics that matter to the
properties are modelled deliberately (see DESIGN.md 2.3): stores into an integer-dtype array
truncate toward zero, `empty_like`/`full_like` inherit the dtype, `np.empty` yields `UNINIT`
elements that poison whatever reads them, boolean-mask reads/writes split paths per element.
Memory layout (views vs copies, strides) is not modelled except that a row of a 2-D array and a
field of a record array are write-through views, which the repository relies on.
"""
from __future__ import annotations

import math
from fractions import Fraction

from ..sx import terms as T
from ..sx.sym import (Q, QI, is_intlike, Sym, SymBool, Unsupported, as_bool, concrete, ctx, lift, s_exp, s_ite, s_log,
                      s_max, s_min, s_sqrt, simp, Context)

FLOATS = ("f8", "f4")
INTS = ("i8", "i4")


class Uninit:
    """Element of np.empty that was never written."""
    _inst = None

    def __repr__(self):
        return "UNINIT"

    def _bad(self, *a, **k):
        raise UninitRead()
    __add__ = __radd__ = __sub__ = __rsub__ = __mul__ = __rmul__ = __truediv__ = __rtruediv__ = _bad
    __pow__ = __rpow__ = __neg__ = __abs__ = __lt__ = __le__ = __gt__ = __ge__ = __float__ = _bad


class UninitRead(Exception):
    """The code under analysis computed with an uninitialised array element."""


class Inf(Uninit):
    """Result of a floating-point division by an exact zero inside an array (numpy: inf with a warning).
    Reading it in further arithmetic is reported like an uninitialised read unless the consumer
    (interp1d) can prove the element is never selected."""

    def __repr__(self):
        return "INF"


INF = Inf()


UNINIT = Uninit()


def _is_scalar(x):
    return isinstance(x, (int, float, Fraction, Sym, SymBool, bool, Uninit)) or x is None


def _dtype_of_scalar(x):
    if isinstance(x, (bool, SymBool)):
        return "bool"
    if is_intlike(x):
        return "i8"
    return "f8"


def _norm_dtype(dt):
    if dt is None:
        return None
    if isinstance(dt, str):
        m = {"f8": "f8", "float64": "f8", "f4": "f4", "float32": "f4", "i8": "i8", "int64": "i8",
             "i4": "i4", "int32": "i4", "bool": "bool", "float": "f8", "int": "i8", "object": "object",
             "O": "object"}
        if dt in m:
            return m[dt]
        if dt.startswith("U") or dt.startswith("<U"):
            return "str"
        raise Unsupported(f"dtype {dt}")
    if dt is float or getattr(dt, "__name__", "") == "b_float":
        return "f8"
    if dt is int:
        return "i8"
    if dt is bool:
        return "bool"
    if isinstance(dt, DType):
        return dt.tag
    name = getattr(dt, "__name__", None) or getattr(dt, "name", None)
    if name:
        return _norm_dtype(name)
    raise Unsupported(f"dtype {dt!r}")


def _promote(a, b):
    order = ["bool", "i4", "i8", "f4", "f8", "object"]
    if a == b:
        return a
    if a in INTS and b == "f4" or b in INTS and a == "f4":
        return "f8"
    return order[max(order.index(a), order.index(b))]


class DType:
    def __init__(self, tag):
        self.tag = tag
        self.name = {"f8": "float64", "f4": "float32", "i8": "int64", "i4": "int32", "bool": "bool",
                     "object": "object", "str": "str"}.get(tag, tag)
        self.kind = {"f8": "f", "f4": "f", "i8": "i", "i4": "i", "bool": "b"}.get(tag, "O")

    def __eq__(self, o):
        try:
            return _norm_dtype(o) == self.tag
        except Unsupported:
            return False

    def __hash__(self):
        return hash(self.tag)

    def __repr__(self):
        return f"dtype({self.name})"

    def __call__(self, x):
        return x


def _trunc(v):
    """Store into an integer array: truncate toward zero."""
    c = concrete(v)
    if c is not None:
        return Q(math.trunc(c))
    return simp(T.mkUF("trunc", (lift(v).p,)))


class SymArray:
    __array_priority_sx__ = True

    def __init__(self, data, dtype="f8", shape=None):
        # 1-D: self.d is a list of scalars; 2-D: self.d is a list of 1-D SymArray rows
        self.dtype_tag = dtype
        if shape is not None and len(shape) == 2:
            self.d = [r if isinstance(r, SymArray) else SymArray(list(r), dtype) for r in data]
            self._ncols = shape[1]
        else:
            self.d = list(data)
            self._ncols = None

    # ---- basic attributes
    @property
    def ndim(self):
        return 2 if self._ncols is not None else 1

    @property
    def shape(self):
        if self._ncols is not None:
            return (len(self.d), self._ncols)
        return (len(self.d),)

    @property
    def size(self):
        return len(self.d) * (self._ncols if self._ncols is not None else 1)

    @property
    def dtype(self):
        return DType(self.dtype_tag)

    def __len__(self):
        return len(self.d)

    def __iter__(self):
        return iter(self.d)

    def copy(self):
        if self.ndim == 2:
            return SymArray([r.copy() for r in self.d], self.dtype_tag, self.shape)
        return SymArray(list(self.d), self.dtype_tag)

    def astype(self, dt):
        tag = _norm_dtype(dt)
        if self.ndim == 2:
            return SymArray([r.astype(tag) for r in self.d], tag, self.shape)
        if tag in INTS and self.dtype_tag in FLOATS:
            return SymArray([_trunc(v) for v in self.d], tag)
        return SymArray(list(self.d), tag)

    def tolist(self):
        return list(self.d)

    def item(self):
        if self.size != 1:
            raise ValueError("can only convert an array of size 1 to a Python scalar")
        return self.d[0]

    def __repr__(self):
        return f"SymArray({self.d!r}, {self.dtype_tag})"

    @property
    def T(self):
        if self.ndim == 1:
            return self
        rows = [[self.d[i].d[j] for i in range(len(self.d))] for j in range(self._ncols)]
        return SymArray(rows, self.dtype_tag, (self._ncols, len(self.d)))

    # ---- indexing
    # ---- views: a basic slice of a numpy array shares memory with it.  The slice object here holds its own element list;
    #      every write into it (item / slice assignment, in-place operators) is pushed back into the array it was cut from.
    def _view(self, sl):
        r = SymArray(self.d[sl], self.dtype_tag)
        r._base = ("slice", self, list(range(len(self.d)))[sl])
        return r

    def _sync(self):
        b = self.__dict__.get("_base")
        if b is None:
            return
        if b[0] == "slice":
            _, base, idx = b
            for k, j in enumerate(idx):
                base.d[j] = self.d[k]
            base._sync()
        elif b[0] == "flat":
            _, base, ncols = b
            for k, v in enumerate(self.d):
                base.d[k // ncols].d[k % ncols] = v
        else:
            _, rows, c = b
            for k, row in enumerate(rows):
                row.d[c] = self.d[k]
                row._sync()

    def _mask2(self, mask):
        if mask.shape != self.shape:
            raise IndexError("boolean index did not match indexed array")
        return [(r, c) for r, row in enumerate(mask.d) for c, m in enumerate(row.d) if bool(m)]

    def _mask_indices(self, mask):
        if len(mask) != len(self.d):
            raise IndexError("boolean index did not match indexed array")
        idx = []
        for j, m in enumerate(mask.d):
            if bool(m):  # symbolic: splits the path
                idx.append(j)
        return idx

    def __getitem__(self, i):
        if isinstance(i, tuple) and len(i) == 1:
            i = i[0]
        if isinstance(i, tuple):
            if self.ndim != 2 or len(i) != 2:
                raise IndexError("too many indices")
            r, c = i
            if isinstance(r, slice):
                rows = self.d[r]
                if isinstance(c, slice):
                    sub = [row._view(c) for row in rows]
                    return SymArray(sub, self.dtype_tag, (len(sub), len(sub[0].d) if sub else 0))
                col = SymArray([row.d[int(c)] for row in rows], self.dtype_tag)
                col._base = ("column", rows, int(c))
                return col
            row = self.d[int(r)]
            if isinstance(c, slice):
                return row._view(c)
            return row.d[int(c)]
        if isinstance(i, slice):
            if self.ndim == 2:
                rows = self.d[i]
                return SymArray(rows, self.dtype_tag, (len(rows), self._ncols))
            r = self._view(i)
            if i.step is not None and int(i.step) < 0:
                # a negative-stride view: logical order as sliced, memory order the reverse (what np.nditer / ravel(order="K")
                # and anything else that walks memory sees); copies and fresh results are contiguous again
                r._mem = list(range(len(r.d) - 1, -1, -1))
            return r
        if isinstance(i, SymArray):
            if self.ndim == 2:
                if i.dtype_tag == "bool" and i.ndim == 2:
                    # a 2-D mask selects elements in row-major order (1-D result); every undecided element splits the path
                    return SymArray([self.d[r].d[c] for r, c in self._mask2(i)], self.dtype_tag)
                if i.ndim == 1 and i.dtype_tag == "bool":
                    rows = [self.d[j] for j in SymArray(list(range(len(self.d))), "i8")._mask_indices(i)]
                    return SymArray([SymArray(list(r.d), self.dtype_tag) for r in rows], self.dtype_tag, (len(rows), self._ncols))
                if i.ndim == 1:
                    # an integer index array on a 2-D array selects whole ROWS
                    rows = [self.d[int(j)] for j in i.d]
                    return SymArray([SymArray(list(r.d), self.dtype_tag) for r in rows], self.dtype_tag, (len(rows), self._ncols))
                raise Unsupported("2-D fancy indexing")
            if i.dtype_tag == "bool":
                idx = self._mask_indices(i)
                return SymArray([self.d[j] for j in idx], self.dtype_tag)
            return SymArray([self.d[int(j)] for j in i.d], self.dtype_tag)
        if isinstance(i, list):
            return SymArray([self.d[int(j)] for j in i], self.dtype_tag)
        if isinstance(i, str):
            raise IndexError("only integers, slices (`:`), ellipsis (`...`) ... are valid indices")
        return self.d[int(i)]

    def _coerce(self, v):
        if isinstance(v, Uninit):
            return v
        if type(v).__name__ == "ZeroD":
            v = v.v                  # a 0-d array stored into an element: its value
        if self.dtype_tag in INTS:
            if isinstance(v, (SymBool, bool)):
                return lift(v) if isinstance(v, SymBool) else Q(int(v))
            return _trunc(v)
        if self.dtype_tag == "bool":
            return v
        if isinstance(v, (int, float)) and not isinstance(v, bool):
            return concrete(v)
        if isinstance(v, SymBool):
            return simp(lift(v).p)
        return v

    def __setitem__(self, i, v):
        self._setitem_impl(i, v)
        if self.ndim == 2:
            for row in self.d:
                row._sync()
        self._sync()

    def _setitem_impl(self, i, v):
        if isinstance(i, tuple) and len(i) == 1:
            i = i[0]
        if isinstance(i, tuple):
            r, c = i
            if isinstance(r, slice):
                rows = self.d[r]
                for k, row in enumerate(rows):
                    row[c] = v[k] if isinstance(v, SymArray) and v.ndim == 1 and not isinstance(c, slice) else v
                return
            self.d[int(r)][c] = v
            return
        if self.ndim == 2 and isinstance(i, SymArray):
            if i.dtype_tag == "bool" and i.ndim == 2:
                cells = self._mask2(i)
                vals = list(v._flat()) if isinstance(v, SymArray) else None
                if vals is not None and len(vals) == 1:
                    vals = vals * len(cells)
                if vals is not None and len(vals) != len(cells):
                    raise ValueError(f"NumPy boolean array indexing assignment cannot assign {len(vals)} input values to the {len(cells)} output values where the mask is true")
                for n_, (r, c) in enumerate(cells):
                    self.d[r].d[c] = self.d[r]._coerce(vals[n_] if vals is not None else v)
                return
            if i.ndim == 1:
                rows = [int(j) for j in i.d] if i.dtype_tag != "bool" else SymArray(list(range(len(self.d))), "i8")._mask_indices(i)
                if isinstance(v, SymArray) and v.ndim == 2:
                    if len(v.d) != len(rows):
                        raise ValueError(f"shape mismatch: value array of shape {v.shape} could not be broadcast to indexing result of shape ({len(rows)}, {self._ncols})")
                    for r, src in zip(rows, v.d):
                        self.d[r][:] = src
                else:
                    for r in rows:
                        self.d[r][:] = v
                return
            raise Unsupported("2-D fancy assignment")
        if self.ndim == 2:
            if isinstance(i, slice):
                rows = self.d[i]
                if isinstance(v, SymArray) and v.ndim == 2:
                    if len(v.d) != len(rows):
                        if len(v.d) == 1:
                            for row in rows:
                                row[:] = v.d[0]
                            return
                        raise ValueError(f"could not broadcast input array from shape {v.shape} into shape ({len(rows)}, {self._ncols})")
                    for row, src in zip(rows, v.d):
                        row[:] = src
                    return
                for row in rows:
                    row[:] = v
                return
            self.d[int(i)][:] = v
            return
        if isinstance(i, slice):
            idx = list(range(*i.indices(len(self.d))))
            self._assign(idx, v)
            return
        if isinstance(i, SymArray):
            if i.dtype_tag == "bool":
                if _is_scalar(v) and not isinstance(v, Uninit) and len(i.d) == len(self.d) and \
                        not any(isinstance(x, Uninit) for x in self.d):
                    # masked store of one scalar: element-wise selection, no path split
                    cv = self._coerce(v)
                    for j, m in enumerate(i.d):
                        if isinstance(m, bool):
                            if m:
                                self.d[j] = cv
                        else:
                            self.d[j] = s_ite(m, cv, self.d[j])
                    return
                idx = self._mask_indices(i)
            else:
                idx = [int(j) for j in i.d]
            self._assign(idx, v)
            return
        if isinstance(v, SymArray):
            if v.size == 1:
                v = v.d[0]
            else:
                raise ValueError("setting an array element with a sequence.")
        self.d[int(i)] = self._coerce(v)

    def _assign(self, idx, v):
        if isinstance(v, (SymArray, list, tuple)):
            vals = v.d if isinstance(v, SymArray) else list(v)
            if len(vals) == 1 and len(idx) != 1:
                vals = vals * len(idx)
            if len(vals) != len(idx):
                raise ValueError(
                    f"NumPy boolean array indexing assignment cannot assign {len(vals)} input values to "
                    f"the {len(idx)} output values")
            for j, x in zip(idx, vals):
                self.d[j] = self._coerce(x)
        else:
            for j in idx:
                self.d[j] = self._coerce(v)

    # ---- arithmetic
    def _map(self, f, dtype=None):
        dt = dtype or self.dtype_tag
        if self.ndim == 2:
            return SymArray([r._map(f, dt) for r in self.d], dt, self.shape)
        return SymArray([f(x) for x in self.d], dt)

    def _bin(self, o, f, dtype=None, reflected=False):
        if isinstance(o, (list, tuple)):
            o = asarray(o)
        if isinstance(o, SymArray):
            dt = dtype or _promote(self.dtype_tag, o.dtype_tag)
            if self.ndim == 2 and o.ndim == 2:
                if self.shape != o.shape:
                    (r1, c1), (r2, c2) = self.shape, o.shape
                    if r1 == r2 and c2 == 1:        # (n, m) with (n, 1): each row against its own scalar
                        return SymArray([a._bin(b.d[0], f, dt) for a, b in zip(self.d, o.d)], dt, self.shape)
                    if r1 == r2 and c1 == 1:
                        return SymArray([SymArray([f(a.d[0], x) for x in b.d], dt) for a, b in zip(self.d, o.d)], dt, o.shape)
                    if c1 == c2 and r2 == 1:
                        return SymArray([a._bin(o.d[0], f, dt) for a in self.d], dt, self.shape)
                    if c1 == c2 and r1 == 1:
                        return SymArray([self.d[0]._bin(b, f, dt) for b in o.d], dt, o.shape)
                    raise ValueError(f"operands could not be broadcast together with shapes {self.shape} {o.shape}")
                return SymArray([a._bin(b, f, dt) for a, b in zip(self.d, o.d)], dt, self.shape)
            if self.ndim == 2:
                return SymArray([a._bin(o, f, dt) for a in self.d], dt, self.shape)
            if o.ndim == 2:
                return SymArray([self._bin(b, f, dt) for b in o.d], dt, o.shape)
            if len(self.d) == len(o.d):
                return SymArray([f(a, b) for a, b in zip(self.d, o.d)], dt)
            if len(o.d) == 1:
                return SymArray([f(a, o.d[0]) for a in self.d], dt)
            if len(self.d) == 1:
                return SymArray([f(self.d[0], b) for b in o.d], dt)
            raise ValueError(
                f"operands could not be broadcast together with shapes {self.shape} {o.shape}")
        if not _is_scalar(o):
            return NotImplemented
        dt = dtype
        if dt is None:
            dt = self.dtype_tag
            if dt in INTS or dt == "bool":
                c = concrete(o)
                if isinstance(o, (bool, SymBool)):
                    pass
                elif not is_intlike(o):
                    dt = "f8"
                elif dt == "bool":
                    dt = "i8"
        return self._map(lambda a: f(a, o), dt)

    def _int_guard(self, r):
        """Integer-dtype arithmetic wraps around silently in numpy.  The model computes over the reals, so every
        symbolic element of an integer-dtype result records the condition under which the two agree (a definedness
        condition, why-prefix 'integer overflow'); harnesses that quantify over integer arrays prove it on their box."""
        if isinstance(r, SymArray) and r.dtype_tag in INTS:
            lim = Q(2 ** (31 if r.dtype_tag == "i4" else 63) - 1)
            c = None
            for v in r._flat():
                if isinstance(v, Sym):
                    c = c or ctx()
                    c.require((lift(v) <= lim).node, f"integer overflow: {DType(r.dtype_tag).name} result {v!r} <= {lim}")
                    c.require((lift(v) >= -lim - 1).node, f"integer overflow: {DType(r.dtype_tag).name} result {v!r} >= -{lim}-1")
        return r

    def __add__(self, o): return self._int_guard(self._bin(o, lambda a, b: a + b))
    def __radd__(self, o): return self._int_guard(self._bin(o, lambda a, b: b + a))
    def __sub__(self, o): return self._int_guard(self._bin(o, lambda a, b: a - b))
    def __rsub__(self, o): return self._int_guard(self._bin(o, lambda a, b: b - a))
    def __mul__(self, o): return self._int_guard(self._bin(o, lambda a, b: a * b))
    def __rmul__(self, o): return self._int_guard(self._bin(o, lambda a, b: b * a))

    def _fdt(self, o):
        dt = self.dtype_tag
        if isinstance(o, SymArray):
            dt = _promote(dt, o.dtype_tag)
        return dt if dt in FLOATS else "f8"

    def __truediv__(self, o): return self._bin(o, lambda a, b: _div0(a, b), self._fdt(o))
    def __rtruediv__(self, o): return self._bin(o, lambda a, b: _div0(b, a), self._fdt(o))

    # ---- in-place operators: numpy writes into the *same* buffer (every alias of the array sees the result) and
    # refuses results that cannot be cast back under the `same_kind` rule (int array <- float result)
    def _inplace(self, r, opname):
        if not isinstance(r, SymArray):
            return NotImplemented
        if r.shape != self.shape:
            raise ValueError(f"non-broadcastable output operand with shape {self.shape} doesn't match the broadcast shape {r.shape}")
        order = {"bool": 0, "i4": 1, "i8": 1, "f4": 2, "f8": 2, "object": 3}
        if order.get(r.dtype_tag, 3) > order.get(self.dtype_tag, 3):
            raise TypeError(f"Cannot cast ufunc '{opname}' output from dtype('{DType(r.dtype_tag).name}') to "
                            f"dtype('{DType(self.dtype_tag).name}') with casting rule 'same_kind'")
        if self.ndim == 2:
            for ro, rr in zip(self.d, r.d):
                ro.d[:] = [ro._coerce(v) for v in rr.d]
                ro._sync()
        else:
            self.d[:] = [self._coerce(v) for v in r.d]
        self._sync()
        return self

    def cumsum(self, axis=None, dtype=None, skipna=True):
        if self.ndim != 1:
            raise Unsupported("cumsum of a 2-D array")
        if any(getattr(v, "__sx_nan__", False) for v in self.d):
            raise Unsupported("cumsum over missing values (numpy propagates them, pandas skips them)")
        out, acc = [], Q(0)
        for v in self.d:
            acc = acc + v
            out.append(acc)
        r = SymArray(out, self.dtype_tag)
        return self._wrap(r) if hasattr(self, "_wrap") else r

    def __iadd__(self, o): return self._inplace(self + o, "add")
    def __isub__(self, o): return self._inplace(self - o, "subtract")
    def __imul__(self, o): return self._inplace(self * o, "multiply")
    def __itruediv__(self, o): return self._inplace(self / o, "divide")
    def __ipow__(self, o): return self._inplace(self ** o, "power")

    def __pow__(self, o):
        c = concrete(o) if _is_scalar(o) else None
        if c is not None and c.denominator == 1 and c >= 0:
            return self._int_guard(self._bin(o, lambda a, b: a ** b, self.dtype_tag))
        if c is not None and c.denominator == 1 and self.dtype_tag in INTS:
            raise ValueError("Integers to negative integer powers are not allowed.")
        return self._bin(o, lambda a, b: _spow(a, b), self._fdt(o))

    def __rpow__(self, o): return self._bin(o, lambda a, b: _spow(b, a), self._fdt(o))
    def __neg__(self): return self._map(lambda a: -a)
    def __abs__(self): return self._map(abs)
    def __pos__(self): return self

    def __lt__(self, o): return self._bin(o, lambda a, b: _cmp(a, b, "lt"), "bool")
    def __le__(self, o): return self._bin(o, lambda a, b: _cmp(a, b, "le"), "bool")
    def __gt__(self, o): return self._bin(o, lambda a, b: _cmp(a, b, "gt"), "bool")
    def __ge__(self, o): return self._bin(o, lambda a, b: _cmp(a, b, "ge"), "bool")
    def __eq__(self, o): return self._bin(o, lambda a, b: _cmp(a, b, "eq"), "bool")
    def __ne__(self, o): return self._bin(o, lambda a, b: _cmp(a, b, "ne"), "bool")
    __hash__ = None

    def __and__(self, o): return self._bin(o, lambda a, b: _band(a, b), "bool")
    __rand__ = __and__
    def __or__(self, o): return self._bin(o, lambda a, b: _bor(a, b), "bool")
    __ror__ = __or__
    def __invert__(self): return self._map(lambda a: _bnot(a), "bool")

    def __matmul__(self, o):
        if isinstance(o, (list, tuple)):
            o = asarray(o)
        if self.ndim == 1 and o.ndim == 1:
            if len(self.d) != len(o.d):
                raise ValueError("matmul: dimension mismatch")
            return _sum([a * b for a, b in zip(self.d, o.d)])
        if self.ndim == 2 and o.ndim == 1:
            return SymArray([r @ o for r in self.d], _promote(self.dtype_tag, o.dtype_tag))
        raise Unsupported("matmul shapes")

    def __bool__(self):
        if self.size == 1:
            v = self.d[0] if self.ndim == 1 else self.d[0].d[0]
            return bool(v)
        raise ValueError("The truth value of an array with more than one element is ambiguous.")

    # ---- reductions
    def sum(self, axis=None):
        if self.ndim == 2:
            if axis is None:
                return _sum([x for r in self.d for x in r.d])
            if axis in (1, -1):
                return SymArray([_sum(r.d) for r in self.d], self.dtype_tag)
            if axis == 0:
                return SymArray([_sum([r.d[j] for r in self.d]) for j in range(self._ncols)], self.dtype_tag)
        return _sum(self.d)

    def max(self):
        return _reduce(self._flat(), s_max)

    def min(self):
        return _reduce(self._flat(), s_min)

    def __getattr__(self, name):
        if not name.startswith("_"):
            import numpy
            if hasattr(numpy.ndarray, name):
                raise Unsupported(f"ndarray.{name} is not modelled")
        raise AttributeError(name)

    def _arg(self, op):
        """Index of the first extreme element; every comparison that the path condition does not settle splits the path."""
        if self.ndim != 1:
            raise Unsupported("argmin/argmax of a 2-D symbolic array")
        if not self.d:
            raise ValueError("attempt to get argmin/argmax of an empty sequence")
        best = 0
        for j in range(1, len(self.d)):
            if bool(_cmp(self.d[j], self.d[best], op)):
                best = j
        return QI(best)

    @property
    def iloc(self):
        """A column of a default-index frame is handed out as the array itself: positional access is plain indexing."""
        return self

    def reshape(self, *shape):
        if len(shape) == 1 and isinstance(shape[0], (tuple, list)):
            shape = tuple(shape[0])
        shape = tuple(int(v) for v in shape)
        if self.ndim == 1 and shape in ((len(self.d),), (-1,)):
            return SymArray(list(self.d), self.dtype_tag)
        if self.ndim == 1 and shape == () and len(self.d) == 1:
            return self.d[0]
        raise Unsupported(f"ndarray.reshape{shape}")

    def squeeze(self, axis=None):
        """Drop every axis of length one (a length-1 array becomes 0-d, i.e. a scalar to every later use)."""
        if self.ndim == 1:
            return self.d[0] if len(self.d) == 1 else self
        rows, cols = self.shape
        if rows == 1 and cols == 1:
            return self.d[0].d[0]
        if rows == 1:
            return SymArray(list(self.d[0].d), self.dtype_tag)
        if cols == 1:
            return SymArray([r.d[0] for r in self.d], self.dtype_tag)
        return self

    def argmin(self, axis=None):
        return self._arg("lt")

    def argmax(self, axis=None):
        return self._arg("gt")

    def _flat(self):
        if self.ndim == 2:
            return [x for r in self.d for x in r.d]
        return list(self.d)

    def any(self):
        return _any(self._flat())

    def all(self):
        return _all(self._flat())

    def flatten(self):
        return SymArray(self._flat(), self.dtype_tag)

    def ravel(self, order="C"):
        """A flat VIEW when the array is C-contiguous (writes through it land in the array), a copy otherwise - a negative-stride
        view, or a 2-D array in Fortran order (`_order == "F"`: a transposed array, np.asfortranarray, and what the *_like
        constructors make from one)."""
        if self.ndim == 1:
            if self.__dict__.get("_mem") is None:
                return self
            return SymArray(list(self.d), self.dtype_tag)
        flat = SymArray(self._flat(), self.dtype_tag)
        if self.__dict__.get("_order", "C") == "C":
            flat._base = ("flat", self, self._ncols)
        return flat

    @property
    def T(self):
        if self.ndim == 1:
            return self
        rows, cols = self.shape
        t = SymArray([SymArray([self.d[r].d[c] for r in range(rows)], self.dtype_tag) for c in range(cols)], self.dtype_tag, (cols, rows))
        t._order = "F" if self.__dict__.get("_order", "C") == "C" else "C"     # same memory, other index order (writes through it are not modelled)
        return t

    def transpose(self, *axes):
        return self.T

    # pandas Series methods (a DataFrame column read returns the column array)
    def isna(self):
        return self._map(lambda v: bool(getattr(v, "__sx_nan__", False)), "bool")

    isnull = isna

    def notna(self):
        return self._map(lambda v: not getattr(v, "__sx_nan__", False), "bool")

    notnull = notna

    def to_numpy(self, dtype=None, copy=False):
        return self.copy()

    @property
    def values(self):
        return self

    ravel = flatten


def _div0(a, b):
    try:
        return a / b
    except ZeroDivisionError:
        return INF


def _spow(a, b):
    from ..sx.sym import _pow
    return _pow(a, b)


def _cmp(a, b, op):
    if isinstance(a, Uninit) or isinstance(b, Uninit):
        raise UninitRead()
    if getattr(a, "__sx_nan__", False) or getattr(b, "__sx_nan__", False):
        return op == "ne"            # IEEE: every ordered comparison with NaN is false
    ca, cb = concrete(a) if not isinstance(a, (bool, SymBool)) else None, \
        concrete(b) if not isinstance(b, (bool, SymBool)) else None
    if isinstance(a, float) and math.isinf(a) or isinstance(b, float) and math.isinf(b):
        fa = float(ca) if ca is not None else a
        fb = float(cb) if cb is not None else b
        if isinstance(fa, Sym) or isinstance(fb, Sym):
            # a finite symbolic value against an infinity
            if isinstance(fb, float):
                return {"lt": fb > 0, "le": fb > 0, "gt": fb < 0, "ge": fb < 0, "eq": False, "ne": True}[op]
            return {"lt": fa < 0, "le": fa < 0, "gt": fa > 0, "ge": fa > 0, "eq": False, "ne": True}[op]
        return {"lt": fa < fb, "le": fa <= fb, "gt": fa > fb, "ge": fa >= fb, "eq": fa == fb, "ne": fa != fb}[op]
    if ca is not None and cb is not None:
        return {"lt": ca < cb, "le": ca <= cb, "gt": ca > cb, "ge": ca >= cb, "eq": ca == cb, "ne": ca != cb}[op]
    A, B = lift(a).p, lift(b).p
    return SymBool({"lt": T.b_lt, "le": T.b_le, "gt": T.b_gt, "ge": T.b_ge, "eq": T.b_eq, "ne": T.b_ne}[op](A, B))


def _band(a, b):
    if isinstance(a, bool) and isinstance(b, bool):
        return a and b
    return SymBool(T.b_and(as_bool(a), as_bool(b)))


def _bor(a, b):
    if isinstance(a, bool) and isinstance(b, bool):
        return a or b
    return SymBool(T.b_or(as_bool(a), as_bool(b)))


def _bnot(a):
    if isinstance(a, bool):
        return not a
    return SymBool(T.b_not(as_bool(a)))


def _sum(xs):
    r = Q(0)
    for x in xs:
        if isinstance(x, (SymBool, bool)):
            x = lift(x) if isinstance(x, SymBool) else int(x)
        r = r + x
    return r


def _reduce(xs, f):
    if not xs:
        raise ValueError("zero-size array to reduction operation which has no identity")
    r = xs[0]
    for x in xs[1:]:
        r = f(r, x)
    return r


def _any(xs):
    out = []
    for x in xs:
        if isinstance(x, SymBool):
            out.append(x.node)
        elif isinstance(x, bool):
            if x:
                return True
        else:
            out.append((lift(x) != 0).node if not isinstance(concrete(x), Q) else T.b_const(concrete(x) != 0))
    if not out:
        return False
    r = T.b_or(*out)
    return r.args[0] if r.kind == "const" else SymBool(r)


def _all(xs):
    out = []
    for x in xs:
        if isinstance(x, SymBool):
            out.append(x.node)
        elif isinstance(x, bool):
            if not x:
                return False
        else:
            out.append(T.b_const(concrete(x) != 0) if concrete(x) is not None else (lift(x) != 0).node)
    if not out:
        return True
    r = T.b_and(*out)
    return r.args[0] if r.kind == "const" else SymBool(r)


# --------------------------------------------------------------------------- record arrays

class SymRec:
    """Structured array: named columns (write-through), iteration yields row tuples."""
    __array_priority_sx__ = True

    def __init__(self, cols: dict):
        self.cols = cols

    @property
    def dtype(self):
        class _D:
            names = tuple(self.cols)
        return _D()

    def __len__(self):
        return len(next(iter(self.cols.values()))) if self.cols else 0

    def __getitem__(self, k):
        if isinstance(k, str):
            return self.cols[k]
        if isinstance(k, int) or hasattr(k, "__index__"):
            return tuple(c.d[int(k)] for c in self.cols.values())
        raise Unsupported("record indexing")

    def __setitem__(self, k, v):
        if isinstance(k, str):
            self.cols[k][:] = v
        else:
            raise Unsupported("record assignment")

    def __iter__(self):
        for i in range(len(self)):
            yield tuple(c.d[i] for c in self.cols.values())

    @property
    def shape(self):
        return (len(self),)

    ndim = 1


# --------------------------------------------------------------------------- the namespace

class ZeroD:
    """np.asarray(scalar): a 0-d array.  It can be indexed with (), ... or a 0-d boolean (`a[a < b]` has 0 or 1 elements),
    assigned through the same keys (values are coerced to its dtype: an integer 0-d array truncates), and otherwise reads
    like its value (arithmetic and comparisons give scalars, as numpy returns numpy scalars for 0-d operands)."""
    ndim = 0
    shape = ()
    size = 1
    __array_priority_sx__ = True

    def __init__(self, v, dtype_tag):
        self.dtype_tag = dtype_tag
        self.v = SymArray([], dtype_tag)._coerce(v)

    @property
    def dtype(self):
        return DType(self.dtype_tag)

    def __sx_scalar__(self):
        return self.v

    def _key(self, k):
        if k == () or k is Ellipsis:
            return True
        if isinstance(k, ZeroD):
            k = k.v
        if isinstance(k, (bool, SymBool)):
            return bool(k)            # a symbolic mask splits the path
        raise IndexError("too many indices for array: array is 0-dimensional")

    def __getitem__(self, k):
        if k == ():
            return self.v
        if k is Ellipsis:
            return self
        return SymArray([self.v] if self._key(k) else [], self.dtype_tag)

    def __setitem__(self, k, val):
        if not self._key(k):
            return
        if isinstance(val, SymArray):
            if val.size != 1:
                raise ValueError(f"NumPy boolean array indexing assignment cannot assign {val.size} input values to the 1 output values where the mask is true")
            val = list(val._flat())[0]
        if isinstance(val, ZeroD):
            val = val.v
        self.v = SymArray([], self.dtype_tag)._coerce(val)

    def item(self):
        return self.v

    def copy(self):
        return ZeroD(self.v, self.dtype_tag)

    def astype(self, dt):
        return ZeroD(self.v, _norm_dtype(dt))

    def __len__(self):
        raise TypeError("len() of unsized object")

    def __iter__(self):
        raise TypeError("iteration over a 0-d array")

    def __bool__(self):
        return bool(self.v)

    def __float__(self):
        return float(self.v)

    def __repr__(self):
        return f"ZeroD({self.v!r}, {self.dtype_tag})"


def _zd(x):
    return x.v if isinstance(x, ZeroD) else x


def _zd_bin(name):
    def f(self, o):
        if isinstance(o, SymArray):
            # 0-d with n-d: broadcast the value
            return getattr(o, {"__add__": "__radd__", "__radd__": "__add__", "__sub__": "__rsub__", "__rsub__": "__sub__", "__mul__": "__rmul__", "__rmul__": "__mul__",
                               "__truediv__": "__rtruediv__", "__rtruediv__": "__truediv__", "__pow__": "__rpow__", "__rpow__": "__pow__"}[name])(self.v)
        return getattr(lift(self.v) if not isinstance(self.v, (bool, SymBool)) else self.v, name)(_zd(o))
    f.__name__ = name
    return f


for _n in ("__add__", "__radd__", "__sub__", "__rsub__", "__mul__", "__rmul__", "__truediv__", "__rtruediv__", "__pow__", "__rpow__", "__neg__", "__abs__"):
    if _n in ("__neg__", "__abs__"):
        setattr(ZeroD, _n, (lambda nm: lambda self: getattr(lift(self.v), nm)())(_n))
    else:
        setattr(ZeroD, _n, _zd_bin(_n))
for _n, _op in (("__lt__", "lt"), ("__le__", "le"), ("__gt__", "gt"), ("__ge__", "ge"), ("__eq__", "eq"), ("__ne__", "ne")):
    setattr(ZeroD, _n, (lambda op: lambda self, o: NotImplemented if isinstance(o, SymArray) else _cmp(self.v, _zd(o), op))(_op))
ZeroD.__hash__ = None


def _zd_iop(name):
    def f(self, o):
        # in place, as numpy does for a 0-d array: every alias of the object (the owner's attribute included) sees the result
        self.v = SymArray([], self.dtype_tag)._coerce(getattr(lift(self.v), name)(_zd(o)))
        return self
    return f


for _n, _m in (("__iadd__", "__add__"), ("__isub__", "__sub__"), ("__imul__", "__mul__"), ("__itruediv__", "__truediv__"), ("__ipow__", "__pow__")):
    setattr(ZeroD, _n, _zd_iop(_m))


def asarray(x, dtype=None):
    if isinstance(x, ZeroD):
        x = x.v                       # inside the model a 0-d array is its value (numpy functions return scalars for it)
    tag = _norm_dtype(dtype) if dtype is not None and not isinstance(dtype, list) else None
    if hasattr(x, "__sx_plain__"):
        x = x.__sx_plain__()          # np.asarray(series): the values, positional, same buffer
    if isinstance(x, SymArray):
        return x.astype(tag) if tag and tag != x.dtype_tag else x
    if hasattr(x, "__sx_array__"):
        return asarray(x.__sx_array__(), dtype)
    if isinstance(x, (list, tuple)) or hasattr(x, "__iter__") and not _is_scalar(x):
        items = list(x)
        if items and all(isinstance(r, (SymArray, list, tuple)) for r in items):
            rows = [asarray(r) for r in items]
            n = {len(r.d) for r in rows}
            if len(n) > 1:
                raise ValueError("setting an array element with a sequence. The requested array has an "
                                 "inhomogeneous shape")
            dt = tag or _reduce([r.dtype_tag for r in rows], _promote)
            return SymArray([SymArray(list(r.d), dt) for r in rows], dt, (len(rows), n.pop()))
        for it in items:
            if isinstance(it, SymArray) and it.size != 1:
                raise ValueError("inhomogeneous shape")
        items = [it.d[0] if isinstance(it, SymArray) else it for it in items]
        if tag is None:
            tag = _reduce([_dtype_of_scalar(i) for i in items], _promote) if items else "f8"
        a = SymArray([], tag)
        a.d = [a._coerce(i) for i in items]
        return a
    if _is_scalar(x):
        return x
    raise Unsupported(f"asarray({type(x).__name__})")


class _UFunc2:
    """A binary ufunc of the numpy namespace: callable element-wise, with .accumulate / .reduce over a 1-D array."""

    def __init__(self, name, f):
        self.name, self.f = name, f

    def __get__(self, obj, cls=None):
        return self if obj is None else _BoundUFunc2(obj, self)


class _BoundUFunc2:
    def __init__(self, ns, uf):
        self.ns, self.uf = ns, uf
        self.__name__ = uf.name

    def __call__(self, a, b, out=None, **kw):
        if kw:
            raise Unsupported(f"np.{self.uf.name} with {sorted(kw)}")
        return _into(out, self.ns._ew2(a, b, self.uf.f))

    def _flat(self, a, axis):
        a = asarray(a)
        if not isinstance(a, SymArray) or a.ndim != 1 or axis not in (0, -1, None):
            raise Unsupported(f"np.{self.uf.name}.accumulate / reduce on other than a 1-d array")
        return a

    def accumulate(self, a, axis=0, dtype=None, out=None):
        a = self._flat(a, axis)
        acc, cur = [], None
        for x in a.d:
            cur = _chk(x) if cur is None else self.uf.f(cur, _chk(x))
            acc.append(cur)
        return _into(out, SymArray(acc, a.dtype_tag))

    def reduce(self, a, axis=0, dtype=None, out=None, **kw):
        a = self._flat(a, axis)
        if not a.d:
            raise ValueError(f"zero-size array to reduction operation {self.uf.name} which has no identity")
        cur = _chk(a.d[0])
        for x in a.d[1:]:
            cur = self.uf.f(cur, _chk(x))
        return cur


def _retag(a, tag):
    a.dtype_tag = tag
    if a.ndim == 2:
        for row in a.d:
            row.dtype_tag = tag
    return a


def _into(out, r):
    """numpy's `out=` argument: store the result into the given array (write-through) and return it."""
    if out is None:
        return r
    if not isinstance(out, SymArray) or not isinstance(r, SymArray) or out.shape != r.shape:
        raise Unsupported("out= with mismatching shapes")
    if out.ndim == 2:
        for ro, rr in zip(out.d, r.d):
            ro.d[:] = [ro._coerce(v) for v in rr.d]
    else:
        out.d[:] = [out._coerce(v) for v in r.d]
    return out


def _unary(f):
    def g(x, dtype=None, out=None, **kw):
        if out is not None:
            return _into(out, g(x, dtype=dtype, **kw))
        if isinstance(x, (list, tuple)):
            x = asarray(x)
        if isinstance(x, SymArray):
            dt = x.dtype_tag if x.dtype_tag in FLOATS else "f8"
            return x._map(f, dt)
        if hasattr(x, "__sx_array__"):
            return g(x.__sx_array__())
        return f(x)
    return g


def _chk(x):
    if isinstance(x, Uninit):
        raise UninitRead()
    return x


class NP:
    """Module-like object bound to the name `np` in symbolically loaded modules."""
    ndarray = SymArray
    float64 = DType("f8")
    float32 = DType("f4")
    int64 = DType("i8")
    int32 = DType("i4")
    bool_ = DType("bool")
    inf = math.inf
    nan = math.nan
    pi = Q(Fraction(repr(math.pi)))
    newaxis = None

    def __init__(self):
        self.exp = _unary(lambda v: s_exp(_chk(v)))
        self.log = _unary(lambda v: s_log(_chk(v)))
        self.sqrt = _unary(lambda v: s_sqrt(_chk(v)))
        self.abs = _unary(lambda v: abs(_chk(v)))
        self.fabs = self.abs
        self.absolute = self.abs
        self.square = _unary(lambda v: v * v)

    # creation
    def array(self, x, dtype=None, copy=True):
        if isinstance(dtype, list):  # structured dtype
            names = [n for n, _ in dtype]
            rows = [tuple(r) for r in x]
            cols = {}
            for k, n in enumerate(names):
                t = _norm_dtype(dtype[k][1])
                col = [r[k] for r in rows]
                if t == "str":
                    a = SymArray([], "object")
                    a.d = col
                else:
                    a = asarray(col, t) if col else SymArray([], t)
                cols[n] = a
            return SymRec(cols)
        if isinstance(x, ZeroD):
            return ZeroD(x.v, _norm_dtype(dtype) or x.dtype_tag)
        a = asarray(x, dtype)
        if isinstance(a, SymArray) and a is x:
            a = a.copy()
        if _is_scalar(a) and a is not None and not isinstance(a, Uninit):
            return ZeroD(a, (_norm_dtype(dtype) if dtype is not None and not isinstance(dtype, list) else None) or _dtype_of_scalar(a))
        return a

    def asarray(self, x, dtype=None):
        if isinstance(x, ZeroD):
            return x if dtype is None or _norm_dtype(dtype) == x.dtype_tag else ZeroD(x.v, _norm_dtype(dtype))
        a = asarray(x, dtype)
        if _is_scalar(a) and a is not None and not isinstance(a, Uninit):
            # what the analysed code gets from np.asarray(scalar) is a 0-d array (indexable with a 0-d mask, assignable)
            return ZeroD(a, (_norm_dtype(dtype) if dtype is not None and not isinstance(dtype, list) else None) or _dtype_of_scalar(a))
        return a

    def zeros(self, shape, dtype=None):
        return self.full(shape, Q(0), dtype)

    def ones(self, shape, dtype=None):
        return self.full(shape, Q(1), dtype)

    def empty(self, shape, dtype=None):
        return self.full(shape, UNINIT, dtype)

    def full(self, shape, v, dtype=None):
        # numpy takes the dtype of the fill value when none is given: np.full(n, 0) is an int64 array
        tag = _norm_dtype(dtype) or (v.dtype_tag if isinstance(v, (SymArray, ZeroD)) else "f8" if isinstance(v, Uninit) else _dtype_of_scalar(v))
        if isinstance(shape, tuple):
            if len(shape) == 1:
                shape = shape[0]
            else:
                r, c = int(shape[0]), int(shape[1])
                if isinstance(dtype, list):
                    raise Unsupported("structured 2-D arrays")
                return SymArray([SymArray([v] * c, tag) for _ in range(r)], tag, (r, c))
        n = int(shape)
        if isinstance(v, SymArray):
            if len(v.d) == n:
                return SymArray(list(v.d), tag)
            if len(v.d) == 1:
                return SymArray([v.d[0]] * n, tag)
            raise ValueError(f"could not broadcast input array from shape {v.shape} into shape ({n},)")
        a = SymArray([], tag)
        a.d = [a._coerce(v)] * n
        return a

    def _like(self, a, v, dtype, shape=None, order=None, subok=None):
        tag = _norm_dtype(dtype) or (a.dtype_tag if isinstance(a, (SymArray, ZeroD)) else _dtype_of_scalar(a))
        if shape is not None:
            # numpy >= 1.17: the dtype of `a`, another shape
            if hasattr(a, "__sx_array__"):
                a = a.__sx_array__()
            if not isinstance(a, SymArray) and isinstance(a, (list, tuple)):
                tag = _norm_dtype(dtype) or asarray(a).dtype_tag
            return self.full(shape, v, tag)
        if isinstance(a, ZeroD):
            return ZeroD(v, _norm_dtype(dtype) or a.dtype_tag)
        if not isinstance(a, SymArray):
            if hasattr(a, "__sx_array__"):
                return self._like(a.__sx_array__(), v, dtype)
            if isinstance(a, (list, tuple)):
                return self._like(asarray(a), v, dtype)
            t = SymArray([], tag)
            return t._coerce(v)
        r = self.full(a.shape, v, tag)
        if a.ndim == 2 and a.__dict__.get("_order", "C") == "F":
            r._order = "F"              # order="K": the layout of the template
        return r

    def empty_like(self, a, dtype=None, order=None, subok=None, shape=None):
        return self._like(a, UNINIT, dtype, shape)

    def full_like(self, a, v, dtype=None, order=None, subok=None, shape=None):
        return self._like(a, v, dtype, shape)

    def ones_like(self, a, dtype=None, order=None, subok=None, shape=None):
        return self._like(a, Q(1), dtype, shape)

    def zeros_like(self, a, dtype=None, order=None, subok=None, shape=None):
        return self._like(a, Q(0), dtype, shape)

    def result_type(self, *xs):
        tags, weak = [], []
        for x in xs:
            if isinstance(x, SymArray):
                tags.append(x.dtype_tag)
            elif _is_scalar(x):
                weak.append(_dtype_of_scalar(x))  # python scalars are weak: only their kind counts
            else:
                tags.append(_norm_dtype(x))
        if not tags:
            return DType(_reduce(weak, _promote))
        r = _reduce(tags, _promote)
        if "f8" in weak and r not in FLOATS and r != "object":
            r = "f8"
        elif "i8" in weak and r == "bool":
            r = "i8"
        return DType(r)

    def linspace(self, a, b, n):
        n = int(n)
        if n == 1:
            return SymArray([a if isinstance(a, Sym) else concrete(a)], "f8")
        out = []
        for j in range(n):
            out.append(b if j == n - 1 else a + (b - a) * Q(j, n - 1))
        return asarray(out, "f8")

    def arange(self, *args, dtype=None):
        if dtype is not None:
            r = self.arange(*args)
            tag = _norm_dtype(dtype)
            return r.astype(tag) if tag != r.dtype_tag else r
        cs = [concrete(a) for a in args]
        if any(c is None for c in cs):
            raise Unsupported("arange with symbolic arguments")
        if len(cs) == 1:
            start, stop, step = Q(0), cs[0], Q(1)
        elif len(cs) == 2:
            start, stop, step = cs[0], cs[1], Q(1)
        else:
            start, stop, step = cs
        n = max(0, math.ceil((stop - start) / step))
        isint = all(is_intlike(a) for a in args)
        return SymArray([start + step * j for j in range(n)], "i8" if isint else "f8")

    def logspace(self, a, b, n):
        return self.linspace(a, b, n)._map(lambda v: Q(10) ** v)

    def concatenate(self, arrs, axis=0, dtype=None):
        out = []
        dt = None
        for a in arrs:
            a = asarray(a)
            if not isinstance(a, SymArray):
                raise ValueError("zero-dimensional arrays cannot be concatenated")
            if a.ndim != 1:
                raise Unsupported("concatenate of 2-D arrays")
            out.extend(a.d)
            dt = a.dtype_tag if dt is None else _promote(dt, a.dtype_tag)
        r = SymArray([], _norm_dtype(dtype) or dt or "f8")
        r.d = [r._coerce(v) for v in out]
        return r

    def append(self, a, v):
        return self.concatenate([asarray(a), asarray(v) if not _is_scalar(v) else asarray([v])])

    def hstack(self, arrs):
        return self.concatenate([asarray(a) if not _is_scalar(a) else asarray([a]) for a in arrs])

    def flip(self, a, axis=None):
        a = asarray(a)
        return SymArray(list(reversed(a.d)), a.dtype_tag, a.shape if a.ndim == 2 else None)

    def diff(self, a, n=1, axis=-1, prepend=None, append=None):
        a = asarray(a)
        if a.ndim != 1 or int(n) != 1:
            raise Unsupported("np.diff beyond first differences of 1-D arrays")
        parts = []
        if prepend is not None:
            parts.append(asarray(prepend) if not _is_scalar(prepend) else asarray([prepend]))
        parts.append(a)
        if append is not None:
            parts.append(asarray(append) if not _is_scalar(append) else asarray([append]))
        if len(parts) > 1:
            a = self.concatenate(parts)
        return SymArray([_chk(a.d[j + 1]) - _chk(a.d[j]) for j in range(len(a.d) - 1)], a.dtype_tag if a.dtype_tag != "bool" else "bool")

    def ediff1d(self, a):
        return self.diff(a)

    def interp(self, x, xp, fp, left=None, right=None, period=None):
        """numpy.interp: piecewise-linear through (xp, fp) with constant ends.  numpy does NOT check that xp is increasing;
        on other abscissae its result is unspecified - modelled as an arbitrary (havoc'd) value, so any property that
        depends on it gets a counterexample candidate which is then replayed on the real code."""
        if period is not None:
            raise Unsupported("np.interp(period=)")
        xp, fp = asarray(xp), asarray(fp)
        if len(xp.d) != len(fp.d):
            raise ValueError("fp and xp are not of the same length.")
        if len(xp.d) == 0:
            raise ValueError("array of sample points is empty")
        n = len(xp.d)
        increasing = True
        for j in range(n - 1):
            if not bool(_cmp(xp.d[j], xp.d[j + 1], "lt")):     # symbolic: splits the path
                increasing = False
                break
        lo = fp.d[0] if left is None else left
        hi = fp.d[-1] if right is None else right

        def one(q):
            q = _chk(q)
            if not increasing:
                from ..sx.sym import fresh
                return fresh("np_interp_unsorted")
            if n == 1:
                return s_ite(_cmp(q, xp.d[0], "lt"), lo, s_ite(_cmp(q, xp.d[0], "gt"), hi, fp.d[0]))
            r = hi
            for j in range(n - 2, -1, -1):
                x0, x1, f0, f1 = xp.d[j], xp.d[j + 1], fp.d[j], fp.d[j + 1]
                r = s_ite(_cmp(q, x1, "le"), f0 + (f1 - f0) * ((q - x0) / (x1 - x0)), r)
            return s_ite(_cmp(q, xp.d[0], "lt"), lo, r)
        if _is_scalar(x):
            return one(x)
        x = asarray(x)
        return x._map(one, "f8")

    def putmask(self, a, mask, values):
        """a.flat[n] = values[n % len(values)] wherever mask.flat[n] (NOT sequential consumption - that is np.place)."""
        mask = asarray(mask)
        vals = asarray(values) if not _is_scalar(values) else asarray([values])
        if a.ndim != 1 or mask.shape != a.shape:
            raise Unsupported("putmask shapes")
        idx = a._mask_indices(mask)
        if idx and not len(vals.d):
            raise ValueError("cannot assign an empty array to a non-empty mask selection")
        for n in idx:
            a.d[n] = a._coerce(vals.d[n % len(vals.d)])

    def place(self, a, mask, values):
        mask = asarray(mask)
        vals = asarray(values) if not _is_scalar(values) else asarray([values])
        idx = a._mask_indices(mask)
        if idx and not len(vals.d):
            raise ValueError("Cannot insert from an empty array!")
        for k, n in enumerate(idx):
            a.d[n] = a._coerce(vals.d[k % len(vals.d)])

    def copyto(self, dst, src, where=True):
        src_a = asarray(src) if not _is_scalar(src) else None
        if where is True:
            dst[:] = src
            return
        idx = dst._mask_indices(asarray(where))
        for n in idx:
            dst.d[n] = dst._coerce(src_a.d[n] if src_a is not None else src)

    def argsort(self, a, kind=None):
        """Stable insertion sort on indices; every comparison the path condition does not settle splits the path."""
        a = asarray(a)
        if a.ndim != 1:
            raise Unsupported("argsort of a 2-D symbolic array")
        idx = []
        for j in range(len(a.d)):
            pos = len(idx)
            while pos > 0 and bool(_cmp(a.d[j], a.d[idx[pos - 1]], "lt")):
                pos -= 1
            idx.insert(pos, j)
        return SymArray([QI(j) for j in idx], "i8")

    def sort(self, a, kind=None):
        a = asarray(a)
        return SymArray([a.d[int(j)] for j in self.argsort(a).d], a.dtype_tag)

    def unique(self, ar, return_index=False, return_inverse=False, return_counts=False, axis=None, equal_nan=True):
        """Sorted distinct values of the flattened array (+ index of the first occurrence of each, + the map from every
        element to its distinct value, + counts).  Order and equality decisions split the path."""
        a = asarray(ar)
        if axis is not None:
            raise Unsupported("np.unique(axis=)")
        flat = list(a._flat())
        order = [int(j) for j in self.argsort(SymArray(flat, a.dtype_tag)).d]      # stable: first occurrence first among equals
        groups = []                                                                 # lists of original positions with equal values
        for j in order:
            if groups and bool(_cmp(flat[groups[-1][0]], flat[j], "eq")):
                groups[-1].append(j)
            else:
                groups.append([j])
        out = [SymArray([flat[g[0]] for g in groups], a.dtype_tag)]
        if return_index:
            out.append(SymArray([QI(min(g)) for g in groups], "i8"))
        if return_inverse:
            inv = [None] * len(flat)
            for k, g in enumerate(groups):
                for j in g:
                    inv[j] = QI(k)
            out.append(SymArray(inv, "i8"))
        if return_counts:
            out.append(SymArray([QI(len(g)) for g in groups], "i8"))
        return out[0] if len(out) == 1 else tuple(out)

    def searchsorted(self, a, v, side="left", sorter=None):
        """Binary search of the array *as given* (numpy does not check that it is sorted); decisions split the path."""
        if sorter is not None:
            raise Unsupported("np.searchsorted(sorter=)")
        a = asarray(a)
        op = "lt" if side == "left" else "le"

        def one(q):
            lo, hi = 0, len(a.d)
            while lo < hi:
                mid = (lo + hi) // 2
                if bool(_cmp(a.d[mid], q, op)):
                    lo = mid + 1
                else:
                    hi = mid
            return QI(lo)
        if _is_scalar(v):
            return one(v)
        return asarray(v)._map(one, "i8")

    def mean(self, a, axis=None):
        a = asarray(a)
        if axis is not None or a.ndim != 1:
            raise Unsupported("np.mean with an axis / of a 2-D array")
        if not a.d:
            raise Unsupported("np.mean of an empty array (nan)")
        return _sum(a.d) / Q(len(a.d))

    # ---- further element-wise / structural functions (each one differentially tested against numpy in the self-test)
    def asanyarray(self, x, dtype=None):
        return asarray(x, dtype)

    ascontiguousarray = asanyarray

    def copy(self, x):
        x = asarray(x)
        return x.copy() if isinstance(x, SymArray) else x

    def add(self, a, b): return asarray(a) + b if not _is_scalar(a) else a + b
    def subtract(self, a, b): return asarray(a) - b if not _is_scalar(a) else a - b
    def multiply(self, a, b): return asarray(a) * b if not _is_scalar(a) else a * b
    def divide(self, a, b): return asarray(a) / b if not _is_scalar(a) else (a / b if not isinstance(b, SymArray) else b.__rtruediv__(a))
    true_divide = divide
    def negative(self, a): return -asarray(a) if not _is_scalar(a) else -a
    def reciprocal(self, a):
        """1/x in the dtype of x: for an integer array (or Python int) numpy divides in integers (0 for |x| > 1)."""
        a = a.__sx_plain__() if hasattr(a, "__sx_plain__") else a
        if isinstance(a, ZeroD):
            a = a.v
        if _is_scalar(a):
            if is_intlike(a):
                t = SymArray([], "i8")
                return t._coerce(1 / lift(a))
            return 1 / a
        a = asarray(a)
        if a.dtype_tag in ("i8", "i4"):
            return (1 / a.astype("f8")).astype(a.dtype_tag)
        return 1 / a

    def sign(self, x):
        def one(v):
            c = concrete(v)
            if c is not None:
                return Q((c > 0) - (c < 0))
            return s_ite(lift(v) > 0, Q(1), s_ite(lift(v) < 0, Q(-1), Q(0)))
        return asarray(x)._map(one) if not _is_scalar(x) else one(x)

    def expm1(self, x): return self.exp(x) - 1
    def log1p(self, x): return self.log(1 + asarray(x) if not _is_scalar(x) else 1 + x)

    def nan_to_num(self, x, copy=True, nan=0.0, posinf=None, neginf=None):
        return x        # symbolic values are finite reals; NaN / inf are carried separately and never reach here silently

    def ravel(self, a, order="C"):
        a = asarray(a)
        return a.ravel() if isinstance(a, SymArray) else SymArray([a], _dtype_of_scalar(a))

    def asfortranarray(self, a, dtype=None):
        a = asarray(a, dtype)
        if isinstance(a, SymArray) and a.ndim == 2:
            r = SymArray([SymArray(list(row.d), a.dtype_tag) for row in a.d], a.dtype_tag, a.shape)
            r._order = "F"
            return r
        return a

    def ascontiguousarray(self, a, dtype=None):
        a = asarray(a, dtype)
        if isinstance(a, SymArray) and a.ndim == 2:
            return SymArray([SymArray(list(row.d), a.dtype_tag) for row in a.d], a.dtype_tag, a.shape)
        return a

    def reshape(self, a, shape):
        a = asarray(a)
        if shape in (-1, (-1,)):
            return a.flatten()
        raise Unsupported(f"np.reshape to {shape}")

    def prod(self, a, axis=None):
        a = asarray(a)
        if axis is not None or a.ndim != 1:
            raise Unsupported("np.prod with an axis / of a 2-D array")
        r = Q(1)
        for v in a.d:
            r = r * v
        return r

    def cumprod(self, a):
        a = asarray(a)
        out, r = [], Q(1)
        for v in a.d:
            r = r * v
            out.append(r)
        return SymArray(out, a.dtype_tag)

    def trapezoid(self, y, x=None, dx=1.0, axis=-1):
        y = asarray(y)
        if y.ndim != 1:
            raise Unsupported("np.trapezoid of a 2-D array")
        if x is not None:
            x = asarray(x)
            if len(x.d) != len(y.d):
                raise ValueError("operands could not be broadcast together")
        r = Q(0)
        for k in range(len(y.d) - 1):
            h = (x.d[k + 1] - x.d[k]) if x is not None else lift(dx)
            r = r + h * (y.d[k] + y.d[k + 1]) / 2
        return r

    trapz = trapezoid

    def average(self, a, weights=None):
        a = asarray(a)
        if weights is None:
            return self.mean(a)
        w = asarray(weights)
        return _sum([x * y for x, y in zip(a.d, w.d)]) / _sum(w.d)

    def repeat(self, a, n):
        a = asarray(a) if not _is_scalar(a) else SymArray([a], _dtype_of_scalar(a))
        n = int(n)
        return SymArray([v for v in a.d for _ in range(n)], a.dtype_tag)

    def tile(self, a, n):
        a = asarray(a) if not _is_scalar(a) else SymArray([a], _dtype_of_scalar(a))
        if isinstance(n, (tuple, list)):
            reps = [int(r) for r in n]
            if len(reps) == 1:
                n = reps[0]
            elif len(reps) == 2 and a.ndim == 1:
                row = list(a.d) * reps[1]
                return SymArray([SymArray(list(row), a.dtype_tag) for _ in range(reps[0])], a.dtype_tag, shape=(reps[0], len(row)))
            else:
                raise Unsupported(f"np.tile with reps {n!r} on a {a.ndim}-d array")
        if a.ndim != 1:
            raise Unsupported("np.tile on a 2-d array")
        return SymArray(list(a.d) * int(n), a.dtype_tag)

    def take(self, a, idx):
        return asarray(a)[idx]

    def flipud(self, a):
        return self.flip(a)

    def errstate(self, **kw):
        import contextlib
        return contextlib.nullcontext()

    def seterr(self, **kw):
        return {}

    class _FInfo:
        eps = Q(Fraction(2) ** -52)
        tiny = Q(Fraction(2) ** -1022)
        max = Q(Fraction(2) ** 1023 * (2 - Fraction(2) ** -52))
        resolution = Q(Fraction(1, 10 ** 15))

    def finfo(self, dt=float):
        return NP._FInfo

    def __getattr__(self, name):
        # a numpy function the model does not have: an honest 'cannot analyse' (exit 3), never an AttributeError that
        # would look like an error of the code under analysis
        if name.startswith("__"):
            raise AttributeError(name)
        raise Unsupported(f"np.{name} is not modelled")

    def isin(self, *a, **k):
        raise Unsupported("np.isin")

    # inspection
    def ndim(self, x):
        if isinstance(x, (SymArray, SymRec)):
            return x.ndim
        if hasattr(x, "__sx_array__"):
            return 1
        if isinstance(x, (list, tuple)):
            return 1 + (self.ndim(x[0]) if x else 0)
        return 0

    def size(self, x):
        if isinstance(x, SymArray):
            return x.size
        if isinstance(x, (list, tuple)):
            return len(x)
        return 1

    def shape(self, x):
        return x.shape if isinstance(x, SymArray) else ()

    def isscalar(self, x):
        return _is_scalar(x)

    # reductions and element-wise
    def sum(self, x, axis=None):
        x = asarray(x)
        return x.sum(axis) if isinstance(x, SymArray) else x

    def cumsum(self, x, axis=None, dtype=None):
        x = asarray(x)
        out, acc = [], Q(0)
        for v in x.d:
            acc = acc + v
            out.append(acc)
        return SymArray(out, x.dtype_tag)

    def any(self, x):
        x = asarray(x)
        return x.any() if isinstance(x, SymArray) else bool(x)

    def all(self, x):
        x = asarray(x)
        return x.all() if isinstance(x, SymArray) else bool(x)

    def max(self, x):
        return asarray(x).max()

    def min(self, x):
        return asarray(x).min()

    amax, amin = max, min

    minimum = _UFunc2("minimum", lambda x, y: s_min(x, y))
    maximum = _UFunc2("maximum", lambda x, y: s_max(x, y))

    def _ew2(self, a, b, f):
        a = asarray(a) if not _is_scalar(a) else a
        b = asarray(b) if not _is_scalar(b) else b
        if isinstance(a, SymArray):
            return a._bin(b, lambda x, y: f(_chk(x), _chk(y)))
        if isinstance(b, SymArray):
            return b._bin(a, lambda y, x: f(_chk(x), _chk(y)))
        return f(a, b)

    def clip(self, x, lo=None, hi=None, out=None, **kw):
        lo = kw.get("a_min", kw.get("min", lo))
        hi = kw.get("a_max", kw.get("max", hi))
        r = self._clip(x, lo, hi)
        return _into(out, r)

    def _clip(self, x, lo, hi):
        def c(v):
            v = _chk(v)
            if lo is not None:
                v = s_max(v, lo)
            if hi is not None:
                v = s_min(v, hi)
            return v
        x = asarray(x) if not _is_scalar(x) else x
        return x._map(c) if isinstance(x, SymArray) else c(x)

    _MISSING = object()

    def where(self, cond, a=_MISSING, b=_MISSING):
        if a is self._MISSING and b is self._MISSING:
            return self.nonzero(cond)
        if a is self._MISSING or b is self._MISSING:
            raise ValueError("either both or neither of x and y should be given")
        # a non-finite constant in one branch (np.inf, np.nan): the result is the other branch, and the condition under
        # which the non-finite value would be selected is recorded as a definedness condition ("the result is finite")
        def nonfinite(v):
            return isinstance(v, float) and (math.isinf(v) or math.isnan(v))
        if nonfinite(a) or nonfinite(b):
            if nonfinite(a) and nonfinite(b):
                raise Unsupported("np.where with two non-finite branches")
            cnd = asarray(cond) if not _is_scalar(cond) else cond
            sel_bad = cnd if nonfinite(a) else (cnd._map(lambda v: _bnot(v), "bool") if isinstance(cnd, SymArray) else _bnot(cnd))
            other = b if nonfinite(a) else a
            c = ctx()
            for v in (sel_bad.d if isinstance(sel_bad, SymArray) else [sel_bad]):
                node = v.node if isinstance(v, SymBool) else T.b_const(bool(v))
                c.require(T.b_not(node), f"np.where selects the non-finite constant {a if nonfinite(a) else b!r}")
            if isinstance(cnd, SymArray) and not isinstance(other, SymArray):
                return SymArray([other] * len(cnd.d), "f8")
            return other
        cond = asarray(cond)
        if isinstance(cond, SymArray):
            A = a if isinstance(a, SymArray) else None
            B = b if isinstance(b, SymArray) else None
            out = []
            for j, cnd in enumerate(cond.d):
                out.append(s_ite(cnd, A.d[j] if A is not None else a, B.d[j] if B is not None else b))
            return SymArray(out, "f8")
        return s_ite(cond, a, b)

    def nonzero(self, a):
        """Tuple of index arrays of the true / non-zero elements (one per dimension); every element that the path condition
        does not settle splits the path."""
        a = asarray(a)
        if _is_scalar(a):
            raise Unsupported("np.nonzero of a scalar")

        def truthy(v):
            if isinstance(v, (bool, SymBool)):
                return bool(v)
            return bool(_cmp(v, Q(0), "ne"))
        if a.ndim == 2:
            rows, cols = [], []
            for i, r in enumerate(a.d):
                for j, v in enumerate(r.d):
                    if truthy(v):
                        rows.append(QI(i))
                        cols.append(QI(j))
            return (SymArray(rows, "i8"), SymArray(cols, "i8"))
        return (SymArray([QI(j) for j, v in enumerate(a.d) if truthy(v)], "i8"),)

    def flatnonzero(self, a):
        a = asarray(a)
        return self.nonzero(SymArray(list(a._flat()), a.dtype_tag))[0]

    def fromiter(self, it, dtype=None, count=-1):
        items = list(it)
        if count is not None and count >= 0:
            items = items[:int(count)]
        tag = _norm_dtype(dtype) or "f8"
        out = SymArray([], tag)
        out.d = [out._coerce(_zd(v) if not isinstance(v, SymArray) else (v.d[0] if v.size == 1 else v)) for v in items]
        return out

    def ndenumerate(self, a):
        """(index tuple, value) pairs in C (logical) order."""
        a = asarray(a)
        if _is_scalar(a):
            return iter([((), a)])
        if a.ndim == 2:
            return iter([((i, j), v) for i, r in enumerate(a.d) for j, v in enumerate(r.d)])
        return iter([((j,), v) for j, v in enumerate(a.d)])

    def ndindex(self, *shape):
        if len(shape) == 1 and isinstance(shape[0], tuple):
            shape = shape[0]
        import itertools as _it
        return iter(_it.product(*[range(int(n)) for n in shape]))

    def isclose(self, a, b, rtol=1e-05, atol=1e-08, equal_nan=False):
        """|a - b| <= atol + rtol * |b| element-wise (numpy's asymmetric definition)."""
        rt, at = concrete(rtol), concrete(atol)

        def one(x, y):
            x, y = _chk(x), _chk(y)
            if getattr(x, "__sx_nan__", False) or getattr(y, "__sx_nan__", False):
                return False
            if isinstance(x, float) and (math.isinf(x) or math.isnan(x)) or isinstance(y, float) and (math.isinf(y) or math.isnan(y)):
                return isinstance(x, float) and isinstance(y, float) and x == y
            return _cmp(abs(x - y), at + rt * abs(y), "le")
        if _is_scalar(a) and _is_scalar(b):
            return one(a, b)
        r = self._ew2(a, b, one)
        if isinstance(r, SymArray):
            _retag(r, "bool")
        return r

    def allclose(self, a, b, rtol=1e-05, atol=1e-08, equal_nan=False):
        r = self.isclose(a, b, rtol=rtol, atol=atol)
        return r.all() if isinstance(r, SymArray) else r

    def array_equal(self, a, b):
        a, b = asarray(a), asarray(b)
        if getattr(a, "shape", ()) != getattr(b, "shape", ()):
            return False
        r = (a == b)
        return r.all() if isinstance(r, SymArray) else r

    def count_nonzero(self, a, axis=None):
        a = asarray(a)
        n = 0
        for v in a._flat():
            if isinstance(v, (bool, SymBool)):
                n += 1 if bool(v) else 0            # symbolic: splits the path
            else:
                n += 1 if bool(_cmp(v, 0, "ne")) else 0
        return n

    def nonzero(self, a):
        a = asarray(a)
        return (SymArray([Q(j) for j, v in enumerate(a.d) if bool(v if isinstance(v, (bool, SymBool)) else _cmp(v, 0, "ne"))], "i8"),)

    def flatnonzero(self, a):
        return self.nonzero(a)[0]

    def nditer(self, a, flags=(), **kw):
        """Elements in *memory* order (numpy's default order="K"): the logical order for a contiguous array, the reverse
        for a negative-stride view."""
        a = asarray(a)
        if _is_scalar(a):
            return iter([a])
        if a.ndim != 1:
            raise Unsupported("np.nditer over a 2-D symbolic array")
        mem = getattr(a, "_mem", None)
        if not a.d and "zerosize_ok" not in flags:
            raise ValueError("Iteration of zero-sized operands is not enabled")
        return iter([a.d[j] for j in mem] if mem is not None else list(a.d))

    def atleast_1d(self, *xs):
        out = []
        for x in xs:
            if hasattr(x, "__sx_plain__") or isinstance(x, SymArray):
                out.append(x)
            elif _is_scalar(x):
                a = SymArray([], _dtype_of_scalar(x))
                a.d = [a._coerce(x)]
                out.append(a)
            else:
                out.append(asarray(x))
        return out[0] if len(out) == 1 else out

    def squeeze(self, a, axis=None):
        return asarray(a).squeeze() if not _is_scalar(a) else a

    def argmax(self, a):
        return asarray(a).argmax()

    def argmin(self, a):
        return asarray(a).argmin()

    def isnan(self, x):
        return asarray(x)._map(lambda v: bool(getattr(v, "__sx_nan__", False)), "bool") if not _is_scalar(x) else bool(getattr(x, "__sx_nan__", False))

    def isfinite(self, x):
        return asarray(x)._map(lambda v: True, "bool") if not _is_scalar(x) else True

    def round(self, x, decimals=0):
        """Rounding of symbolic values is an uninterpreted function (only tick positions use it)."""
        def r(v):
            c = concrete(v)
            if c is not None:
                return Q(round(Fraction(c), int(decimals)))
            return simp(T.mkUF(f"round{int(decimals)}", (lift(v).p,)))
        x = asarray(x) if not _is_scalar(x) else x
        return x._map(r) if isinstance(x, SymArray) else r(x)

    def gradient(self, f, x):
        f, x = asarray(f), asarray(x)
        n = len(f.d)
        if n < 2:
            raise ValueError("Shape of array too small to calculate a numerical gradient")
        out = [None] * n
        out[0] = (f.d[1] - f.d[0]) / (x.d[1] - x.d[0])
        out[-1] = (f.d[-1] - f.d[-2]) / (x.d[-1] - x.d[-2])
        for i in range(1, n - 1):
            hd, hs = x.d[i + 1] - x.d[i], x.d[i] - x.d[i - 1]
            out[i] = (hs * hs * f.d[i + 1] + (hd * hd - hs * hs) * f.d[i] - hd * hd * f.d[i - 1]) / (hs * hd * (hd + hs))
        return SymArray(out, "f8")

    def vectorize(self, pyfunc, otypes=None, excluded=None, signature=None, **_kw):
        def call(*args, **kwargs):
            if kwargs:
                # keyword arguments are vectorised like positional ones: bind them into the function for this call
                names = list(kwargs)
                vals = [kwargs[k] for k in names]
                npos = len(args)

                def bound(*a):
                    return pyfunc(*a[:npos], **dict(zip(names, a[npos:])))
                return self.vectorize(bound, otypes=otypes)(*args, *vals)
            arrs = [a for a in args if isinstance(a, SymArray)]
            if not arrs:
                return pyfunc(*args)
            n = max(len(a.d) for a in arrs)
            if n == 0 or any(len(a.d) == 0 for a in arrs):
                if otypes is None:
                    raise ValueError("cannot call `vectorize` on size 0 inputs unless `otypes` is set")
                return SymArray([], _norm_dtype(otypes[0]))
            out = []
            for j in range(n):
                out.append(pyfunc(*[(a.d[j] if len(a.d) == n else a.d[0]) if isinstance(a, SymArray) else a
                                    for a in args]))
            tag = _norm_dtype(otypes[0]) if otypes else _dtype_of_scalar(out[0])
            r = SymArray([], tag)
            r.d = [r._coerce(v) for v in out]
            return r
        return call

    def dot(self, a, b):
        return asarray(a) @ asarray(b)

    def float_power(self, a, b):
        return asarray(a) ** b

    def power(self, a, b):
        return a ** b


class MATH:
    """Stand-in for the `math` module."""
    inf = math.inf
    nan = math.nan
    pi = Q(Fraction(repr(math.pi)))
    e = Q(Fraction(repr(math.e)))

    @staticmethod
    def exp(x): return s_exp(x)

    @staticmethod
    def log(x, base=None):
        if base is not None:
            return s_log(x) / s_log(base)
        return s_log(x)

    @staticmethod
    def log10(x): return s_log(x) / s_log(Q(10))

    @staticmethod
    def sqrt(x): return s_sqrt(x)

    @staticmethod
    def fabs(x): return abs(x)

    @staticmethod
    def pow(a, b): return _spow(a, b)

    @staticmethod
    def isnan(x): return False

    @staticmethod
    def isinf(x): return isinstance(x, float) and math.isinf(x)

    @staticmethod
    def isfinite(x): return not (isinstance(x, float) and (math.isinf(x) or math.isnan(x)))

    @staticmethod
    def isclose(a, b, rel_tol=1e-09, abs_tol=0.0):
        """|a - b| <= max(rel_tol * max(|a|, |b|), abs_tol) (the symmetric definition of math.isclose)."""
        a, b = _zd(a), _zd(b)
        d = abs(lift(a) - lift(b))
        big = s_ite(_cmp(abs(lift(a)), abs(lift(b)), "ge"), abs(lift(a)), abs(lift(b)))
        bound = concrete(rel_tol) * big if concrete(rel_tol) is not None else lift(rel_tol) * big
        at = concrete(abs_tol) if concrete(abs_tol) is not None else lift(abs_tol)
        return _bor(_cmp(d, bound, "le"), _cmp(d, at, "le"))

    @staticmethod
    def floor(x):
        c = concrete(x)
        if c is None:
            raise Unsupported("math.floor of a symbolic value")
        return QI(math.floor(c))

    @staticmethod
    def ceil(x):
        c = concrete(x)
        if c is None:
            raise Unsupported("math.ceil of a symbolic value")
        return QI(math.ceil(c))

    def __getattr__(self, name):
        if name.startswith("__"):
            raise AttributeError(name)
        raise Unsupported(f"math.{name} is not modelled")


# builtins rebinding: keep Python's semantics on concrete values, ite on symbolic ones

def b_max(*args, **kw):
    if len(args) == 1:
        args = tuple(args[0].d if isinstance(args[0], SymArray) else args[0])
    if not args:
        raise ValueError("max() iterable argument is empty")
    if any(isinstance(a, float) and math.isinf(a) for a in args):
        if any(isinstance(a, float) and a > 0 for a in args):
            return math.inf
        args = tuple(a for a in args if not (isinstance(a, float) and math.isinf(a)))
    return _reduce(list(args), s_max)


def b_min(*args, **kw):
    if len(args) == 1:
        args = tuple(args[0].d if isinstance(args[0], SymArray) else args[0])
    if not args:
        raise ValueError("min() iterable argument is empty")
    if any(isinstance(a, float) and math.isinf(a) for a in args):
        if any(isinstance(a, float) and a < 0 for a in args):
            return -math.inf
        args = tuple(a for a in args if not (isinstance(a, float) and math.isinf(a)))
    return _reduce(list(args), s_min)


def b_float(x):
    if isinstance(x, (Sym, Q)):
        return x
    if isinstance(x, (int, float)):
        return concrete(x) if not (isinstance(x, float) and (math.isinf(x) or math.isnan(x))) else x
    return float(x)


def b_sum(xs, start=0):
    r = start
    for x in (xs.d if isinstance(xs, SymArray) else xs):
        r = r + x
    return r


BUILTINS = {"max": b_max, "min": b_min, "float": b_float, "sum": b_sum}
