"""Stand-ins for the scipy entry points the repository calls.

Exact-semantics shims (interp1d linear, cumulative_trapezoid, sparse.diags) reproduce the
library's documented result as terms; they are compared with the real library on concrete
inputs by `selftest()` at the start of every run.  Contract stubs (minimize, brentq, quad,
curve_fit, bicgstab, spsolve) return fresh symbols constrained only by the routine's documented
contract and record what the repository handed to them.
"""
from __future__ import annotations

import math
from fractions import Fraction

from ..sx import terms as T
from ..sx.sym import (Q, Sym, SymBool, Unsupported, concrete, ctx, fresh, lift, s_ite, simp, Context)
from .np_shim import SymArray, asarray, _is_scalar, UNINIT, Uninit, UninitRead, Inf

_counter = [0]


def _fresh(prefix, pos=False):
    _counter[0] += 1
    return fresh(f"{prefix}#{_counter[0]}", pos=pos)


def reset_names():
    _counter[0] = 0


# --------------------------------------------------------------------------- interp1d (exact)

def _col(x):
    if hasattr(x, "__sx_array__"):
        x = x.__sx_array__()
    x = asarray(x)
    if not isinstance(x, SymArray) or x.ndim != 1:
        raise Unsupported("interp1d needs 1-D data")
    return x


class NonMonotoneAbscissae(Exception):
    """interp1d was given abscissae that are neither strictly increasing nor strictly decreasing on this
    path (the real routine would silently sort them).  Harnesses treat the path as an outcome."""


class Interp1d:
    """scipy.interpolate.interp1d, kind='linear'."""

    def __init__(self, x, y, kind="linear", axis=-1, copy=True, bounds_error=None, fill_value=math.nan,
                 assume_sorted=False):
        # any other kind (quadratic, cubic, nearest ...): an *opaque* interpolant - it reproduces the nodes and is otherwise
        # an arbitrary function of the query (one unconstrained value per distinct query).  Properties that need more than
        # that get a counterexample candidate, which the replay on the real library then confirms or not.
        self.opaque = kind != "linear"
        self.kind = kind
        self._opaque_vals = {}
        x, y = _col(x), _col(y)
        if len(x.d) != len(y.d):
            raise ValueError("x and y arrays must be equal in length along interpolation axis.")
        if len(x.d) < 2:
            raise ValueError("x and y arrays must have at least 2 entries")
        xs, ys = list(x.d), list(y.d)
        for v in xs + ys:
            if isinstance(v, Uninit) and not isinstance(v, Inf):
                raise UninitRead()
        if any(isinstance(v, Inf) for v in xs):
            raise UninitRead()
        # ordering of the abscissae: decided on the path (splits if not implied)
        inc = dec = True
        for k in range(len(xs) - 1):
            if inc and bool(lift(xs[k]) < lift(xs[k + 1])):
                dec = False
                continue
            inc = False
            if dec and bool(lift(xs[k]) > lift(xs[k + 1])):
                continue
            dec = False
            break
        if not inc and not dec:
            raise NonMonotoneAbscissae("interp1d abscissae neither strictly increasing nor strictly decreasing")
        self.raw_bisect = False
        if dec and not inc:
            if assume_sorted:
                # scipy trusts the caller: no argsort, np.searchsorted bisects the array as given.  On a descending axis
                # that lands on a wrong segment and (with fill_value="extrapolate") extrapolates from it silently.
                self.raw_bisect = True
            else:
                xs.reverse()
                ys.reverse()
        self.x, self.y = xs, ys
        self.extrapolate = False
        if isinstance(fill_value, str):
            if fill_value != "extrapolate":
                raise ValueError("unknown fill_value")
            if bounds_error:
                raise ValueError("Cannot extrapolate and raise at the same time.")
            self.extrapolate = True
            self.bounds_error = False
            self.fill = None
        else:
            if isinstance(fill_value, tuple):
                if len(fill_value) != 2:
                    raise ValueError("fill_value must be a 2-tuple or scalar")
                self.fill = fill_value
            else:
                self.fill = (fill_value, fill_value)
            self.bounds_error = True if bounds_error is None else bool(bounds_error)

    def _seg(self, k, q):
        x0, x1, y0, y1 = self.x[k - 1], self.x[k], self.y[k - 1], self.y[k]
        if isinstance(y0, Inf) or isinstance(y1, Inf):
            # an infinite ordinate: the result is inf/nan wherever this segment is selected
            c = Context.current
            n = len(self.x)
            inside = []
            if k > 1:
                inside.append((lift(q) > lift(self.x[k - 1])).node)
            if k < n - 1:
                inside.append((lift(q) <= lift(self.x[k])).node)
            sel = T.b_and(*inside) if inside else T.b_const(True)
            if c is not None:
                c.require(T.b_not(sel), f"interp1d query outside the segment [{x0!r}, {x1!r}] whose ordinate is infinite")
            return Q(0)
        slope = (y1 - y0) / (x1 - x0)
        return slope * (q - x0) + y0

    def _eval_bisect(self, q, lo, hi):
        """np.searchsorted(x, q, side='left') unrolled on the array as given, then the segment scipy picks."""
        n = len(self.x)
        if lo >= hi:
            return self._seg(min(max(lo, 1), n - 1), q)
        mid = (lo + hi) // 2
        return s_ite(lift(self.x[mid]) < lift(q), self._eval_bisect(q, mid + 1, hi), self._eval_bisect(q, lo, mid))

    def _eval_inside(self, q):
        n = len(self.x)
        if self.raw_bisect:
            return self._eval_bisect(q, 0, n)
        r = self._seg(n - 1, q)
        for k in range(n - 2, 0, -1):
            r = s_ite(lift(q) <= lift(self.x[k]), self._seg(k, q), r)
        return r

    def _one(self, q):
        if isinstance(q, Uninit):
            raise UninitRead()
        if getattr(self, "opaque", False):
            qp = lift(q).p
            for k, xv in enumerate(self.x):
                if lift(xv).p == qp:
                    return self.y[k]
            v = self._opaque_vals.get(qp)
            if v is None:
                v = self._opaque_vals[qp] = _fresh(f"interp_{self.kind}_{len(self._opaque_vals)}")
            return v
        if not self.raw_bisect:
            qp = lift(q).p
            for k, xv in enumerate(self.x):
                if lift(xv).p == qp and not isinstance(self.y[k], Inf):
                    return self.y[k]      # query is syntactically a node
        r = self._eval_inside(q)
        if self.extrapolate:
            return r
        lo, hi = self.fill
        for f in (lo, hi):
            if isinstance(f, float) and math.isnan(f):
                # nan fill with bounds_error False: result undefined outside -> definedness condition
                c = Context.current
                if c is not None:
                    c.require(T.b_and((lift(q) >= lift(self.x[0])).node, (lift(q) <= lift(self.x[-1])).node),
                              "interp1d query inside the table (fill value is nan)")
                return r
        r = s_ite(lift(q) < lift(self.x[0]), lo, r)
        r = s_ite(lift(q) > lift(self.x[-1]), hi, r)
        return r

    def __call__(self, q):
        if hasattr(q, "__sx_array__"):
            q = q.__sx_array__()
        if isinstance(q, (list, tuple)):
            q = asarray(q)
        if isinstance(q, SymArray):
            flat = q._flat()
            if self.bounds_error and flat:
                below = [(lift(v) < lift(self.x[0])) for v in flat]
                above = [(lift(v) > lift(self.x[-1])) for v in flat]
                if bool(_orb(below)):
                    raise ValueError("A value in x_new is below the interpolation range's minimum value.")
                if bool(_orb(above)):
                    raise ValueError("A value in x_new is above the interpolation range's maximum value.")
            return q._map(self._one, "f8")
        if self.bounds_error:
            if bool(lift(q) < lift(self.x[0])):
                raise ValueError("A value in x_new is below the interpolation range's minimum value.")
            if bool(lift(q) > lift(self.x[-1])):
                raise ValueError("A value in x_new is above the interpolation range's maximum value.")
        return self._one(q)


def _orb(bs):
    nodes = []
    for b in bs:
        if isinstance(b, SymBool):
            nodes.append(b.node)
        elif b:
            return True
    if not nodes:
        return False
    return SymBool(T.b_or(*nodes))


# --------------------------------------------------------------------------- cumulative_trapezoid (exact)

def cumulative_trapezoid(y, x=None, dx=1.0, axis=-1, initial=None):
    y = _col(y)
    if x is not None:
        x = _col(x)
        if len(x.d) != len(y.d):
            raise ValueError("If given, length of x along axis must be the same as y.")
    out = []
    acc = Q(0)
    for k in range(len(y.d) - 1):
        h = (x.d[k + 1] - x.d[k]) if x is not None else concrete(dx)
        acc = acc + h * (y.d[k] + y.d[k + 1]) / 2
        out.append(acc)
    if initial is not None:
        if concrete(initial) is None or concrete(initial) != 0:
            raise ValueError("`initial` must be `None` or `0`.")
        out = [Q(0)] + out
    return SymArray(out, "f8")


# --------------------------------------------------------------------------- sparse (exact) + linear solves (contract)

class _MatrixFormats:
    """format conversions are identities for the dense symbolic model"""

    def tocsc(self):
        return self

    def tocsr(self):
        return self

    def tocoo(self):
        return self

    def asformat(self, fmt, copy=False):
        return self


class SymMatrix(_MatrixFormats):
    def __init__(self, rows):
        self.rows = rows
        self.shape = (len(rows), len(rows))

    def matvec(self, x):
        out = []
        for r in self.rows:
            acc = Q(0)
            for c, a in enumerate(r):
                if concrete(a) is not None and concrete(a) == 0:
                    continue
                acc = acc + a * x[c]
            out.append(acc)
        return out


def diags(diagonals, offsets=0, shape=None, format=None, dtype=None):
    if not isinstance(offsets, (list, tuple)):
        offsets, diagonals = [offsets], [diagonals]
    offsets = [int(o) for o in offsets]
    ds = [asarray(d) for d in diagonals]
    if shape is None:
        n = len(ds[0].d) + abs(offsets[0])
    else:
        n = int(shape[0])
    M = [[Q(0)] * n for _ in range(n)]
    for d, o in zip(ds, offsets):
        if len(d.d) != n - abs(o):
            if len(d.d) == 1:
                d = SymArray(d.d * (n - abs(o)), d.dtype_tag)
            else:
                raise ValueError(f"Diagonal length (index {offsets.index(o)}: {len(d.d)} at offset {o}) does not "
                                 f"agree with array size ({n}, {n}).")
        for i in range(len(d.d)):
            r, c = (i, i + o) if o >= 0 else (i - o, i)
            if isinstance(d.d[i], Uninit):
                raise UninitRead()
            M[r][c] = d.d[i]
    return SymMatrix(M)


class LinSolve:
    """Policy object for the linear-solve stubs; harnesses replace `policy`."""
    calls: list = []
    policy = None        # callable(kind, A, b, kwargs, index) -> (x list | None, info)

    @classmethod
    def reset(cls, policy=None):
        cls.calls = []
        cls.policy = policy

    @classmethod
    def solve(cls, kind, A, b, kwargs):
        b = asarray(b)
        for v in b.d:
            if isinstance(v, Uninit):
                raise UninitRead()
        idx = len(cls.calls)
        n = len(b.d)
        x = [_fresh(f"x{idx}_{j}") for j in range(n)]
        info = 0
        rec = {"kind": kind, "A": A, "b": list(b.d), "x": x, "kwargs": dict(kwargs), "index": idx, "info": info}
        cls.calls.append(rec)
        if cls.policy is not None:
            r = cls.policy(rec)
            if r is not None:
                info = r
                rec["info"] = info
        else:
            exact_solve(rec)
        return SymArray(rec["x"], "f8"), info


def exact_solve(rec):
    """Assume A x = b on the current path (an ideal solve)."""
    c = ctx()
    Ax = rec["A"].matvec(rec["x"])
    for lhs, rhs in zip(Ax, rec["b"]):
        c.assume((lift(lhs) == lift(rhs)).node if not isinstance(lhs == rhs, bool) else (lhs == rhs))


def bicgstab(A, b, x0=None, *, rtol=None, atol=None, maxiter=None, M=None, callback=None, **kw):
    if kw:
        raise TypeError(f"bicgstab() got an unexpected keyword argument {next(iter(kw))!r}")
    return LinSolve.solve("bicgstab", A, b, {"rtol": rtol, "atol": atol, "maxiter": maxiter})


def spsolve(A, b, permc_spec=None, use_umfpack=True):
    x, _ = LinSolve.solve("spsolve", A, b, {})
    return x


class _Factorization:
    """scipy.sparse.linalg.splu / factorized: a direct factorization of ONE matrix; every later solve uses that matrix."""

    def __init__(self, A):
        self.A = A
        self.shape = (len(A.rows), len(A.rows))

    def solve(self, b, trans="N"):
        if trans != "N":
            raise Unsupported("splu(...).solve(trans != 'N')")
        x, _ = LinSolve.solve("spsolve", self.A, b, {"via": "splu"})
        return x

    __call__ = solve


def splu(A, *a, **kw):
    return _Factorization(A)


def factorized(A):
    return _Factorization(A)


def spilu(A, *a, **kw):
    # an incomplete factorisation is a preconditioner, not a solve of the system: nothing exact can be said about its result
    raise Unsupported("scipy.sparse.linalg.spilu (incomplete LU: not an exact solve)")


def solve_banded(l_and_u, ab, b, **kw):
    raise Unsupported("scipy.linalg.solve_banded")


class _Linalg:
    bicgstab = staticmethod(bicgstab)
    spsolve = staticmethod(spsolve)
    splu = staticmethod(splu)
    spilu = staticmethod(spilu)
    factorized = staticmethod(factorized)


class SPARSE:
    diags = staticmethod(diags)
    linalg = _Linalg
    spmatrix = SymMatrix


# --------------------------------------------------------------------------- optimisers / quadrature (contract)

class OptCalls:
    minimize: list = []
    brentq: list = []
    quad: list = []
    curve_fit: list = []
    # True: the stub splits the path on the sign-change precondition (ValueError path);
    # False: only the normal return is modelled (r in [a,b], f(r)=0) and the harness asks about
    # the precondition separately through rec["same_sign"].
    brentq_sign_decision = True

    @classmethod
    def reset(cls):
        cls.minimize, cls.brentq, cls.quad, cls.curve_fit = [], [], [], []


class _Result:
    pass


def minimize(fun, x0, args=(), method=None, jac=None, bounds=None, **kw):
    """Contract: result.x lies within `bounds`; f(result.x) <= f(x0) is NOT assumed here (harness adds
    what it needs).  The objective closure is recorded."""
    x0a = asarray(x0) if not _is_scalar(x0) else SymArray([x0], "f8")
    n = len(x0a.d)
    xs = [_fresh(f"xopt{len(OptCalls.minimize)}_{j}") for j in range(n)]
    c = ctx()
    if bounds is not None:
        for j, (lo, hi) in enumerate(bounds):
            if lo is not None:
                c.assume((lift(xs[j]) >= lift(lo)).node)
            if hi is not None:
                c.assume((lift(xs[j]) <= lift(hi)).node)
    r = _Result()
    r.x = SymArray(xs, "f8")
    r.success = True
    OptCalls.minimize.append({"fun": fun, "x0": x0a, "bounds": bounds, "x": xs, "kw": kw})
    return r


def brentq(f, a, b, args=(), xtol=None, rtol=None, maxiter=100, full_output=False, disp=True):
    """Contract: ValueError unless f(a) f(b) <= 0 ... (scipy: 'f(a) and f(b) must have different signs');
    otherwise returns r in [a, b] with f(r) = 0 (the routine's xtol/rtol, here rounding-level, are
    recorded but the returned point is modelled as the exact root)."""
    fa, fb = f(a, *args), f(b, *args)
    fa_, fb_ = lift(fa), lift(fb)
    same = ((fa_ > 0) & (fb_ > 0)) | ((fa_ < 0) & (fb_ < 0))
    if OptCalls.brentq_sign_decision and bool(same):
        raise ValueError("f(a) and f(b) must have different signs")
    r = _fresh(f"root{len(OptCalls.brentq)}", pos=T.is_pos(lift(a).p))
    c = ctx()
    c.assume((lift(r) >= lift(a)).node)
    c.assume((lift(r) <= lift(b)).node)
    fr = f(r, *args)
    # scipy: with disp=True (default) a run that does not converge within maxiter raises RuntimeError; with disp=False the
    # current iterate is returned and only RootResults.converged (full_output=True) says so.  The root property is
    # therefore part of the contract only when non-convergence cannot pass silently.
    silent = not bool(disp)
    converged = True
    if silent:
        if full_output:
            converged = bool(lift(_fresh(f"brentq_converged{len(OptCalls.brentq)}")) > 0)     # either outcome: the path splits
        else:
            converged = False
    if converged:
        c.assume((lift(fr) == 0).node)
    OptCalls.brentq.append({"f": f, "a": a, "b": b, "root": r, "xtol": xtol, "rtol": rtol, "fa": fa, "fb": fb,
                            "same_sign": same, "maxiter": maxiter, "disp": disp, "full_output": full_output,
                            "root_guaranteed": converged})
    if full_output:
        class RootResults:
            pass
        rr = RootResults()
        rr.root, rr.converged, rr.flag = r, converged, ("converged" if converged else "convergence error")
        rr.iterations = rr.function_calls = maxiter
        return r, rr
    return r


def quad(func, a, b, args=(), limit=50, **kw):
    """Contract: returns (I, err) with I = integral_a^b func; I is an uninterpreted symbol; the
    integrand closure and the limits are recorded."""
    k = len(OptCalls.quad)
    I = simp(T.mkUF(f"INT{k}", [lift(a).p, lift(b).p]))
    OptCalls.quad.append({"func": func, "a": a, "b": b, "I": I, "limit": limit, "args": args})
    return I, _fresh(f"quaderr{k}")


def curve_fit(f, xdata, ydata, p0=None, sigma=None, absolute_sigma=False, check_finite=None,
              bounds=(-math.inf, math.inf), method=None, jac=None, **kw):
    """Contract: ValueError if p0 is outside `bounds` (scipy: 'x0 is infeasible'); otherwise popt with
    lo <= popt <= hi component-wise.  Model closure, data, p0 and bounds are recorded."""
    p0l = list(p0.d) if isinstance(p0, SymArray) else list(p0)
    lo, hi = bounds
    los = list(lo.d) if isinstance(lo, SymArray) else (list(lo) if isinstance(lo, (list, tuple)) else [lo] * len(p0l))
    his = list(hi.d) if isinstance(hi, SymArray) else (list(hi) if isinstance(hi, (list, tuple)) else [hi] * len(p0l))
    if len(los) != len(p0l) or len(his) != len(p0l):
        raise ValueError("Inconsistent shapes between bounds and `x0`.")
    from .np_shim import _cmp
    for l, h in zip(los, his):
        if bool(_cmp(l, h, "ge")):
            raise ValueError("Each lower bound must be strictly less than each upper bound.")
    for v, l, h in zip(p0l, los, his):
        if isinstance(v, float) and (math.isinf(v) or math.isnan(v)):
            # real scipy: least_squares evaluates the model at x0 and refuses non-finite residuals
            raise ValueError("Residuals are not finite in the initial point.")
        if bool(_cmp(v, l, "lt")) or bool(_cmp(v, h, "gt")):
            raise ValueError("`x0` is infeasible.")
    k = len(OptCalls.curve_fit)
    popt = [_fresh(f"popt{k}_{j}") for j in range(len(p0l))]
    c = ctx()
    for v, l, h in zip(popt, los, his):
        if not (isinstance(l, float) and math.isinf(l)):
            c.assume((lift(v) >= lift(l)).node)
        if not (isinstance(h, float) and math.isinf(h)):
            c.assume((lift(v) <= lift(h)).node)
    OptCalls.curve_fit.append({"f": f, "xdata": xdata, "ydata": ydata, "p0": p0l, "lo": los, "hi": his, "popt": popt,
                               "sigma": sigma, "absolute_sigma": absolute_sigma, "method": method, "jac": jac, "kw": dict(kw)})
    return SymArray(popt, "f8"), None


class _Namespace(type):
    """A scipy sub-module as far as the analysed code can tell: names that are not modelled end in an engine gap."""

    def __getattr__(cls, name):
        if name.startswith("__"):
            raise AttributeError(name)
        raise Unsupported(f"scipy {cls.__name__.strip('_').lower()}.{name} is not modelled")


class _Interpolate(metaclass=_Namespace):
    interp1d = Interp1d


class _Integrate(metaclass=_Namespace):
    cumulative_trapezoid = staticmethod(cumulative_trapezoid)
    quad = staticmethod(quad)


class _Optimize(metaclass=_Namespace):
    minimize = staticmethod(minimize)
    brentq = staticmethod(brentq)
    curve_fit = staticmethod(curve_fit)


def uniform_filter1d(x, size, axis=-1, output=None, mode="reflect", cval=0.0, origin=0):
    """scipy.ndimage.uniform_filter1d, mode='reflect', origin 0: exact for the sizes the harnesses use."""
    x = asarray(x)
    n = len(x.d)
    size = int(size)
    if size < 1:
        raise RuntimeError("incorrect filter size")
    def at(i):          # reflect: d c b a | a b c d | d c b a
        while i < 0 or i >= n:
            i = -i - 1 if i < 0 else 2 * n - 1 - i
        return x.d[i]
    left = size // 2
    out = []
    poisoned = False       # scipy keeps a running sum: from the first window that contains a NaN every later output is NaN
    for j in range(n):
        win = [at(j - left + k) for k in range(size)]
        if poisoned or any(getattr(v, "__sx_nan__", False) for v in win):
            poisoned = True
            from .pd_shim import NA
            out.append(NA)
            continue
        if size == 1:
            out.append(win[0])
            continue
        acc = Q(0)
        for v in win:
            acc = acc + v
        out.append(acc / size)
    return SymArray(out, x.dtype_tag if size == 1 else "f8")


class _NDImage:
    uniform_filter1d = staticmethod(uniform_filter1d)


class SP:
    """Stand-in for `scipy` / `sp`."""
    ndimage = _NDImage
    interpolate = _Interpolate
    integrate = _Integrate
    optimize = _Optimize
    sparse = SPARSE


def _not_modelled(name):
    def f(*a, **k):
        raise Unsupported(f"scipy {name} is not modelled")
    f.__name__ = name
    f.__sx_only_if_scipy__ = True      # the loader installs it only over a name that really came from scipy
    return f


# names a changed module may import from scipy next to the modelled ones: calling them on symbolic values must end in an
# engine gap (exit 3 / concrete replay family), never in whatever the real routine makes of symbolic operands
_UNMODELLED = ("fixed_quad", "quadrature", "romberg", "simpson", "simps", "trapezoid", "trapz", "cumulative_simpson", "quad_vec", "dblquad", "solve_ivp", "odeint",
               "newton", "bisect", "brenth", "ridder", "toms748", "fsolve", "root", "root_scalar", "least_squares", "minimize_scalar", "fminbound", "leastsq",
               "UnivariateSpline", "InterpolatedUnivariateSpline", "CubicSpline", "PchipInterpolator", "Akima1DInterpolator", "make_interp_spline", "splrep", "splev",
               "RegularGridInterpolator", "griddata", "solve_banded", "solve", "spsolve", "lstsq")


class _Linalg(metaclass=_Namespace):
    """scipy.linalg: nothing of it is modelled (dense / banded solves of the changed code end in an engine gap)."""
    __sx_only_if_scipy__ = True


class _Special(metaclass=_Namespace):
    __sx_only_if_scipy__ = True


class _Ndimage(metaclass=_Namespace):
    __sx_only_if_scipy__ = True
    uniform_filter1d = staticmethod(uniform_filter1d)


def rebind():
    d = {n: _not_modelled(n) for n in _UNMODELLED}
    d.update(linalg=_Linalg, special=_Special)
    d.update(interp1d=Interp1d, cumulative_trapezoid=cumulative_trapezoid, sparse=SPARSE, minimize=minimize,
             brentq=brentq, quad=quad, curve_fit=curve_fit, interpolate=_Interpolate, integrate=_Integrate,
             sp=SP)
    return d


# --------------------------------------------------------------------------- self test against the real library

def selftest(job, seed=0):
    """Exact-semantics shims vs the real scipy/numpy on concrete inputs (counted as validations)."""
    import random
    import numpy as np
    from scipy import integrate, interpolate, sparse
    from ..sx.sym import explore
    from .np_shim import NP
    r = random.Random(seed)
    npx = NP()

    def run(fn):
        res = explore(fn)
        assert len(res) == 1, "concrete self-test must have a single path"
        if res[0].exc is not None:
            raise res[0].exc
        return res[0].value

    for trial in range(4):
        n = r.randint(2, 5)
        xs = sorted(r.uniform(0, 100) for _ in range(n))
        if trial % 2:
            xs.reverse()
        ys = [r.uniform(-5, 5) for _ in range(n)]
        qs = [xs[0], xs[-1], xs[1], (xs[0] + xs[1]) / 2, min(xs) - 3, max(xs) + 7, r.uniform(min(xs), max(xs))]
        X = [Q(repr(v)) for v in xs]
        Y = [Q(repr(v)) for v in ys]
        for kw_real, kw_sym in (({"fill_value": "extrapolate"}, {"fill_value": "extrapolate"}),
                                ({"fill_value": (1.5, -2.5), "bounds_error": False},
                                 {"fill_value": (Q("1.5"), Q("-2.5")), "bounds_error": False})):
            real = interpolate.interp1d(xs, ys, **kw_real)
            for q in qs:
                got = run(lambda: Interp1d(SymArray(X), SymArray(Y), **kw_sym)(Q(repr(q))))
                job.validate("interp1d", float(got), float(real(q)), inputs={"x": xs, "y": ys, "q": q, **{k: str(v) for k, v in kw_real.items()}})
        real = interpolate.interp1d(xs, ys, fill_value="extrapolate", assume_sorted=True)
        for q in qs:
            got = run(lambda: Interp1d(SymArray(X), SymArray(Y), fill_value="extrapolate", assume_sorted=True)(Q(repr(q))))
            job.validate("interp1d(assume_sorted=True)", float(got), float(real(q)), inputs={"x": xs, "y": ys, "q": q})
        real = integrate.cumulative_trapezoid(ys, xs, initial=0)
        got = run(lambda: cumulative_trapezoid(SymArray(Y), SymArray(X), initial=0))
        for a, b in zip(got.d, real):
            job.validate("cumulative_trapezoid", float(a), float(b), inputs={"x": xs, "y": ys})
        g_real = np.gradient(np.array(ys), np.array(xs))
        g_sym = run(lambda: npx.gradient(SymArray(Y), SymArray(X)))
        for a, b in zip(g_sym.d, g_real):
            job.validate("np.gradient", float(a), float(b), inputs={"x": xs, "y": ys})
    n = 4
    lo, di, up = [r.uniform(-1, 0) for _ in range(n - 1)], [r.uniform(1, 3) for _ in range(n)], [r.uniform(-1, 0) for _ in range(n - 1)]
    real = sparse.diags([lo, di, up], [-1, 0, 1], format="csr").toarray()
    got = run(lambda: diags([SymArray([Q(repr(v)) for v in lo]), SymArray([Q(repr(v)) for v in di]),
                             SymArray([Q(repr(v)) for v in up])], [-1, 0, 1], format="csr"))
    for i in range(n):
        for j in range(n):
            job.validate("sparse.diags", float(got.rows[i][j]), float(real[i, j]), inputs={"i": i, "j": j})
    # numpy element/aliasing semantics the properties depend on
    for trial in range(3):
        n = r.randint(3, 6)
        xs = sorted(r.uniform(0, 100) for _ in range(n))
        ys = [r.uniform(-5, 5) for _ in range(n)]
        qs = [xs[0], xs[-1], xs[1], (xs[0] + xs[1]) / 2, xs[0] - 3, xs[-1] + 7, r.uniform(xs[0], xs[-1])]
        X, Y = [Q(repr(v)) for v in xs], [Q(repr(v)) for v in ys]
        for kw in ({}, {"left": -1.25, "right": 9.5}):
            real = np.interp(qs, xs, ys, **kw)
            got = run(lambda: npx.interp(SymArray([Q(repr(q)) for q in qs]), SymArray(X), SymArray(Y), **{k: Q(repr(v)) for k, v in kw.items()}))
            for a, b, q in zip(got.d, real, qs):
                job.validate("np.interp", float(a), float(b), inputs={"x": xs, "y": ys, "q": q, **kw})
        real = np.diff(np.array(ys), prepend=0.0)
        got = run(lambda: npx.diff(SymArray(Y), prepend=Q(0)))
        for a, b in zip(got.d, real):
            job.validate("np.diff(prepend)", float(a), float(b), inputs={"y": ys})
        mask = [r.random() < 0.5 for _ in range(n)]
        vals = [r.uniform(-9, 9) for _ in range(max(1, sum(mask)))]
        for name in ("putmask", "place"):
            ra = np.array(ys)
            getattr(np, name)(ra, np.array(mask), np.array(vals))

            def f():
                sa = SymArray(list(Y))
                getattr(npx, name)(sa, SymArray(list(mask), "bool"), SymArray([Q(repr(v)) for v in vals]))
                return sa
            got = run(f)
            for a, b in zip(got.d, ra):
                job.validate(f"np.{name}", float(a), float(b), inputs={"y": ys, "mask": mask, "values": vals})
        ra = np.array(ys)
        alias = ra
        ra -= 1.5
        ra /= 4.0
        ra *= 3.0

        def g():
            sa = SymArray(list(Y))
            al = sa
            sa -= Q("1.5")
            sa /= Q(4)
            sa *= Q(3)
            return al
        got = run(g)
        for a, b in zip(got.d, alias):
            job.validate("in-place -=, /=, *= through an alias", float(a), float(b), inputs={"y": ys})
        real = np.clip(np.array(ys), -1.0, 2.0)
        got = run(lambda: npx.clip(SymArray(Y), Q(-1), Q(2)))
        for a, b in zip(got.d, real):
            job.validate("np.clip", float(a), float(b), inputs={"y": ys})
    try:
        ia = np.arange(3)
        ia /= 2
        raised_real = False
    except TypeError:
        raised_real = True
    try:
        sa = npx.arange(3)
        sa /= 2
        raised_sym = False
    except TypeError:
        raised_sym = True
    job.validate("int array /= raises TypeError", float(raised_sym), float(raised_real))
    for trial in range(3):
        n = r.randint(3, 6)
        ys = [r.uniform(-5, 5) for _ in range(n)]
        xs = sorted(r.uniform(0, 100) for _ in range(n))
        if trial == 1:
            xs.reverse()            # searchsorted on a descending array: numpy bisects it as given
        qs = [xs[0], xs[-1], xs[1], r.uniform(-5, 105), r.uniform(0, 100)]
        Y = [Q(repr(v)) for v in ys]
        X = [Q(repr(v)) for v in xs]
        got = run(lambda: npx.argsort(SymArray(Y)))
        job.validate("np.argsort", float([int(j) for j in got.d] == np.argsort(np.array(ys), kind="stable").tolist()), 1.0, inputs={"y": ys})
        for side in ("left", "right"):
            got = run(lambda: npx.searchsorted(SymArray(X), SymArray([Q(repr(q)) for q in qs]), side=side))
            job.validate(f"np.searchsorted(side={side})", float([int(j) for j in got.d] == np.searchsorted(np.array(xs), np.array(qs), side=side).tolist()), 1.0,
                         inputs={"x": xs, "q": qs})
        A = np.array(ys)
        for label, want, sym in (
                ("np.prod", np.prod(A), lambda: npx.prod(SymArray(Y))), ("np.trapezoid", np.trapezoid(A, np.array(xs)), lambda: npx.trapezoid(SymArray(Y), SymArray(X))),
                ("np.average(weights)", np.average(A, weights=np.abs(A) + 1), lambda: npx.average(SymArray(Y), weights=SymArray([abs(v) + 1 for v in Y]))),
                ("np.mean", np.mean(A), lambda: npx.mean(SymArray(Y))), ("np.sign sum", np.sign(A).sum(), lambda: npx.sum(npx.sign(SymArray(Y)))),
                ("np.cumprod last", np.cumprod(A)[-1], lambda: npx.cumprod(SymArray(Y)).d[-1]), ("np.repeat", np.repeat(A, 2)[3], lambda: npx.repeat(SymArray(Y), 2).d[3]),
                ("np.tile", np.tile(A, 2)[n + 1], lambda: npx.tile(SymArray(Y), 2).d[n + 1]), ("np.divide", np.divide(A, 4.0)[1], lambda: npx.divide(SymArray(Y), Q(4)).d[1]),
                ("np.subtract", np.subtract(A, A[::-1])[0], lambda: npx.subtract(SymArray(Y), SymArray(list(reversed(Y)))).d[0])):
            job.validate(label, float(run(sym)), float(want), inputs={"y": ys})
        got = run(lambda: npx.atleast_1d(Q(repr(ys[0]))).squeeze())
        job.validate("np.atleast_1d(scalar).squeeze()", float(got), float(np.atleast_1d(ys[0]).squeeze()))
    from scipy.ndimage import uniform_filter1d as real_u
    for w in (1, 2, 3):
        for kpos in (None, 0, 2, 4):
            vals = [float(v) for v in range(1, 7)]
            arr = np.array(vals)
            sym = [Q(v) for v in range(1, 7)]
            if kpos is not None:
                from .pd_shim import NA
                arr[kpos] = np.nan
                sym[kpos] = NA
            got = run(lambda: uniform_filter1d(SymArray(list(sym)), size=w))
            want = real_u(arr, size=w)
            same = all((getattr(a, "__sx_nan__", False) and np.isnan(b)) or (not getattr(a, "__sx_nan__", False) and not np.isnan(b) and abs(float(a) - b) < 1e-12)
                       for a, b in zip(got.d, want))
            job.validate(f"uniform_filter1d(size={w}, NaN at {kpos})", float(same), 1.0)
    _selftest_pandas_and_ints(job, r, run, npx)


def _selftest_pandas_and_ints(job, r, run, npx):
    """Index-label semantics of Series / DataFrame and numpy's integer dtype rules, against the real libraries."""
    import numpy as np
    import pandas as pd
    from ..sx.sym import QI
    from . import pd_shim
    n = 4
    vals = [r.uniform(1, 9) for _ in range(n)]
    V = [Q(repr(v)) for v in vals]
    for labels in ([3, 2, 1, 0], [2, 0, 3, 1], [5, 6, 8, 9]):
        rs = pd.Series(vals, index=labels)
        for key in (0, 3, 5):
            try:
                want = float(rs[key])
            except KeyError:
                want = None

            def f():
                s = pd_shim.SymSeries(V, "f8", labels)
                try:
                    return s[QI(key)]
                except KeyError:
                    return None
            got = run(f)
            job.validate(f"Series[{key}] by label, labels {labels}", -1.0 if got is None else float(got), -1.0 if want is None else want)
        got = run(lambda: (pd_shim.SymSeries(V, "f8", labels) * Q(2))[1:3])
        want = (rs * 2)[1:3]
        for a, b in zip(got.d, want.to_numpy()):
            job.validate("Series slice is positional", float(a), float(b))
        job.validate("Series slice keeps labels", float(got.labels == list(want.index)), 1.0)
        got = run(lambda: npx.interp(Q(repr(vals[0])), pd_shim.SymSeries(sorted(V), "f8", labels), pd_shim.SymSeries(V, "f8", labels)))
        job.validate("np.interp on Series is positional", float(got), float(np.interp(vals[0], pd.Series(sorted(vals), index=labels), rs)))
    rf = pd.DataFrame({"a": vals, "b": [1.0, -1.0, 2.0, -2.0]})
    kept = rf[rf["b"] > 0]

    def g():
        fr = pd_shim.SymFrame({"a": SymArray(V), "b": SymArray([Q(1), Q(-1), Q(2), Q(-2)])})
        k = fr[fr["b"] > 0]
        try:
            first = k["a"][QI(0)]
        except KeyError:
            first = None
        try:
            second = k["a"][QI(1)]
        except KeyError:
            second = None
        return list(k.index.d), first, second, k.reset_index(drop=True)["a"][QI(1)]
    lab, first, second, after = run(g)
    job.validate("row filter keeps labels", float([int(x) for x in lab] == list(kept.index)), 1.0)
    job.validate("filtered column [0] by label", float(first), float(kept["a"][0]))
    job.validate("filtered column [1] is a KeyError", float(second is None), float(1 not in kept.index))
    job.validate("reset_index(drop=True) restores positions", float(after), float(kept.reset_index(drop=True)["a"][1]))
    # integer dtype rules: python scalars are weak, integer arithmetic stays integer, result_type
    ia = np.array([3, 4], dtype=np.int32)
    for label, real, sym in (
            ("int32 * python int", (ia * 400).dtype, lambda: (SymArray([Q(3), Q(4)], "i4") * QI(400)).dtype_tag),
            ("int32 ** 2 * python int", (ia ** 2 * 400).dtype, lambda: (SymArray([Q(3), Q(4)], "i4") ** QI(2) * QI(400)).dtype_tag),
            ("python float * int32", (1.5 * ia).dtype, lambda: (Q("1.5") * SymArray([Q(3), Q(4)], "i4")).dtype_tag),
            ("result_type(int64 array, python int)", np.result_type(ia.astype(np.int64), 650), lambda: npx.result_type(SymArray([Q(3)], "i8"), QI(650)).tag),
            ("result_type(int64 array, python float)", np.result_type(ia.astype(np.int64), 650.0), lambda: npx.result_type(SymArray([Q(3)], "i8"), Q("650.5")).tag),
            ("result_type(int32 array, float32)", np.result_type(ia, np.float32), lambda: npx.result_type(SymArray([Q(3)], "i4"), np.float32).tag)):
        got = run(sym)
        want = {"int32": "i4", "int64": "i8", "float64": "f8", "float32": "f4"}[np.dtype(real).name]
        job.validate(f"dtype of {label}", float(got == want), 1.0, inputs={"shim": got, "numpy": want})
