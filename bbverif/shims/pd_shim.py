"""Symbolic stand-in for the subset of pandas the repository uses (`SymFrame`)."""
from __future__ import annotations

from ..sx.sym import Unsupported
from .np_shim import SymArray, SymRec, asarray, _is_scalar


class SymFrame:
    """Ordered mapping column name -> 1-D SymArray, with the DataFrame operations the repository uses.
    A column read returns the column array itself (pandas returns a Series that may be a view); the
    repository never writes through a column it has read, and `.copy()` copies every column, which
    is what the non-mutation claims of C09 rest on."""
    __array_priority_sx__ = True

    def __init__(self, data=None, columns=None):
        self.cols = {}
        if data is None:
            return
        if isinstance(data, SymFrame):
            for k, v in data.cols.items():
                self.cols[k] = v.copy()
        elif isinstance(data, SymRec):
            for k, v in data.cols.items():
                self.cols[k] = v.copy()
        elif isinstance(data, dict):
            n = None
            for k, v in data.items():
                a = asarray(v) if not _is_scalar(v) else None
                if a is None:
                    raise Unsupported("scalar column in DataFrame constructor")
                a = a.copy()
                if n is not None and len(a) != n:
                    raise ValueError("All arrays must be of the same length")
                n = len(a)
                self.cols[k] = a
        else:
            raise Unsupported(f"DataFrame({type(data).__name__})")

    # mapping protocol (iteration yields column names, like pandas)
    def __iter__(self):
        return iter(self.cols)

    def __contains__(self, k):
        return k in self.cols

    def keys(self):
        return self.cols.keys()

    @property
    def columns(self):
        return list(self.cols)

    def __len__(self):
        return len(next(iter(self.cols.values()))) if self.cols else 0

    @property
    def shape(self):
        return (len(self), len(self.cols))

    def __getattr__(self, name):
        cols = self.__dict__.get("cols", {})
        if name in cols:
            return cols[name]
        raise AttributeError(name)

    def __getitem__(self, k):
        if isinstance(k, str):
            if k not in self.cols:
                raise KeyError(k)
            return self.cols[k]
        if isinstance(k, list):
            out = SymFrame()
            for c in k:
                if c not in self.cols:
                    raise KeyError(f"{c} not in index")
                out.cols[c] = self.cols[c].copy()
            return out
        if isinstance(k, tuple):
            raise KeyError(k)
        if isinstance(k, SymArray) and k.dtype_tag == "bool":
            if len(k) != len(self):
                raise ValueError("Item wrong length")
            idx = [j for j, m in enumerate(k.d) if bool(m)]   # splits the path per row
            out = SymFrame()
            for c, a in self.cols.items():
                out.cols[c] = SymArray([a.d[j] for j in idx], a.dtype_tag)
            return out
        raise Unsupported(f"DataFrame indexing with {type(k).__name__}")

    def __setitem__(self, k, v):
        if not isinstance(k, str):
            raise Unsupported("DataFrame assignment with a non-string key")
        if _is_scalar(v):
            from .np_shim import NP
            v = NP().full(len(self), v)
        v = asarray(v)
        if self.cols and len(v) != len(self):
            raise ValueError(f"Length of values ({len(v)}) does not match length of index ({len(self)})")
        self.cols[k] = v.copy()

    def copy(self, deep=True):
        return SymFrame(self)

    @property
    def loc(self):
        return _Loc(self)

    def dropna(self, subset=None, how="any"):
        cols = subset or list(self.cols)
        keep = [j for j in range(len(self)) if not any(isinstance(self.cols[c].d[j], _NA) for c in cols)]
        out = SymFrame()
        for c, a in self.cols.items():
            out.cols[c] = SymArray([a.d[j] for j in keep], a.dtype_tag)
        return out

    def reset_index(self, drop=False):
        return self.copy()

    def __copy__(self):
        return self.copy()

    def __deepcopy__(self, memo):
        return self.copy()

    def to_records(self, index=True):
        if index:
            raise Unsupported("to_records(index=True)")
        return SymRec({k: v.copy() for k, v in self.cols.items()})

    def rename(self, columns=None):
        out = SymFrame()
        for k, v in self.cols.items():
            out.cols[(columns or {}).get(k, k)] = v.copy()
        return out

    def __repr__(self):
        return f"SymFrame({list(self.cols)}, rows={len(self)})"


def concat(frames, axis=0):
    if axis != 1:
        raise Unsupported("pd.concat axis=0")
    out = SymFrame()
    n = None
    for f in frames:
        if n is not None and len(f) != n:
            raise Unsupported("concat of frames with different lengths")
        n = len(f)
        for k, v in f.cols.items():
            out.cols[k] = v.copy()
    return out


def notna(x):
    """Symbolic values are real numbers; NaN entries are modelled by the harness as the sentinel NA."""
    x = asarray(x)
    return x._map(lambda v: not isinstance(v, _NA), "bool")


def isna(x):
    x = asarray(x)
    return x._map(lambda v: isinstance(v, _NA), "bool")


class _Loc:
    """DataFrame.loc[row mask] / .loc[row mask, column list]."""

    def __init__(self, frame):
        self.frame = frame

    def __getitem__(self, k):
        cols = None
        if isinstance(k, tuple):
            k, cols = k
        out = self.frame[k] if not (isinstance(k, slice) and k == slice(None)) else self.frame.copy()
        if cols is not None:
            out = out[cols] if isinstance(cols, list) else out[cols]
        return out


class _NA:
    """A missing value (NaN): comparisons are false, arithmetic propagates it."""
    __sx_nan__ = True

    def __repr__(self):
        return "NA"

    def _prop(self, *a, **k):
        return self
    __add__ = __radd__ = __sub__ = __rsub__ = __mul__ = __rmul__ = __truediv__ = __rtruediv__ = __neg__ = __abs__ = _prop
    __pow__ = __rpow__ = _prop

    def _false(self, o):
        return False
    __lt__ = __le__ = __gt__ = __ge__ = _false


NA = _NA()


class PD:
    DataFrame = SymFrame
    concat = staticmethod(concat)
    notna = staticmethod(notna)
    isna = staticmethod(isna)
    notnull = staticmethod(notna)
    isnull = staticmethod(isna)
