"""Symbolic stand-in for the subset of pandas the repository uses (`SymFrame`)."""
from __future__ import annotations

from ..sx.sym import Unsupported, Q, concrete, is_intlike
from .np_shim import SymArray, SymRec, asarray, _is_scalar


def _plain(a: SymArray) -> SymArray:
    """The values of a Series as a plain array sharing the Series' buffer (what `np.asarray(series)` is)."""
    r = SymArray([], a.dtype_tag)
    r.d = a.d
    return r


class SymSeries(SymArray):
    """A column read from a frame whose index labels are not 0..n-1 in row order (after `sort_values`, a row filter,
    `dropna` ...).  Element access with an integer is by *label*, not position (`s[0]` is the row labelled 0, KeyError if
    there is none); slices, masks, iteration, `len` and every numpy / scipy function are positional.  Arithmetic keeps the
    labels (same-index operands align position by position; different labels are outside the model)."""

    def __init__(self, data, dtype, labels):
        super().__init__(list(data), dtype)
        self.labels = list(labels)
        if len(self.labels) != len(self.d):
            raise ValueError("Length of values does not match length of index")

    def _wrap(self, r):
        if isinstance(r, SymArray) and not isinstance(r, SymSeries) and r.ndim == 1 and len(r.d) == len(self.labels):
            return SymSeries(r.d, r.dtype_tag, self.labels)
        return r

    def __getitem__(self, i):
        if _is_scalar(i) and not isinstance(i, bool):
            c = concrete(i)
            if c is None:
                raise Unsupported("symbolic label lookup in a Series")
            if c.denominator == 1 and int(c) in self.labels:
                return self.d[self.labels.index(int(c))]
            raise KeyError(int(c) if c.denominator == 1 else float(c))
        if (isinstance(i, SymArray) and i.dtype_tag in ("i8", "i4")) or (isinstance(i, list) and i and all(is_intlike(x) and not isinstance(x, bool) for x in i)):
            # an integer array / list selects BY LABEL on a Series (positions only under the default labels)
            want = [int(concrete(x)) for x in (i.d if isinstance(i, SymArray) else i)]
            idx = []
            for w in want:
                if w not in self.labels:
                    raise KeyError(f"{w} not in index")
                idx.append(self.labels.index(w))
            return SymSeries([self.d[j] for j in idx], self.dtype_tag, [self.labels[j] for j in idx])
        pos = SymArray([Q(j) for j in range(len(self.d))], "i8")[i]
        if isinstance(pos, SymArray):
            idx = [int(p) for p in pos.d]
            return SymSeries([self.d[j] for j in idx], self.dtype_tag, [self.labels[j] for j in idx])
        return self.d[int(pos)]

    @property
    def iloc(self):
        return _plain(self)

    @property
    def index(self):
        return SymArray([Q(x) for x in self.labels], "i8")

    @property
    def values(self):
        return _plain(self)

    def to_numpy(self, dtype=None, copy=False):
        return SymArray(list(self.d), self.dtype_tag)

    def __sx_plain__(self):
        return _plain(self)

    def copy(self):
        return SymSeries(list(self.d), self.dtype_tag, self.labels)

    def reset_index(self, drop=False):
        if not drop:
            raise Unsupported("Series.reset_index(drop=False)")
        return SymArray(list(self.d), self.dtype_tag)

    def _map(self, f, dtype=None):
        return self._wrap(SymArray._map(self, f, dtype))

    def _bin(self, o, f, dtype=None, reflected=False):
        if isinstance(o, SymSeries) and o.labels != self.labels:
            # pandas aligns on labels: the result carries the sorted union of the labels, a value where both operands have
            # the label and NaN elsewhere (unique labels only; comparisons between differently labelled Series raise)
            if len(set(self.labels)) != len(self.labels) or len(set(o.labels)) != len(o.labels):
                raise Unsupported("arithmetic between Series with repeated, different index labels")
            if dtype == "bool":
                raise ValueError("Can only compare identically-labeled Series objects")
            a, b = (o, self) if reflected else (self, o)
            lab = sorted(set(self.labels) | set(o.labels))
            vals = []
            for l in lab:
                if l in self.labels and l in o.labels:
                    x, y = self.d[self.labels.index(l)], o.d[o.labels.index(l)]
                    one = SymArray._bin(SymArray([x], self.dtype_tag), SymArray([y], o.dtype_tag), f, dtype)
                    vals.append(one.d[0])
                    tag = one.dtype_tag
                else:
                    vals.append(NA)
            return SymSeries(vals, "f8", lab)
        r = SymArray._bin(self, _plain(o) if isinstance(o, SymSeries) else o, f, dtype)
        return self._wrap(r)


class SymFrame:
    """Ordered mapping column name -> 1-D SymArray, with the DataFrame operations the repository uses.
    A column read returns the column array itself (pandas returns a Series that may be a view); the
    repository never writes through a column it has read, and `.copy()` copies every column, which
    is what the non-mutation claims of C09 rest on."""
    __array_priority_sx__ = True

    def __init__(self, data=None, columns=None, index=None):
        self.cols = {}
        self.index_labels = None if index is None else [int(x) for x in index]   # None: RangeIndex 0..n-1
        if data is None:
            return
        if isinstance(data, SymFrame):
            if index is None:
                self.index_labels = None if data.index_labels is None else list(data.index_labels)
            for k, v in data.cols.items():
                self.cols[k] = v.copy()
        elif isinstance(data, SymRec):
            for k, v in data.cols.items():
                self.cols[k] = v.copy()
        elif isinstance(data, dict):
            n = None
            for k, v in data.items():
                a = asarray(v) if not _is_scalar(v) else None
                if a is None:
                    raise Unsupported("scalar column in DataFrame constructor")
                a = a.copy()
                if n is not None and len(a) != n:
                    raise ValueError("All arrays must be of the same length")
                n = len(a)
                self.cols[k] = a
        else:
            raise Unsupported(f"DataFrame({type(data).__name__})")

    # mapping protocol (iteration yields column names, like pandas)
    def __iter__(self):
        return iter(self.cols)

    def __contains__(self, k):
        return k in self.cols

    def keys(self):
        return self.cols.keys()

    @property
    def columns(self):
        return list(self.cols)

    def __len__(self):
        return len(next(iter(self.cols.values()))) if self.cols else 0

    @property
    def shape(self):
        return (len(self), len(self.cols))

    def __getattr__(self, name):
        cols = self.__dict__.get("cols", {})
        if name in cols:
            return self._col(cols[name])
        if not name.startswith("_"):
            import pandas
            if hasattr(pandas.DataFrame, name):
                # a real DataFrame has this: not modelled is an honest 'cannot analyse', not an error of the code
                raise Unsupported(f"DataFrame.{name} is not modelled")
        raise AttributeError(name)

    def _labelled(self):
        lab = self.__dict__.get("index_labels")
        return lab is not None and lab != list(range(len(lab)))

    def _col(self, a):
        """A column as the caller sees it: the array itself under the default index, a label-carrying Series (sharing
        the column's buffer) otherwise."""
        if not self._labelled():
            return a
        r = SymSeries([], a.dtype_tag, [])
        r.d = a.d
        r.labels = list(self.index_labels)
        return r

    def _sub(self, idx):
        out = SymFrame()
        for c, a in self.cols.items():
            out.cols[c] = SymArray([a.d[j] for j in idx], a.dtype_tag)
        lab = self.index_labels if self.index_labels is not None else list(range(len(self)))
        out.index_labels = [lab[j] for j in idx]
        if out.index_labels == list(range(len(idx))):
            out.index_labels = None
        return out

    def __getitem__(self, k):
        if isinstance(k, str):
            if k not in self.cols:
                raise KeyError(k)
            return self._col(self.cols[k])
        if isinstance(k, list):
            out = SymFrame(index=self.index_labels)
            for c in k:
                if c not in self.cols:
                    raise KeyError(f"{c} not in index")
                out.cols[c] = self.cols[c].copy()
            return out
        if isinstance(k, tuple):
            raise KeyError(k)
        if isinstance(k, SymArray) and k.dtype_tag == "bool":
            if len(k) != len(self):
                raise ValueError("Item wrong length")
            idx = [j for j, m in enumerate(k.d) if bool(m)]   # splits the path per row
            return self._sub(idx)                                # the kept rows keep their labels, like pandas
        raise Unsupported(f"DataFrame indexing with {type(k).__name__}")

    def __setitem__(self, k, v):
        if not isinstance(k, str):
            raise Unsupported("DataFrame assignment with a non-string key")
        if _is_scalar(v):
            from .np_shim import NP
            v = NP().full(len(self), v)
        v = asarray(v)
        if isinstance(v, SymSeries):
            lab = self.index_labels if self.index_labels is not None else list(range(len(self)))
            if self.cols and v.labels != lab:
                raise Unsupported("column assignment from a Series with other index labels (alignment is not modelled)")
            v = _plain(v)
        if self.cols and len(v) != len(self):
            raise ValueError(f"Length of values ({len(v)}) does not match length of index ({len(self)})")
        self.cols[k] = v.copy()

    def copy(self, deep=True):
        return SymFrame(self)

    def assign(self, **cols):
        out = self.copy()
        for k, v in cols.items():
            out[k] = v(out) if callable(v) else v
        return out

    def head(self, n=5):
        return self._sub(list(range(len(self)))[:n])

    def tail(self, n=5):
        return self._sub(list(range(len(self)))[-n:] if n else [])

    def to_dict(self, orient="dict"):
        if orient != "list":
            raise Unsupported(f"DataFrame.to_dict(orient={orient!r})")
        return {k: list(v.d) for k, v in self.cols.items()}

    def items(self):
        return [(k, self._col(v)) for k, v in self.cols.items()]

    @property
    def loc(self):
        return _Loc(self)

    def dropna(self, subset=None, how="any"):
        cols = subset or list(self.cols)
        keep = [j for j in range(len(self)) if not any(isinstance(self.cols[c].d[j], _NA) for c in cols)]
        return self._sub(keep)

    def reset_index(self, drop=False):
        if not drop and self._labelled():
            raise Unsupported("reset_index(drop=False) on a labelled frame")
        out = self.copy()
        out.index_labels = None
        return out

    @property
    def index(self):
        lab = self.index_labels if self.index_labels is not None else list(range(len(self)))
        return SymArray([Q(x) for x in lab], "i8")

    @property
    def iloc(self):
        return _ILoc(self)

    def __copy__(self):
        return self.copy()

    def __deepcopy__(self, memo):
        return self.copy()

    def to_records(self, index=True):
        if index:
            raise Unsupported("to_records(index=True)")
        return SymRec({k: v.copy() for k, v in self.cols.items()})

    def rename(self, columns=None):
        out = SymFrame(index=self.index_labels)
        for k, v in self.cols.items():
            out.cols[(columns or {}).get(k, k)] = v.copy()
        return out

    def __repr__(self):
        return f"SymFrame({list(self.cols)}, rows={len(self)})"


def concat(frames, axis=0):
    if axis != 1:
        raise Unsupported("pd.concat axis=0")
    labs = [f.index_labels for f in frames if isinstance(f, SymFrame)]
    if any(x != labs[0] for x in labs):
        raise Unsupported("pd.concat(axis=1) of frames with different index labels (alignment is not modelled)")
    out = SymFrame(index=labs[0] if labs else None)
    n = None
    for f in frames:
        if n is not None and len(f) != n:
            raise Unsupported("concat of frames with different lengths")
        n = len(f)
        for k, v in f.cols.items():
            out.cols[k] = v.copy()
    return out


def notna(x):
    """Symbolic values are real numbers; NaN entries are modelled by the harness as the sentinel NA."""
    x = asarray(x)
    return x._map(lambda v: not isinstance(v, _NA), "bool")


def isna(x):
    x = asarray(x)
    return x._map(lambda v: isinstance(v, _NA), "bool")


class _Loc:
    """DataFrame.loc[row mask] / .loc[row mask, column list]."""

    def __init__(self, frame):
        self.frame = frame

    def __getitem__(self, k):
        cols = None
        if isinstance(k, tuple):
            k, cols = k
        if (isinstance(k, SymArray) and k.dtype_tag in ("i8", "i4")) or (isinstance(k, list) and k and all(is_intlike(x) for x in k)):
            # selection BY LABEL: for each requested label, in the order requested, every row that carries it (a label that
            # occurs twice in the index brings both rows, once per request - what pandas does on a non-unique index)
            want = [int(concrete(x)) for x in (k.d if isinstance(k, SymArray) else k)]
            f = self.frame
            lab = f.index_labels if f.index_labels is not None else list(range(len(f)))
            idx = []
            for w in want:
                hit = [j for j, l in enumerate(lab) if l == w]
                if not hit:
                    raise KeyError(f"{w} not in index")
                idx += hit
            out = f._sub(idx)
        else:
            out = self.frame[k] if not (isinstance(k, slice) and k == slice(None)) else self.frame.copy()
        if cols is not None:
            out = out[cols] if isinstance(cols, list) else out[cols]
        return out


class _ILoc:
    def __init__(self, frame):
        self.frame = frame

    def __getitem__(self, k):
        if isinstance(k, slice):
            return self.frame._sub(list(range(len(self.frame)))[k])
        raise Unsupported("DataFrame.iloc with a non-slice key")


class _NA:
    """A missing value (NaN): comparisons are false, arithmetic propagates it."""
    __sx_nan__ = True

    def __repr__(self):
        return "NA"

    def _prop(self, *a, **k):
        return self
    __add__ = __radd__ = __sub__ = __rsub__ = __mul__ = __rmul__ = __truediv__ = __rtruediv__ = __neg__ = __abs__ = _prop
    __pow__ = __rpow__ = _prop

    def _false(self, o):
        return False
    __lt__ = __le__ = __gt__ = __ge__ = _false


NA = _NA()


class PD:
    DataFrame = SymFrame
    concat = staticmethod(concat)
    notna = staticmethod(notna)
    isna = staticmethod(isna)
    notnull = staticmethod(notna)
    isnull = staticmethod(isna)
