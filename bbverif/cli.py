"""Command line: ./check <ID> [--tier quick|thorough] [--replay FILE]"""
from __future__ import annotations

import argparse
import importlib
import json
import os
import sys
import traceback


def main():
    # BBVERIF_REPO=<tree>: analyse (and replay against) another checkout of the repository, e.g. a scratch
    # worktree carrying a seeded change.  Default /repo.  The real package is imported from that tree too.
    repo = os.environ.get("BBVERIF_REPO")
    if repo:
        sys.path.insert(0, os.path.join(repo, "src"))
    ap = argparse.ArgumentParser()
    ap.add_argument("pid")
    ap.add_argument("--tier", default=os.environ.get("VERIF_TIER", "quick"), choices=["quick", "thorough"])
    ap.add_argument("--replay")
    a = ap.parse_args()
    try:
        seed = int(os.environ.get("VERIF_SEED", "0"))
    except ValueError:
        seed = 0
    pid = a.pid.upper()
    modname = f"bbverif.props.{pid.lower()}"
    try:
        mod = importlib.import_module(modname)
    except ModuleNotFoundError:
        print(f"HARNESS-ERROR: no check for {pid}", file=sys.stderr)
        return 3
    if a.replay:
        with open(a.replay) as f:
            data = json.load(f)
        fn = getattr(mod, data["details"].get("replayer", "replay"), None)
        if fn is None:
            print("HARNESS-ERROR: replay file names no replayer", file=sys.stderr)
            return 3
        ok, details = fn(data["model"], **data["details"].get("replayer_kwargs", {}))
        print(json.dumps(details, indent=1, default=repr))
        if ok:
            print(f"VIOLATION property={pid} replay={a.replay}")
            return 1
        print("not reproduced on this tree")
        return 0
    from . import harness
    try:
        return harness.run_check(pid, modname, a.tier, seed)
    except Exception:  # noqa: BLE001
        traceback.print_exc()
        print(f"HARNESS-ERROR property={pid}: runner crashed", file=sys.stderr)
        return 3


if __name__ == "__main__":
    sys.exit(main())
