"""Canonical term language of the SX engine.

Real-valued terms are *Laurent polynomials with exact rational coefficients over atoms*;
atoms are hash-consed:

    var(name)            a symbolic input
    E(p)                 exp(p)            (p a polynomial)
    L(p)                 ln(p)             (p a polynomial with leading coefficient 1, or one atom)
    lam(c)               ln(c) for a prime c (other constants are decomposed into primes)
    inv(p)               1/p for a non-monomial polynomial p (monomials are inverted exactly)
    ite(b, p, q)         if b then p else q
    uf(name, p1..pk)     application of an uninterpreted function

Boolean terms: le0(p) (p <= 0), eq0(p), not, and, or, constants.

Polynomials are kept in a canonical expanded form, so syntactic equality of two `Poly`
objects is polynomial identity modulo the relations between atoms.  Products of E-atoms are
merged (E(a)E(b) -> E(a+b)), integer multiples of a logarithm inside E are pulled out
(E(a + k L(x)) -> x^k E(a)), ln of a product of positive atoms is split.  Everything done
here is an identity of real arithmetic under the recorded definedness conditions
(denominators non-zero, arguments of ln positive); those conditions are collected by the
context (`sym.Context.defined`) and are discharged or assumed explicitly by the harnesses.
"""
from __future__ import annotations

import math
from fractions import Fraction

MAX_MONOMIALS = 60000


class Unsupported(Exception):
    """The engine cannot represent what the code under analysis asked for."""


# --------------------------------------------------------------------------- atoms

class Atom:
    __slots__ = ("kind", "args", "id", "pos", "name", "scales", "guard")
    _table: dict = {}
    _all: list = []

    def __repr__(self):
        if self.kind == "var":
            return self.args[0]
        if self.kind == "lam":
            return f"ln{self.args[0]}"
        if self.kind == "uf":
            return f"{self.args[0]}({', '.join(map(repr, self.args[1:]))})"
        return f"{self.kind}({', '.join(map(repr, self.args))})"


def _mk_atom(kind, args, pos=False):
    key = (kind,) + tuple(a.key() if isinstance(a, (Poly, BoolT)) else a for a in args)
    a = Atom._table.get(key)
    if a is None:
        a = Atom()
        a.kind, a.args, a.id, a.pos = kind, tuple(args), len(Atom._all), pos
        a.name = None
        a.scales = None
        a.guard = False
        Atom._table[key] = a
        Atom._all.append(a)
    elif pos and not a.pos:
        a.pos = True
    return a


def reset():
    """Forget every hash-consed atom (between independent checks)."""
    Atom._table.clear()
    Atom._all.clear()
    BoolT._table.clear()
    BoolT._n = 0


def var(name, pos=False) -> "Poly":
    return Poly.atom(_mk_atom("var", (name,), pos))


def atom_by_id(i) -> Atom:
    return Atom._all[i]


# --------------------------------------------------------------------------- polynomials

class Poly:
    """dict {monomial: coef}; monomial = tuple of (atom_id, int_exp) sorted by atom id."""
    __slots__ = ("terms", "_key", "_hash")

    def __init__(self, terms):
        self.terms = terms
        self._key = None
        self._hash = None

    # constructors
    @staticmethod
    def const(c) -> "Poly":
        c = Fraction(c)
        return Poly({(): c}) if c != 0 else Poly({})

    @staticmethod
    def atom(a: Atom, e=1) -> "Poly":
        return Poly({((a.id, e),): Fraction(1)})

    def key(self):
        if self._key is None:
            self._key = tuple(sorted(self.terms.items()))
        return self._key

    def __hash__(self):
        if self._hash is None:
            self._hash = hash(self.key())
        return self._hash

    def __eq__(self, o):
        return isinstance(o, Poly) and self.terms == o.terms

    def is_const(self):
        return not self.terms or (len(self.terms) == 1 and () in self.terms)

    def const_value(self) -> Fraction:
        return self.terms.get((), Fraction(0))

    def is_zero(self):
        return not self.terms

    def atoms(self):
        s = set()
        for m in self.terms:
            for (i, _) in m:
                s.add(i)
        return s

    def single_monomial(self):
        if len(self.terms) == 1:
            (m, c), = self.terms.items()
            return m, c
        return None

    def __repr__(self):
        if not self.terms:
            return "0"
        out = []
        for m, c in sorted(self.terms.items()):
            f = "*".join((repr(Atom._all[i]) + (f"^{e}" if e != 1 else "")) for i, e in m)
            cs = str(c)
            out.append(f"{cs}*{f}" if f and c != 1 else (f or cs))
        s = " + ".join(out)
        return s if len(s) < 400 else s[:400] + "..."


ZERO = Poly({})
ONE = Poly({(): Fraction(1)})


def p_add(a: Poly, b: Poly) -> Poly:
    if not a.terms:
        return b
    if not b.terms:
        return a
    if len(a.terms) < len(b.terms):
        a, b = b, a
    t = dict(a.terms)
    for m, c in b.terms.items():
        v = t.get(m)
        if v is None:
            t[m] = c
        else:
            v = v + c
            if v == 0:
                del t[m]
            else:
                t[m] = v
    return Poly(t)


def p_scale(a: Poly, c) -> Poly:
    c = Fraction(c)
    if c == 0:
        return ZERO
    if c == 1:
        return a
    return Poly({m: v * c for m, v in a.terms.items()})


def p_neg(a):
    return p_scale(a, -1)


def p_sub(a, b):
    return p_add(a, p_neg(b))


def _mono_mul(m1, m2):
    """Multiply two monomials.  Returns (monomial, None) in the common case, or (None, Poly) when
    merging E-atoms pulled out a polynomial factor."""
    if not m1:
        return m2, None
    if not m2:
        return m1, None
    d = dict(m1)
    for i, e in m2:
        v = d.get(i, 0) + e
        if v == 0:
            d.pop(i, None)
        else:
            d[i] = v
    # merge E atoms: at most one E atom with exponent 1 per monomial
    eids = [i for i in d if Atom._all[i].kind == "E"]
    if len(eids) > 1 or (len(eids) == 1 and d[eids[0]] != 1):
        arg = ZERO
        for i in eids:
            arg = p_add(arg, p_scale(Atom._all[i].args[0], d[i]))
            del d[i]
        ep = mkE(arg)  # polynomial (may pull out factors)
        rest = Poly({tuple(sorted(d.items())): Fraction(1)})
        return None, p_mul(rest, ep)
    return tuple(sorted(d.items())), None


def p_mul(a: Poly, b: Poly) -> Poly:
    if not a.terms or not b.terms:
        return ZERO
    if len(a.terms) * len(b.terms) > MAX_MONOMIALS:
        raise Unsupported(f"polynomial product too large ({len(a.terms)}x{len(b.terms)})")
    t = {}

    def acc(m, c):
        v = t.get(m)
        if v is None:
            t[m] = c
        else:
            v += c
            if v == 0:
                del t[m]
            else:
                t[m] = v

    for m1, c1 in a.terms.items():
        for m2, c2 in b.terms.items():
            m, poly = _mono_mul(m1, m2)
            c = c1 * c2
            if poly is None:
                acc(m, c)
            else:
                for mm, cc in poly.terms.items():
                    acc(mm, cc * c)
    return Poly(t)


def p_powi(a: Poly, n: int) -> Poly:
    if n == 0:
        return ONE
    if n < 0:
        return p_powi(p_inv(a), -n)
    r = ONE
    base = a
    while n:
        if n & 1:
            r = p_mul(r, base)
        n >>= 1
        if n:
            base = p_mul(base, base)
    return r


def _split_content(p: Poly, need_pos: bool):
    """p = m * rest with m the largest monomial (over atoms; only positive atoms if need_pos)
    dividing every term.  Returns (m as Poly or None, rest)."""
    if len(p.terms) < 2:
        return None, p
    common = None
    for mono in p.terms:
        d = {i: e for i, e in mono if (not need_pos) or Atom._all[i].pos or Atom._all[i].kind == "E"}
        if common is None:
            common = d
        else:
            for i in list(common):
                e = d.get(i)
                if e is None or (e > 0) != (common[i] > 0):
                    del common[i]
                else:
                    common[i] = min(e, common[i]) if e > 0 else max(e, common[i])
        if not common:
            return None, p
    m = tuple(sorted(common.items()))
    rest = {}
    for mono, c in p.terms.items():
        d = dict(mono)
        for i, e in common.items():
            v = d[i] - e
            if v:
                d[i] = v
            else:
                del d[i]
        rest[tuple(sorted(d.items()))] = c
    return Poly({m: Fraction(1)}), Poly(rest)


def _lead_normalise(p: Poly):
    """p = c * p' with c > 0 and |leading coefficient of p'| = 1 (leading = smallest monomial key)."""
    m0 = min(p.terms)
    c = abs(p.terms[m0])
    if c == 1:
        return Fraction(1), p
    return c, p_scale(p, 1 / c)


def p_inv(a: Poly) -> Poly:
    """1/a.  Caller is responsible for the definedness condition a != 0."""
    if not a.terms:
        raise ZeroDivisionError("division by the zero polynomial")
    sm = a.single_monomial()
    if sm is not None:
        m, c = sm
        d = []
        extra = ONE
        for i, e in m:
            at = Atom._all[i]
            if at.kind == "E":
                extra = p_mul(extra, mkE(p_scale(at.args[0], -e)))
            elif at.kind == "inv":
                extra = p_mul(extra, p_powi(at.args[0], e))
            else:
                d.append((i, -e))
        r = Poly({tuple(d): 1 / c})
        return p_mul(r, extra) if extra is not ONE else r
    m, rest = _split_content(a, need_pos=False)
    if m is not None:
        return p_mul(p_inv(m), p_inv(rest))
    c, pn = _lead_normalise(a)
    at = _mk_atom("inv", (pn,), pos=is_pos(pn))
    return Poly({((at.id, 1),): 1 / c})


def p_div(a, b):
    return p_mul(a, p_inv(b))


# --------------------------------------------------------------------------- positivity (syntactic)

def is_pos(p: Poly) -> bool:
    """Sufficient syntactic test for p > 0 wherever the declared-positive atoms are positive:
    every monomial is non-negative and at least one is strictly positive."""
    if not p.terms:
        return False
    strict = False
    for m, c in p.terms.items():
        if c <= 0:
            return False
        allpos = True
        for i, e in m:
            at = Atom._all[i]
            if not at.pos:
                if e % 2:
                    return False
                allpos = False
        strict = strict or allpos
    return strict


def is_nonneg(p: Poly) -> bool:
    for m, c in p.terms.items():
        if c < 0:
            return False
        for i, e in m:
            if not Atom._all[i].pos and e % 2:
                return False
    return True


# --------------------------------------------------------------------------- exp / log

_PRIMES_CACHE: dict = {}


def _factor(n: int):
    if n in _PRIMES_CACHE:
        return _PRIMES_CACHE[n]
    out = {}
    m = n
    p = 2
    while p * p <= m and p < 2_000_000:
        while m % p == 0:
            out[p] = out.get(p, 0) + 1
            m //= p
        p += 1 if p == 2 else 2
    if m > 1:
        out[m] = out.get(m, 0) + 1
    _PRIMES_CACHE[n] = out
    return out


def log_const(c: Fraction) -> Poly:
    """ln(c) as an integer combination of lam(prime) atoms."""
    c = Fraction(c)
    if c <= 0:
        raise Unsupported(f"ln of non-positive constant {c}")
    r = ZERO
    for pr, k in _factor(c.numerator).items():
        r = p_add(r, p_scale(Poly.atom(_mk_atom("lam", (pr,), pos=True)), k))
    for pr, k in _factor(c.denominator).items():
        r = p_add(r, p_scale(Poly.atom(_mk_atom("lam", (pr,), pos=True)), -k))
    return r


def mkLOG(p: Poly, guarded=False) -> Poly:
    """ln(p).  Caller records the definedness condition p > 0.  `guarded`: the logarithm is used under
    an explicit test p > 0 (e.g. x**y with x >= 0); its axioms are then stated under that guard."""
    before = len(Atom._all)
    r = _mkLOG(p)
    if guarded:
        for i in r.atoms():
            at = Atom._all[i]
            if at.kind == "L" and not is_pos(at.args[0]):
                at.guard = True
    return r


def _mkLOG(p: Poly) -> Poly:
    if p.is_const():
        return log_const(p.const_value())
    sm = p.single_monomial()
    if sm is not None:
        m, c = sm
        if c > 0 and all(Atom._all[i].pos or Atom._all[i].kind == "E" for i, _ in m):
            r = log_const(c) if c != 1 else ZERO
            for i, e in m:
                at = Atom._all[i]
                if at.kind == "E":
                    r = p_add(r, p_scale(at.args[0], e))
                elif at.kind == "inv":
                    r = p_sub(r, p_scale(_mkLOG(at.args[0]), e))
                else:
                    la = _mk_atom("L", (Poly.atom(at),))
                    r = p_add(r, p_scale(Poly.atom(la), e))
            return r
        la = _mk_atom("L", (p,))
        return Poly.atom(la)
    mc, rest = _split_content(p, need_pos=True)
    if mc is not None:
        return p_add(_mkLOG(mc), _mkLOG(rest))
    m0 = min(p.terms)
    if p.terms[m0] > 0:
        c, pn = _lead_normalise(p)
    else:
        c, pn = Fraction(1), p
    la = _mk_atom("L", (pn,))
    r = Poly.atom(la)
    if c != 1:
        r = p_add(r, log_const(c))
        if la.scales is None:
            la.scales = set()
        la.scales.add(c)   # ln(c * pn) was asked for: remembered for scale-aware monotonicity axioms
    return r


def mkE(a: Poly) -> Poly:
    """exp(a) with integer multiples of logarithms pulled out."""
    if not a.terms:
        return ONE
    factor = ONE
    logfactor = ZERO
    rest = {}
    # constants (multiples of ln(prime)) are pulled out only when that removes every constant logarithm
    # from the argument; otherwise they all stay inside, where the sign/monotonicity axioms can see them
    pull_lam = all(c.denominator == 1 for m, c in a.terms.items()
                   if len(m) == 1 and m[0][1] == 1 and Atom._all[m[0][0]].kind == "lam")
    for m, c in a.terms.items():
        if len(m) == 1 and m[0][1] == 1:
            at = Atom._all[m[0][0]]
            if at.kind == "lam" and not pull_lam:
                rest[m] = c
                continue
            if at.kind in ("L", "lam"):
                k = math.trunc(c)   # toward zero: keeps the sign of the residual exponent
                if k != 0:
                    if at.kind == "lam":
                        factor = p_scale(factor, Fraction(at.args[0]) ** k)
                    else:
                        factor = p_mul(factor, p_powi(at.args[0], k))
                    logfactor = p_add(logfactor, Poly({m: Fraction(k)}))
                    c = c - k
                if c != 0:
                    rest[m] = c
                continue
        rest[m] = c
    if not rest:
        return factor
    at = _mk_atom("E", (Poly(rest),), pos=True)
    r = Poly.atom(at)
    if factor is not ONE:
        # exp(rest + logfactor) = factor * E(rest) was asked for: remembered for scale-aware axioms
        if at.scales is None:
            at.scales = set()
        if len(at.scales) < 4 and len(factor.terms) <= 8:
            at.scales.add((factor, logfactor))
        return p_mul(factor, r)
    return r


def mkPOWF(base: Poly, expo: Poly, guarded=False) -> Poly:
    """base ** expo for a non-integer or symbolic exponent: E(expo * ln base)."""
    return mkE(p_mul(expo, mkLOG(base, guarded)))


def mkUF(name: str, args, pos=False) -> Poly:
    return Poly.atom(_mk_atom("uf", (name,) + tuple(args), pos))


# --------------------------------------------------------------------------- booleans

class BoolT:
    __slots__ = ("kind", "args", "id")
    _table: dict = {}
    _n = 0

    def key(self):
        return ("B", self.id)

    def __repr__(self):
        if self.kind in ("le0", "eq0"):
            return f"{self.kind}[{self.args[0]!r}]"
        if self.kind == "const":
            return str(self.args[0])
        return f"{self.kind}({', '.join(map(repr, self.args))})"


def _mk_bool(kind, args):
    key = (kind,) + tuple(a.key() if isinstance(a, (Poly, BoolT)) else a for a in args)
    b = BoolT._table.get(key)
    if b is None:
        b = BoolT()
        b.kind, b.args = kind, tuple(args)
        b.id = BoolT._n
        BoolT._n += 1
        BoolT._table[key] = b
    return b


def b_const(v: bool) -> BoolT:
    return _mk_bool("const", (bool(v),))


TRUE_KEY = ("const", True)


def b_is_const(b: BoolT):
    return b.kind == "const"


def _cmp_normalise(p: Poly):
    if p.is_const():
        return p
    m0 = min(p.terms)
    c = abs(p.terms[m0])
    return p if c == 1 else p_scale(p, 1 / c)


def b_le0(p: Poly) -> BoolT:
    if p.is_const():
        return b_const(p.const_value() <= 0)
    if is_pos(p):
        return b_const(False)        # syntactically positive (declared-positive atoms, positive coefficients)
    if is_nonneg(p_neg(p)):
        return b_const(True)
    return _mk_bool("le0", (_cmp_normalise(p),))


def b_eq0(p: Poly) -> BoolT:
    if p.is_const():
        return b_const(p.const_value() == 0)
    q = _cmp_normalise(p)
    m0 = min(q.terms)
    if q.terms[m0] < 0:
        q = p_neg(q)
    return _mk_bool("eq0", (q,))


def b_not(b: BoolT) -> BoolT:
    if b.kind == "const":
        return b_const(not b.args[0])
    if b.kind == "not":
        return b.args[0]
    return _mk_bool("not", (b,))


def b_and(*bs) -> BoolT:
    out = []
    for b in bs:
        if b.kind == "const":
            if not b.args[0]:
                return b_const(False)
            continue
        if b.kind == "and":
            out.extend(b.args)
        else:
            out.append(b)
    if not out:
        return b_const(True)
    if len(out) == 1:
        return out[0]
    return _mk_bool("and", tuple(out))


def b_or(*bs) -> BoolT:
    out = []
    for b in bs:
        if b.kind == "const":
            if b.args[0]:
                return b_const(True)
            continue
        if b.kind == "or":
            out.extend(b.args)
        else:
            out.append(b)
    if not out:
        return b_const(False)
    if len(out) == 1:
        return out[0]
    return _mk_bool("or", tuple(out))


def b_implies(a, b):
    return b_or(b_not(a), b)


def b_le(a: Poly, b: Poly):
    return b_le0(p_sub(a, b))


def b_lt(a: Poly, b: Poly):
    return b_not(b_le0(p_sub(b, a)))


def b_ge(a, b):
    return b_le(b, a)


def b_gt(a, b):
    return b_lt(b, a)


def b_eq(a, b):
    return b_eq0(p_sub(a, b))


def b_ne(a, b):
    return b_not(b_eq(a, b))


def mkITE(c: BoolT, a: Poly, b: Poly) -> Poly:
    if c.kind == "const":
        return a if c.args[0] else b
    if a == b:
        return a
    at = _mk_atom("ite", (c, a, b), pos=is_pos(a) and is_pos(b))
    return Poly.atom(at)


# --------------------------------------------------------------------------- differentiation

def diff(p: Poly, x: Atom, partials=None, _memo=None) -> Poly:
    """d p / d x, by the rules of calculus applied to the canonical term.

    `partials`: optional callable (uf_atom, arg_index) -> Poly giving the partial derivative of
    an uninterpreted function with respect to its arg_index-th argument; without it a fresh
    uninterpreted function named  d<i>_<name>  of the same arguments is used.
    ite atoms are differentiated branch-wise (valid away from the switching surface).
    """
    if _memo is None:
        _memo = {}

    def d_atom(at: Atom) -> Poly:
        r = _memo.get(at.id)
        if r is not None:
            return r
        if at.kind == "var":
            r = ONE if at is x else ZERO
        elif at.kind == "lam":
            r = ZERO
        elif at.kind == "E":
            r = p_mul(Poly.atom(at), dp(at.args[0]))
        elif at.kind == "L":
            da = dp(at.args[0])
            r = ZERO if da.is_zero() else p_mul(da, p_inv(at.args[0]))
        elif at.kind == "inv":
            da = dp(at.args[0])
            r = ZERO if da.is_zero() else p_neg(p_mul(da, Poly.atom(at, 2)))
        elif at.kind == "ite":
            r = mkITE(at.args[0], dp(at.args[1]), dp(at.args[2]))
        elif at.kind == "uf":
            r = ZERO
            for k, a in enumerate(at.args[1:]):
                da = dp(a)
                if da.is_zero():
                    continue
                if partials is not None:
                    pk = partials(at, k)
                else:
                    pk = mkUF(f"d{k}_{at.args[0]}", at.args[1:])
                r = p_add(r, p_mul(pk, da))
        else:
            raise Unsupported(at.kind)
        _memo[at.id] = r
        return r

    def dp(q: Poly) -> Poly:
        r = ZERO
        for m, c in q.terms.items():
            for idx, (i, e) in enumerate(m):
                da = d_atom(Atom._all[i])
                if da.is_zero():
                    continue
                rest = list(m)
                if e == 1:
                    del rest[idx]
                else:
                    rest[idx] = (i, e - 1)
                # rest may need re-canonicalisation only through p_mul
                term = Poly({tuple(rest): c * e})
                r = p_add(r, p_mul(term, da))
        return r

    return dp(p)


# --------------------------------------------------------------------------- substitution / evaluation

def substitute(p: Poly, mapping: dict, _memo=None) -> Poly:
    """Replace var atoms (by Atom object) with polynomials, rebuilding through the smart constructors."""
    if _memo is None:
        _memo = {}

    def s_atom(at: Atom) -> Poly:
        r = _memo.get(at.id)
        if r is not None:
            return r
        if at.kind == "var":
            r = mapping.get(at, None)
            if r is None:
                r = Poly.atom(at)
        elif at.kind == "lam":
            r = Poly.atom(at)
        elif at.kind == "E":
            r = mkE(sp(at.args[0]))
        elif at.kind == "L":
            r = mkLOG(sp(at.args[0]))
        elif at.kind == "inv":
            r = p_inv(sp(at.args[0]))
        elif at.kind == "ite":
            r = mkITE(sb(at.args[0]), sp(at.args[1]), sp(at.args[2]))
        elif at.kind == "uf":
            r = mkUF(at.args[0], [sp(a) for a in at.args[1:]], at.pos)
        else:
            raise Unsupported(at.kind)
        _memo[at.id] = r
        return r

    def sp(q: Poly) -> Poly:
        r = ZERO
        for m, c in q.terms.items():
            t = Poly.const(c)
            for i, e in m:
                t = p_mul(t, p_powi(s_atom(Atom._all[i]), e))
            r = p_add(r, t)
        return r

    def sb(b: BoolT) -> BoolT:
        if b.kind == "const":
            return b
        if b.kind == "le0":
            return b_le0(sp(b.args[0]))
        if b.kind == "eq0":
            return b_eq0(sp(b.args[0]))
        if b.kind == "not":
            return b_not(sb(b.args[0]))
        if b.kind == "and":
            return b_and(*[sb(a) for a in b.args])
        if b.kind == "or":
            return b_or(*[sb(a) for a in b.args])
        raise Unsupported(b.kind)

    if isinstance(p, BoolT):
        return sb(p)
    return sp(p)


def linear_solution(p: Poly, banned=()):
    """If p = c*v + r for a var atom v that occurs nowhere else in p and c is a single monomial of
    atoms known to be non-zero (declared positive, or E), return (v_atom, -r/c); else None."""
    nested = set()
    for i in p.atoms():
        at = Atom._all[i]
        if at.kind != "var":
            for a in collect_atoms([Poly.atom(at)]):
                if a.kind == "var" and a is not at:
                    nested.add(a.id)
    for i in sorted(p.atoms()):
        at = Atom._all[i]
        if at.kind != "var" or i in nested or at.args[0] in banned:
            continue
        cv = {}
        rest = {}
        ok = True
        for m, c in p.terms.items():
            e = dict(m).get(i)
            if e is None:
                rest[m] = c
            elif e == 1:
                cv[tuple(x for x in m if x[0] != i)] = c
            else:
                ok = False
                break
        if not ok or len(cv) != 1:
            continue
        (cm, cc), = cv.items()
        if not all(Atom._all[j].pos or Atom._all[j].kind == "E" for j, _ in cm):
            continue
        coef = Poly({cm: cc})
        return at, p_neg(p_mul(Poly(rest), p_inv(coef)))
    return None


class _Den:
    """Denominator in factored form: monomial part {atom_id: exp>0} times polynomial factors {Poly: exp>0}."""
    __slots__ = ("mono", "facs")

    def __init__(self, mono=None, facs=None):
        self.mono = mono or {}
        self.facs = facs or {}

    def lcm(self, o):
        m = dict(self.mono)
        for i, e in o.mono.items():
            m[i] = max(m.get(i, 0), e)
        f = dict(self.facs)
        for q, e in o.facs.items():
            f[q] = max(f.get(q, 0), e)
        return _Den(m, f)

    def quotient(self, o) -> Poly:
        """self / o as a polynomial (o must divide self factor-wise)."""
        m = {}
        for i, e in self.mono.items():
            v = e - o.mono.get(i, 0)
            if v:
                m[i] = v
        r = Poly({tuple(sorted(m.items())): Fraction(1)})
        for q, e in self.facs.items():
            v = e - o.facs.get(q, 0)
            if v:
                r = p_mul(r, p_powi(q, v))
        return r

    def poly(self) -> Poly:
        return self.quotient(_Den())

    def mul(self, o):
        m = dict(self.mono)
        for i, e in o.mono.items():
            m[i] = m.get(i, 0) + e
        f = dict(self.facs)
        for q, e in o.facs.items():
            f[q] = f.get(q, 0) + e
        return _Den(m, f)

    def pow(self, k):
        return _Den({i: e * k for i, e in self.mono.items()}, {q: e * k for q, e in self.facs.items()})


def as_fraction(p: Poly, _memo=None):
    """p = N / D with N a polynomial free of inv-atoms and negative exponents at top level and D a
    `_Den` (factored denominator); atoms nested inside E/L/uf arguments are left alone."""
    if _memo is None:
        _memo = {}

    def f_inv(i):
        r = _memo.get(i)
        if r is None:
            n, d = as_fraction(Atom._all[i].args[0], _memo)
            # 1/(n/d) = d/n : numerator d (expanded), denominator the single factor n
            sm = n.single_monomial()
            if sm is not None and all(e > 0 for _, e in sm[0]):
                r = (p_scale(d.poly(), 1 / sm[1]), _Den({i_: e for i_, e in sm[0]}))
            else:
                r = (d.poly(), _Den({}, {n: 1}))
            _memo[i] = r
        return r

    items = []
    L = _Den()
    for m, c in p.terms.items():
        n, d = Poly.const(c), _Den()
        num_mono = {}
        for i, e in m:
            if Atom._all[i].kind == "inv" and e > 0:
                an, ad = f_inv(i)
                n = p_mul(n, p_powi(an, e))
                d = d.mul(ad.pow(e))
            elif e < 0:
                d = d.mul(_Den({i: -e}))
            else:
                num_mono[i] = e
        if num_mono:
            n = p_mul(n, Poly({tuple(sorted(num_mono.items())): Fraction(1)}))
        items.append((n, d))
        L = L.lcm(d)
    N = ZERO
    for n, d in items:
        N = p_add(N, p_mul(n, L.quotient(d)))
    return N, L


def rational_equal(a: Poly, b: Poly) -> bool:
    """Decide a == b as rational functions of the atoms by cross-multiplication of canonical forms."""
    global MAX_MONOMIALS
    if a == b:
        return True
    old = MAX_MONOMIALS
    MAX_MONOMIALS = 20000   # give up early: this is an optimisation, the solver is the fallback
    try:
        na, da = as_fraction(a)
        nb, db = as_fraction(b)
        L = da.lcm(db)
        return p_sub(p_mul(na, L.quotient(da)), p_mul(nb, L.quotient(db))).is_zero()
    except Unsupported:
        return False
    finally:
        MAX_MONOMIALS = old


class EvalError(Exception):
    pass


def evalf(p, env: dict, ufs: dict | None = None, _memo=None):
    """Numerically evaluate a Poly or BoolT.  env: var name -> float; ufs: name -> callable."""
    if _memo is None:
        _memo = {}
    ufs = ufs or {}

    def e_atom(at: Atom) -> float:
        r = _memo.get(at.id)
        if r is not None:
            return r
        try:
            if at.kind == "var":
                r = float(env[at.args[0]])
            elif at.kind == "lam":
                r = math.log(at.args[0])
            elif at.kind == "E":
                r = math.exp(ep(at.args[0]))
            elif at.kind == "L":
                r = math.log(ep(at.args[0]))
            elif at.kind == "inv":
                r = 1.0 / ep(at.args[0])
            elif at.kind == "ite":
                r = ep(at.args[1]) if eb(at.args[0]) else ep(at.args[2])
            elif at.kind == "uf":
                f = ufs.get(at.args[0])
                if f is None and at.args[0] == "trunc":
                    f = math.trunc          # the store-into-an-integer-array function has one meaning
                if f is None:
                    raise EvalError(f"no numeric model for {at.args[0]}")
                r = float(f(*[ep(a) for a in at.args[1:]]))
            else:
                raise Unsupported(at.kind)
        except (ValueError, ZeroDivisionError, OverflowError) as ex:
            raise EvalError(str(ex)) from ex
        _memo[at.id] = r
        return r

    def ep(q: Poly) -> float:
        tot = 0.0
        for m, c in q.terms.items():
            t = float(c)
            for i, e in m:
                v = e_atom(Atom._all[i])
                try:
                    t *= v ** e
                except ZeroDivisionError as ex:
                    raise EvalError("division by zero") from ex
            tot += t
        return tot

    def eb(b: BoolT) -> bool:
        if b.kind == "const":
            return b.args[0]
        if b.kind == "le0":
            return ep(b.args[0]) <= 0
        if b.kind == "eq0":
            return ep(b.args[0]) == 0
        if b.kind == "not":
            return not eb(b.args[0])
        if b.kind == "and":
            return all(eb(a) for a in b.args)
        if b.kind == "or":
            return any(eb(a) for a in b.args)
        raise Unsupported(b.kind)

    if isinstance(p, BoolT):
        return eb(p)
    return ep(p)


def collect_atom_ids(p) -> set:
    return {a.id for a in collect_atoms([p])}


def collect_atoms(roots) -> list:
    """All atoms reachable from a list of Poly/BoolT, in dependency order (children first)."""
    seen = set()
    order = []

    def va(at: Atom):
        if at.id in seen:
            return
        seen.add(at.id)
        for a in at.args:
            if isinstance(a, Poly):
                vp(a)
            elif isinstance(a, BoolT):
                vb(a)
        order.append(at)

    def vp(p: Poly):
        for i in p.atoms():
            va(Atom._all[i])

    def vb(b: BoolT):
        for a in b.args:
            if isinstance(a, Poly):
                vp(a)
            elif isinstance(a, BoolT):
                vb(a)

    for r in roots:
        if isinstance(r, Poly):
            vp(r)
        elif isinstance(r, BoolT):
            vb(r)
    return order
