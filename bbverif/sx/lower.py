"""Lowering of canonical terms to z3 (QF_NRA after Ackermann's reduction) and query execution.

Every atom becomes one z3 Real constant.  What the solver is told about it:

  inv(p)  v          p * v = 1                       (definedness p != 0 is a separate obligation)
  x^-k               through an auxiliary reciprocal r_x with x * r_x = 1
  E(a)    e          e > 0, e >= 1 + a, sign(a) <-> e ? 1, pairwise monotone/congruent with the
                     other E-atoms, linked to every L-atom:  a <=> l  gives  e <=> x
  L(x)    l          x > 0, l <= x - 1, x*l >= x - 1, sign, pairwise monotone/congruent
  lam(c)  l          ln c enclosed between two rationals 1e-12 apart, treated as L(c) in the pairs
  uf(f, args) u      pairwise congruence with the other applications of f
  ite(b, p, q)       z3 If

All instantiated facts are true of the real exp/ln, so `unsat` transfers to the real functions;
`sat` may be an artefact of the abstraction and is always replayed concretely before it is
reported.
"""
from __future__ import annotations

import itertools
import math
import os
import time
from fractions import Fraction

import z3

from . import terms as T
from .terms import Poly, BoolT, Atom

PAIR_CAP = 60


def _rv(c: Fraction):
    c = Fraction(c)
    if c.denominator == 1:
        return z3.RealVal(str(c.numerator))
    return z3.RealVal(f"{c.numerator}/{c.denominator}")


def _ln_bounds(c: int):
    """Rational enclosure of ln(c), computed with exact integer arithmetic (atanh series)."""
    # ln(c) = 2 * atanh((c-1)/(c+1)); converge slowly for large c: reduce by powers of 2
    # ln(c) = k ln2 + ln(c / 2^k), with c/2^k in [1,2)
    def atanh_series(x: Fraction, n=60):
        s = Fraction(0)
        xp = x
        x2 = x * x
        for i in range(n):
            s += xp / (2 * i + 1)
            xp *= x2
        # remainder bound: x^(2n+1)/((2n+1)(1-x^2))
        rem = xp / ((2 * n + 1) * (1 - x2))
        return s, s + rem
    def ln_frac(fr: Fraction):
        x = (fr - 1) / (fr + 1)
        lo, hi = atanh_series(x)
        return 2 * lo, 2 * hi
    ln2 = ln_frac(Fraction(2))
    k = 0
    fr = Fraction(c)
    while fr >= 2:
        fr /= 2
        k += 1
    lo, hi = ln_frac(fr) if fr != 1 else (Fraction(0), Fraction(0))
    lo, hi = lo + k * ln2[0], hi + k * ln2[1]
    # round outward to 15 digits to keep numerals short
    scale = 10 ** 15
    lo = Fraction(math.floor(lo * scale), scale)
    hi = Fraction(math.ceil(hi * scale), scale)
    assert lo < hi
    return lo, hi


class Lowering:
    def __init__(self, roots, exp_axioms=True, pair_axioms=True, level=3):
        self.level = level
        self.z = {}          # atom id -> z3 const
        self.recip = {}      # atom id -> z3 const for 1/atom
        self.side = []       # z3 constraints that define atoms / instantiate laws
        self.pcache = {}
        self.bcache = {}
        self._prod_done = set()
        self.atoms = T.collect_atoms(roots)
        for at in self.atoms:
            self._declare(at)
        if exp_axioms:
            self._axioms(pair_axioms and level >= 1)

    # ---- declarations
    def _declare(self, at: Atom):
        if at.kind == "var":
            v = z3.Real(at.args[0])
        elif at.kind == "ite":
            v = z3.If(self.b(at.args[0]), self.p(at.args[1]), self.p(at.args[2]))
        else:
            v = z3.Real(f"{at.kind}!{at.id}")
        self.z[at.id] = v
        if at.kind in ("var", "uf") and at.pos:
            self.side.append(v > 0)     # a variable / stub result declared positive is positive in every query
        if at.kind == "inv":
            self.side.append(self.p(at.args[0]) * v == 1)
        elif at.kind == "lam":
            lo, hi = _ln_bounds(at.args[0])
            self.side.append(v > _rv(lo))
            self.side.append(v < _rv(hi))

    def _axioms(self, pairs):
        E = [a for a in self.atoms if a.kind == "E"]
        L = [a for a in self.atoms if a.kind in ("L", "lam")]
        U = {}
        for a in self.atoms:
            if a.kind == "uf":
                U.setdefault((a.args[0], len(a.args)), []).append(a)

        def larg(a):
            return _rv(a.args[0]) if a.kind == "lam" else self.p(a.args[0])

        def G(a, cs, b=None):
            """Facts about ln(x) hold where x > 0: guarded atoms state them under that condition."""
            g = []
            for at in (a, b):
                if at is not None and at.kind == "L" and at.guard:
                    g.append(larg(at) > 0)
            if not g:
                return cs
            return [z3.Implies(z3.And(*g), c) for c in cs]

        def GP(polys, cs):
            """Laws of exp whose statement went through exp(ln u) = u hold only where every guarded logarithm that occurs
            in the exponents is defined (u > 0): state them under those conditions."""
            g = {}
            for at in T.collect_atoms([q for q in polys]):
                if at.kind == "L" and at.guard:
                    g[at.id] = larg(at) > 0
            if not g:
                return cs
            return [z3.Implies(z3.And(*g.values()), c) for c in cs]

        def escales(a):
            out = [(None, None)]
            for f, lf in sorted(a.scales or (), key=lambda t: t[0].key()):
                out.append((self.p(f), self.p(lf)))
            return out

        for a in E:
            e, x = self.z[a.id], self.p(a.args[0])
            self.side += [e > 0]
            if self.level < 1:
                continue
            self.side += [e >= 1 + x, (x > 0) == (e > 1), (x < 0) == (e < 1)]
            for f, lf in escales(a)[1:]:
                # the exponential that was asked for is f*e = exp(x + lf)
                self.side += [(x + lf > 0) == (f * e > 1), (x + lf < 0) == (f * e < 1)]
        for a in L:
            if a.kind == "lam":
                continue
            l, x = self.z[a.id], larg(a)
            if not a.guard:
                self.side += [x > 0]
            if self.level >= 1:
                self.side += G(a, [l <= x - 1, x * l >= x - 1, (x > 1) == (l > 0), (x < 1) == (l < 0)])
        if pairs:
            if len(E) <= PAIR_CAP:
                for a, b in itertools.combinations(E, 2):
                    ea, eb, xa, xb = self.z[a.id], self.z[b.id], self.p(a.args[0]), self.p(b.args[0])
                    for fa, la in escales(a):
                        for fb, lb in escales(b):
                            XA, EA = (xa, ea) if fa is None else (xa + la, fa * ea)
                            XB, EB = (xb, eb) if fb is None else (xb + lb, fb * eb)
                            self.side += [(XA < XB) == (EA < EB), (XA == XB) == (EA == EB)]
            if len(L) <= PAIR_CAP:
                def scales(a):
                    return sorted({Fraction(1)} | (a.scales or set()))
                for a, b in itertools.combinations(L, 2):
                    if a.kind == "lam" and b.kind == "lam":
                        continue
                    la, lb, xa, xb = self.z[a.id], self.z[b.id], larg(a), larg(b)
                    for sa in scales(a):
                        for sb in scales(b):
                            c = sa / sb          # the logarithms that were asked for are ln(sa*xa), ln(sb*xb)
                            if c == 1:
                                self.side += G(a, [(xa < xb) == (la < lb), (xa == xb) == (la == lb)], b)
                            else:
                                lc = self.p(T.log_const(c))
                                self.side += G(a, [(_rv(c) * xa < xb) == (la + lc < lb), (_rv(c) * xa == xb) == (la + lc == lb)], b)
                for a in L:
                    for sa in scales(a):
                        if sa != 1 and a.kind == "L":
                            la, xa, lc = self.z[a.id], larg(a), self.p(T.log_const(sa))
                            self.side += G(a, [(_rv(sa) * xa > 1) == (la + lc > 0), (_rv(sa) * xa < 1) == (la + lc < 0)])
            if self.level >= 2 and len(E) * len(L) <= PAIR_CAP * PAIR_CAP:
                for a in E:
                    for b in L:
                        e, x, l, y = self.z[a.id], self.p(a.args[0]), self.z[b.id], larg(b)
                        for fa, la_ in escales(a):
                            X, EE = (x, e) if fa is None else (x + la_, fa * e)
                            for sb in (sorted({Fraction(1)} | (b.scales or set())) if b.kind == "L" else [Fraction(1)]):
                                if sb == 1:
                                    self.side += G(b, [(X < l) == (EE < y), (X == l) == (EE == y)])
                                else:
                                    lc = self.p(T.log_const(sb))
                                    self.side += G(b, [(X < l + lc) == (EE < _rv(sb) * y), (X == l + lc) == (EE == _rv(sb) * y)])
                        if b.kind == "lam":
                            self.side += [(x < -l) == (e * y < 1), (x == -l) == (e * y == 1)]
        # exp against quotients of logarithm arguments:  x < ln(yb) - ln(yc)  <=>  e^x * yc < yb
        Lp = [a for a in L if a.kind == "L"]
        if pairs and self.level >= 3 and len(E) <= 12 and len(Lp) <= 8:
            for a in E:
                e, x = self.z[a.id], self.p(a.args[0])
                for fa, la_ in escales(a):
                    X, EE = (x, e) if fa is None else (x + la_, fa * e)
                    for b, c in itertools.permutations(Lp, 2):
                        lb, lc, yb, yc = self.z[b.id], self.z[c.id], larg(b), larg(c)
                        self.side += G(b, [(X < lb - lc) == (EE * yc < yb), (X == lb - lc) == (EE * yc == yb)], c)
        # common differences: when the same difference d = arg_a - arg_b occurs for several pairs, one new
        # atom E(d) is introduced and  E(a) = E(b) * E(d)  is stated for each of them (true of exp)
        if self.level >= 2 and 2 <= len(E) <= PAIR_CAP:
            groups = {}
            for a, b in itertools.permutations(E, 2):
                d = T.p_sub(a.args[0], b.args[0])
                if d.is_const():
                    continue
                m0 = min(d.terms)
                if d.terms[m0] < 0:
                    continue          # keep one orientation
                groups.setdefault(d, []).append((a, b))
            new = 0
            for d, prs in sorted(groups.items(), key=lambda kv: -len(kv[1])):
                if len(prs) < 2 or new >= 6:
                    break
                r = T.mkE(d)
                for i in sorted(r.atoms()):
                    if i not in self.z:
                        self._late(Atom._all[i])
                        at = Atom._all[i]
                        if at.kind == "E":
                            e_, x_ = self.z[at.id], self.p(at.args[0])
                            self.side += [e_ > 0, e_ >= 1 + x_, (x_ > 0) == (e_ > 1), (x_ < 0) == (e_ < 1)]
                            new += 1
                rp = self.p(r)
                for a, b in prs:
                    self.side += GP([a.args[0], b.args[0]], [self.z[a.id] == self.z[b.id] * rp])
        # product law on differences that are already expressible:  E(a) = E(b) * E(a-b)
        if len(E) <= PAIR_CAP:
            known = set(self.z)
            for a, b in itertools.permutations(E, 2):
                if a.id > b.id and (b.id, a.id) in self._prod_done:
                    continue
                r = T.mkE(T.p_sub(a.args[0], b.args[0]))
                if all(i in known for i in r.atoms()) and len(r.terms) <= 40:
                    self.side += GP([a.args[0], b.args[0]], [self.z[a.id] == self.z[b.id] * self.p(r)])
                    self._prod_done.add((min(a.id, b.id), max(a.id, b.id)))
            for a, b in itertools.combinations_with_replacement(E, 2):
                r = T.mkE(T.p_add(a.args[0], b.args[0]))
                if all(i in known for i in r.atoms()) and len(r.terms) <= 40:
                    self.side += GP([a.args[0], b.args[0]], [self.z[a.id] * self.z[b.id] == self.p(r)])
        for (_, _), apps in U.items():
            for a, b in itertools.combinations(apps, 2):
                same = z3.And(*[self.p(x) == self.p(y) for x, y in zip(a.args[1:], b.args[1:])]) \
                    if len(a.args) > 1 else z3.BoolVal(True)
                self.side.append(z3.Implies(same, self.z[a.id] == self.z[b.id]))

    # ---- terms
    def _recip(self, i):
        r = self.recip.get(i)
        if r is None:
            r = z3.Real(f"rcp!{i}")
            self.recip[i] = r
            self.side.append(self.z[i] * r == 1)
        return r

    def p(self, q: Poly):
        r = self.pcache.get(q)
        if r is not None:
            return r
        if not q.terms:
            r = z3.RealVal(0)
        else:
            parts = []
            for m, c in sorted(q.terms.items()):
                fs = []
                for i, e in m:
                    if i not in self.z:
                        self._late(Atom._all[i])
                    base = self.z[i] if e > 0 else self._recip(i)
                    for _ in range(abs(e)):
                        fs.append(base)
                if not fs:
                    parts.append(_rv(c))
                else:
                    t = fs[0]
                    for f in fs[1:]:
                        t = t * f
                    parts.append(t if c == 1 else _rv(c) * t)
            r = parts[0]
            for t in parts[1:]:
                r = r + t
        self.pcache[q] = r
        return r

    def _late(self, at):
        for a in T.collect_atoms([Poly.atom(at)]):
            if a.id not in self.z:
                self.atoms.append(a)
                self._declare(a)

    def b(self, x: BoolT):
        r = self.bcache.get(x.id)
        if r is not None:
            return r
        k = x.kind
        if k == "const":
            r = z3.BoolVal(x.args[0])
        elif k == "le0":
            r = self.p(x.args[0]) <= 0
        elif k == "eq0":
            r = self.p(x.args[0]) == 0
        elif k == "not":
            r = z3.Not(self.b(x.args[0]))
        elif k == "and":
            r = z3.And(*[self.b(a) for a in x.args])
        elif k == "or":
            r = z3.Or(*[self.b(a) for a in x.args])
        else:
            raise T.Unsupported(k)
        self.bcache[x.id] = r
        return r


class Result:
    def __init__(self, verdict, seconds, model=None, smt2=None, stats=None):
        self.verdict = verdict      # 'unsat' | 'sat' | 'unknown'
        self.seconds = seconds
        self.model = model or {}    # var name -> Fraction
        self.smt2 = smt2
        self.stats = stats or {}

    def __repr__(self):
        return f"<{self.verdict} {self.seconds:.2f}s>"


def _model_value(m, zc):
    v = m.eval(zc, model_completion=True)
    if z3.is_rational_value(v):
        return Fraction(v.numerator_as_long(), v.denominator_as_long())
    if z3.is_algebraic_value(v):
        a = v.approx(30)
        return Fraction(a.numerator_as_long(), a.denominator_as_long())
    try:
        return Fraction(str(v))
    except Exception:
        return None


def eliminate(conds):
    """Solve top-level equalities that are linear in a variable with a non-zero monomial coefficient
    and substitute (equivalence preserving).  Returns (conds', [(var_atom, expr)])."""
    conds = list(conds)
    subs = []
    progress = True
    while progress:
        progress = False
        for k, c in enumerate(conds):
            if c.kind != "eq0":
                continue
            sol = T.linear_solution(c.args[0])
            if sol is None:
                continue
            v, expr = sol
            memo = {}
            rest = conds[:k] + conds[k + 1:]
            try:
                new = [T.substitute(x, {v: expr}, memo) for x in rest]
                nsubs = [(a, T.substitute(e, {v: expr}, memo)) for a, e in subs]
            except (ZeroDivisionError, T.Unsupported):
                continue
            conds, subs = new, nsubs
            subs.append((v, expr))
            progress = True
            break
    return conds, subs


def abstract_monomials(conds):
    """Replace, in the top-level polynomials of the conditions, every product of two or more
    positive atoms that multiplies a monomial by one fresh positive variable (same product -> same
    variable).  Every model of the original conditions extends to a model of the result, so `unsat`
    of the abstraction is `unsat` of the original; `sat` is not conclusive."""
    table = {}

    def ap(p: Poly) -> Poly:
        out = {}
        for m, c in p.terms.items():
            pos = tuple((i, e) for i, e in m if Atom._all[i].pos and Atom._all[i].kind in ("var", "uf", "inv"))
            if len(pos) >= 2:
                v = table.get(pos)
                if v is None:
                    v = T._mk_atom("var", (f"mono!{len(table)}",), pos=True)
                    table[pos] = v
                m2 = tuple(sorted([x for x in m if x not in pos] + [(v.id, 1)]))
            else:
                m2 = m
            out[m2] = out.get(m2, 0) + c
        return Poly({k: v for k, v in out.items() if v != 0})

    def ab(b: BoolT) -> BoolT:
        k = b.kind
        if k == "le0":
            return T.b_le0(ap(b.args[0]))
        if k == "eq0":
            return T.b_eq0(ap(b.args[0]))
        if k == "not":
            return T.b_not(ab(b.args[0]))
        if k == "and":
            return T.b_and(*[ab(a) for a in b.args])
        if k == "or":
            return T.b_or(*[ab(a) for a in b.args])
        return b

    return [ab(c) for c in conds], len(table)


def solve(conds, timeout_s=60, exp_axioms=True, pair_axioms=True, want_smt2=False, tactic=None,
          extra=(), elim=False, levels=(1, 2, 3), abstract=False) -> Result:
    """Decide the conjunction of BoolT `conds`.

    The instantiated exp/ln facts are added in levels (lazy axiom escalation): every level uses a
    subset of true facts, so `unsat` at any level is final; `sat` is final only at the last level
    (or when the query has no exp/ln atoms); a level that answers `unknown` is skipped."""
    conds = [c for c in conds if not (c.kind == "const" and c.args[0])]
    if any(c.kind == "const" and not c.args[0] for c in conds):
        return Result("unsat", 0.0)
    t0 = time.time()
    if abstract:
        ac, n = abstract_monomials(conds)
        if n:
            r = solve(ac, timeout_s=timeout_s / 2, exp_axioms=exp_axioms, pair_axioms=pair_axioms, tactic=tactic, extra=extra,
                      elim=False, levels=levels, abstract=False)
            if r.verdict == "unsat":
                r.stats["abstracted_monomials"] = n
                return r
            timeout_s = max(1.0, timeout_s - (time.time() - t0))
    subs = []
    if elim:
        flat = []
        for c in conds:
            flat.extend(c.args if c.kind == "and" else [c])
        conds, subs = eliminate(flat)
        conds = [c for c in conds if not (c.kind == "const" and c.args[0])]
        if any(c.kind == "const" and not c.args[0] for c in conds):
            return Result("unsat", time.time() - t0)
    roots = list(conds) + [e for _, e in subs]
    has_el = any(a.kind in ("E", "L") for a in T.collect_atoms(roots))
    if not has_el or not exp_axioms:
        levels = (levels[-1],)
    last = None
    deadline = t0 + timeout_s
    for k, lv in enumerate(levels):
        remaining = deadline - time.time()
        if remaining <= 0.5:
            break
        # earlier levels are cheap attempts with fewer facts: cap them so that a large budget goes to the complete level
        share = remaining if k == len(levels) - 1 else min(40.0, max(2.0, remaining / (len(levels) - k)))
        low = Lowering(roots, exp_axioms, pair_axioms, level=lv)
        zs = [low.b(c) for c in conds]
        if os.environ.get("BBVERIF_AXIOM_AUDIT"):
            from .audit import maybe_audit
            maybe_audit(low)
        s = z3.Solver() if tactic is None else z3.Then(*tactic).solver() if isinstance(tactic, (list, tuple)) \
            else z3.Tactic(tactic).solver()
        s.set("timeout", int(share * 1000))
        s.add(*low.side)
        s.add(*zs)
        s.add(*extra)
        r = s.check()
        verdict = str(r)
        # exported only after the verdict (measured: exporting before check() changed z3's search on one C07 query from
        # unsat in 15 s to no answer in 600 s) and only for the verdict the second solvers are asked to confirm
        smt2 = s.to_smt2() if (want_smt2 and verdict == "unsat") else None
        stats = {"atoms": len(low.atoms), "side": len(low.side), "level": lv}
        if verdict == "unsat":
            return Result("unsat", time.time() - t0, {}, smt2, stats)
        if verdict == "sat":
            model = {}
            m = s.model()
            for at in low.atoms:
                if at.kind == "var":
                    model[at.args[0]] = _model_value(m, low.z[at.id])
            for v, e in subs:
                model[v.args[0]] = _model_value(m, low.p(e))
            ufv = {}
            for at in low.atoms:
                if at.kind == "uf":
                    ufv.setdefault(at.args[0], []).append(
                        ([_model_value(m, low.p(a)) for a in at.args[1:]], _model_value(m, low.z[at.id])))
            if ufv:
                model["__uf__"] = ufv
            last = Result("sat", time.time() - t0, model, smt2, stats)
            if lv == levels[-1]:
                return last
            continue
        last_unknown = Result("unknown", time.time() - t0, {}, smt2, stats)
        if last is None or last.verdict != "sat":
            last = last_unknown
        else:
            last = last_unknown   # a later level could not confirm the earlier sat: inconclusive
    if last is None:
        return Result("unknown", time.time() - t0)
    if last.verdict == "sat" and last.stats.get("level") != levels[-1]:
        return Result("unknown", time.time() - t0, {}, None, last.stats)
    last.seconds = time.time() - t0
    return last


def _is_linear(b: BoolT) -> bool:
    k = b.kind
    if k in ("le0", "eq0"):
        for m in b.args[0].terms:
            if len(m) > 1 or (m and (m[0][1] != 1 or Atom._all[m[0][0]].kind != "var")):
                return False
        return True
    if k in ("not", "and", "or"):
        return all(_is_linear(a) for a in b.args)
    return k == "const"


def _slice(conds):
    """The conditions connected to the last one (the branch decision) through shared atoms.  The
    other components belong to a path prefix that was already found feasible, and a conjunction is
    satisfiable iff each variable-disjoint component is."""
    if len(conds) < 3:
        return list(conds)
    ids = [frozenset(a.id for a in T.collect_atoms([c])) for c in conds]
    comp = set(ids[-1])
    take = {len(conds) - 1}
    changed = True
    while changed:
        changed = False
        for k, s in enumerate(ids):
            if k not in take and s & comp:
                take.add(k)
                comp |= s
                changed = True
    return [conds[k] for k in sorted(take)]


def feasibility(timeout_s=5):
    """Feasibility oracle for path exploration.  Only `unsat` prunes a branch; `unknown` is
    explored (the obligations of such a path still carry the full path condition).  Cheap stages
    first: the slice of conditions connected to the decision, its linear part alone (a relaxation:
    `unsat` there is `unsat`), then the whole slice."""
    cache = {}

    def f(conds):
        key = tuple(sorted(c.id for c in conds))
        r = cache.get(key)
        if r is None:
            sl = _slice(conds)
            lin = [c for c in sl if _is_linear(c)]
            if len(lin) == len(sl):
                r = solve(sl, timeout_s=timeout_s, levels=(1,)).verdict
            else:
                r = solve(lin, timeout_s=2, levels=(1,)).verdict if lin else "sat"
                if r != "unsat":
                    # equalities that define a value (ideal linear solve, decided coincidences) are substituted first:
                    # measured on the reservoir loops, z3 answers these in milliseconds and the raw form not at all
                    r = solve(sl, timeout_s=timeout_s, levels=(1,), elim=True).verdict
            cache[key] = r
        return r
    return f


# --------------------------------------------------------------------------- numeric model search (falsification only)

def _var_bounds(conds):
    """Closed bounds lo <= v / v <= hi that appear as top-level conjuncts, per variable name."""
    lo, hi = {}, {}
    flat = []
    for c in conds:
        flat.extend(c.args if c.kind == "and" else [c])
    for c in flat:
        if c.kind != "le0":
            continue
        p = c.args[0]
        terms = dict(p.terms)
        const = terms.pop((), Fraction(0))
        if len(terms) != 1:
            continue
        (mono, coef), = terms.items()
        if len(mono) != 1 or mono[0][1] != 1:
            continue
        at = T.Atom._all[mono[0][0]]
        if at.kind != "var":
            continue
        bound = float(-const / coef)          # coef*v + const <= 0
        if coef > 0:
            hi[at.args[0]] = min(hi.get(at.args[0], bound), bound)
        else:
            lo[at.args[0]] = max(lo.get(at.args[0], bound), bound)
    return lo, hi


def search_model(conds, seed=0, tries=4000, time_s=20.0):
    """Look for a point satisfying every condition with the *true* exp/ln (floating point evaluation of the same
    terms the solver was given).  Used only after the solver answered `unknown` on a query whose models can be
    replayed on the real code: a hit is a counterexample *candidate* (it still has to reproduce), a miss means
    nothing - `unknown` stays inconclusive.  Never used to conclude that a property holds."""
    import math
    import random
    rnd = random.Random(seed * 7919 + 13)
    conds = [c for c in conds if not (c.kind == "const" and c.args[0])]
    # equalities that are linear in a variable (root-finder / exact-solve contracts) cannot be hit by sampling: solve them
    # for that variable first; the variable's value is then computed from the sample
    flat = []
    for c in conds:
        flat.extend(c.args if c.kind == "and" else [c])
    lo0, hi0 = _var_bounds(flat)
    try:
        conds, subs = eliminate(flat)
    except Exception:  # noqa: BLE001
        conds, subs = flat, []
    # bounds of eliminated variables were substituted into `conds` as general inequalities and are checked there
    atoms = T.collect_atoms(list(conds) + [e for _, e in subs])
    vars_ = [a for a in atoms if a.kind == "var"]
    uf_names = {a.args[0]: a.pos for a in atoms if a.kind == "uf"}
    lo, hi = _var_bounds(conds)
    for n, v in lo0.items():
        lo.setdefault(n, v)
    for n, v in hi0.items():
        hi.setdefault(n, v)
    t0 = time.time()
    for k in range(tries):
        if time.time() - t0 > time_s:
            break
        env = {}
        for a in vars_:
            n = a.args[0]
            l, h = lo.get(n), hi.get(n)
            if l is None and h is None:
                l, h = (1e-3, 1e3) if a.pos else (-10.0, 10.0)
            elif l is None:
                l = h - 10.0 * max(1.0, abs(h))
            elif h is None:
                h = l + 10.0 * max(1.0, abs(l))
            if a.pos:
                l = max(l, 1e-9)
                h = max(h, l)
            mode = rnd.random()
            if l > 0 and h / l > 100 and mode < 0.5:
                v = math.exp(rnd.uniform(math.log(l), math.log(h)))
            elif mode > 0.9:
                v = rnd.choice((l, h))
            else:
                v = rnd.uniform(l, h)
            env[n] = v
        salt = rnd.random()
        calls = {}

        def mk(name, pos):
            def f(*args):
                key = tuple(round(x, 12) for x in args)
                d = calls.setdefault(name, {})
                if key not in d:
                    r = random.Random(hash((name, key, salt)))
                    d[key] = r.uniform(0.05, 3.0) if pos else r.uniform(-3.0, 3.0)
                return d[key]
            return f
        ufs = {n: mk(n, p) for n, p in uf_names.items()}
        try:
            memo = {}
            if all(T.evalf(c, env, ufs, memo) for c in conds):
                for v_at, e in subs:
                    env[v_at.args[0]] = T.evalf(e, env, ufs, memo)
                model = {n: Fraction(repr(v)) for n, v in env.items()}
                if calls:
                    model["__uf__"] = {n: [([Fraction(repr(x)) for x in key], Fraction(repr(val))) for key, val in d.items()] for n, d in calls.items()}
                return Result("sat", time.time() - t0, model, None, {"numeric_search_tries": k + 1})
        except (T.EvalError, KeyError, OverflowError, ValueError, ZeroDivisionError):
            continue
    return Result("unknown", time.time() - t0, {}, None, {"numeric_search_tries": tries})
