"""Soundness audit of the instantiated exp/ln facts (BBVERIF_AXIOM_AUDIT=<samples> enables it, tools/axiom_audit.py drives it).

Every constraint the lowering adds on its own account (`Lowering.side`: definitions of atoms and instances of laws of
exp / ln) must be TRUE in the real numbers for every assignment in which the unguarded logarithms are defined, the
reciprocals exist and the symbols declared positive are positive - otherwise an `unsat` answer proves nothing.  The audit
evaluates them in exact rational arithmetic over assignments whose exp / ln values are doubles (three-valued with a relative tolerance: a comparison closer than the tolerance is
'undecided', never a failure) on random assignments and reports every constraint that is definitely false."""
from __future__ import annotations

import math
import os
import random
from fractions import Fraction

import z3

from . import terms as T
from .terms import Atom

TOL = 1e-7


class _Skip(Exception):
    pass


def _values(low, rnd):
    """One random assignment: atom id -> float (children first)."""
    val = {}
    uf_memo = {}

    def ep(q):
        # exact: the values of the atoms are rationals (exp / ln values: the double nearest to the true value, as a rational)
        tot = Fraction(0)
        for m, c in q.terms.items():
            t = Fraction(c)
            for i, e in m:
                v = val[i]
                if v == 0 and e < 0:
                    raise _Skip
                t *= v ** e
            tot += t
        return tot

    def eb(b):
        k = b.kind
        if k == "const":
            return b.args[0]
        if k == "le0":
            return ep(b.args[0]) <= 0
        if k == "eq0":
            return ep(b.args[0]) == 0
        if k == "not":
            return not eb(b.args[0])
        if k == "and":
            return all(eb(a) for a in b.args)
        if k == "or":
            return any(eb(a) for a in b.args)
        raise _Skip

    for at in low.atoms:
        k = at.kind
        try:
            if k == "var":
                mode = rnd.random()
                mag = math.exp(rnd.uniform(-6, 6)) if mode < 0.45 else math.exp(rnd.uniform(-30, -6)) if mode < 0.6 else math.exp(rnd.uniform(6, 20)) if mode < 0.7 \
                    else 1.0 + rnd.uniform(-0.2, 0.2) if mode < 0.85 else float(rnd.randint(0, 4))
                v = mag if at.pos else (mag if rnd.random() < 0.6 else -mag)
                if at.pos and v <= 0:
                    v = math.exp(rnd.uniform(-3, 3))
                v = Fraction(v)
            elif k == "lam":
                v = Fraction(math.log(at.args[0]))
            elif k == "E":
                x = ep(at.args[0])
                if abs(x) > 600:
                    raise _Skip
                v = Fraction(math.exp(float(x)))
            elif k == "L":
                x = ep(at.args[0])
                if x > 0:
                    fx = float(x)
                    if fx == 0.0 or math.isinf(fx):
                        raise _Skip
                    # near 1 the rounding of x to a double would dominate ln x: log1p of the exactly computed x - 1
                    v = Fraction(math.log1p(float(x - 1))) if abs(x - 1) < Fraction(1, 2) else Fraction(math.log(fx))
                elif at.guard:
                    v = Fraction(rnd.uniform(-50, 50))        # a guarded logarithm outside its guard is an arbitrary real
                else:
                    raise _Skip                      # the caller recorded x > 0 as a definedness condition
            elif k == "inv":
                x = ep(at.args[0])
                if x == 0:
                    raise _Skip
                v = 1 / x
            elif k == "ite":
                v = ep(at.args[1]) if eb(at.args[0]) else ep(at.args[2])
            elif k == "uf":
                args = tuple(ep(a) for a in at.args[1:])
                if at.args[0] == "trunc":
                    v = Fraction(math.trunc(args[0]))
                else:
                    key = (at.args[0], args)
                    if key not in uf_memo:
                        uf_memo[key] = Fraction(math.exp(rnd.uniform(-4, 4)) if at.pos else rnd.uniform(-100, 100))
                    v = uf_memo[key]
            else:
                raise _Skip
        except (OverflowError, ZeroDivisionError, ValueError):
            raise _Skip from None
        val[at.id] = v
    return val


def _eval(e, env, memo):
    """z3 term -> float, or Bool term -> True / False / None (undecided within the tolerance)."""
    key = e.get_id()
    if key in memo:
        return memo[key]
    r = _eval1(e, env, memo)
    memo[key] = r
    return r


def _eval1(e, env, memo):
    if z3.is_rational_value(e) or z3.is_int_value(e):
        return Fraction(e.numerator_as_long(), e.denominator_as_long()) if z3.is_rational_value(e) else Fraction(e.as_long())
    if z3.is_true(e):
        return True
    if z3.is_false(e):
        return False
    k = e.decl().kind()
    ch = e.children()
    if k == z3.Z3_OP_UNINTERPRETED and not ch:
        name = e.decl().name()
        if name not in env:
            raise _Skip
        return env[name]
    if k == z3.Z3_OP_ADD:
        return sum((_eval(c, env, memo) for c in ch), Fraction(0))
    if k == z3.Z3_OP_MUL:
        r = Fraction(1)
        for c in ch:
            r *= _eval(c, env, memo)
        return r
    if k == z3.Z3_OP_SUB:
        r = _eval(ch[0], env, memo)
        for c in ch[1:]:
            r -= _eval(c, env, memo)
        return r
    if k == z3.Z3_OP_UMINUS:
        return -_eval(ch[0], env, memo)
    if k == z3.Z3_OP_DIV:
        d = _eval(ch[1], env, memo)
        if d == 0:
            raise _Skip
        return _eval(ch[0], env, memo) / d
    if k == z3.Z3_OP_TO_REAL:
        return _eval(ch[0], env, memo)
    if k == z3.Z3_OP_ITE:
        c = _eval(ch[0], env, memo)
        if c is None:
            raise _Skip
        return _eval(ch[1] if c else ch[2], env, memo)
    if k in (z3.Z3_OP_LE, z3.Z3_OP_LT, z3.Z3_OP_GE, z3.Z3_OP_GT) or (k in (z3.Z3_OP_EQ, z3.Z3_OP_DISTINCT) and not z3.is_bool(ch[0])):
        a, b = _eval(ch[0], env, memo), _eval(ch[1], env, memo)
        close = abs(a - b) <= Fraction(TOL) * (abs(a) + abs(b))
        if k == z3.Z3_OP_EQ:
            return True if a == b else None if close else False
        if k == z3.Z3_OP_DISTINCT:
            return False if a == b else None if close else True
        if close and a != b:
            return None
        if a == b:
            return True if k in (z3.Z3_OP_LE, z3.Z3_OP_GE) else None      # equal as floats: a strict comparison is undecided
        return (a < b) if k in (z3.Z3_OP_LE, z3.Z3_OP_LT) else (a > b)
    vals = [_eval(c, env, memo) for c in ch]
    if k == z3.Z3_OP_NOT:
        return None if vals[0] is None else (not vals[0])
    if k == z3.Z3_OP_AND:
        return False if any(v is False for v in vals) else None if any(v is None for v in vals) else True
    if k == z3.Z3_OP_OR:
        return True if any(v is True for v in vals) else None if any(v is None for v in vals) else False
    if k == z3.Z3_OP_IMPLIES:
        a, b = vals
        return True if (a is False or b is True) else None if (a is None or b is None) else False
    if k in (z3.Z3_OP_EQ, z3.Z3_OP_IFF):
        a, b = vals
        return None if (a is None or b is None) else (a == b)
    if k == z3.Z3_OP_XOR:
        a, b = vals
        return None if (a is None or b is None) else (a != b)
    raise _Skip


def audit(low, samples, seed=0, log=None):
    """Returns (#assignments evaluated, #constraint evaluations, list of definite failures)."""
    rnd = random.Random(seed)
    done = tries = evals = 0
    failures = []
    names = {}
    for i, zc in low.z.items():
        if z3.is_const(zc) and zc.decl().kind() == z3.Z3_OP_UNINTERPRETED:
            names[zc.decl().name()] = i
    while done < samples and tries < samples * 30:
        tries += 1
        try:
            val = _values(low, rnd)
            env = {n: val[i] for n, i in names.items() if i in val}
            for i, rc in low.recip.items():
                if val[i] == 0:
                    raise _Skip
                env[rc.decl().name()] = 1 / val[i]
        except _Skip:
            continue
        memo = {}
        ok = True
        for c in low.side:
            try:
                r = _eval(c, env, memo)
            except (_Skip, OverflowError, ZeroDivisionError):
                continue
            evals += 1
            if r is False:
                failures.append((c.sexpr()[:3000], {n: float(env[n]) for n in sorted(env)[:40]}))
                ok = False
                if len(failures) >= 5:
                    break
        done += 1
        if len(failures) >= 5:
            break
    if failures and log:
        with open(log, "a") as fh:
            for sx, env in failures:
                fh.write(f"UNSOUND-AXIOM {sx}\n    under {env}\n")
    return done, evals, failures


def maybe_audit(low):
    n = int(os.environ.get("BBVERIF_AXIOM_AUDIT", "0") or 0)
    if not n:
        return
    log = os.environ.get("BBVERIF_AXIOM_AUDIT_LOG", "/tmp/bbverif-axiom-audit.log")
    done, evals, failures = audit(low, n, seed=len(low.side), log=log)
    with open(log, "a") as fh:
        fh.write(f"audited side={len(low.side)} atoms={len(low.atoms)} level={low.level} assignments={done} evaluations={evals} failures={len(failures)}\n")
