"""Load a module of the repository's *working tree* for symbolic execution.

The file is read from /repo/src on every call, parsed, numeric literals are wrapped
(`0.83 -> _K("0.83")`, an exact rational), compiled and executed in a fresh module
namespace; afterwards library names in that namespace are rebound to shims.  The function
bodies are the repository's own statements.
"""
from __future__ import annotations

import ast
import hashlib
import os
import sys
import types

from .sym import K

REPO = os.environ.get("BBVERIF_REPO", "/repo")
SRC = os.path.join(REPO, "src")


class _Lit(ast.NodeTransformer):
    def visit_Constant(self, n):
        if isinstance(n.value, (int, float)) and not isinstance(n.value, bool):
            return ast.copy_location(
                ast.Call(ast.Name("_K", ast.Load()), [ast.Constant(repr(n.value))], []), n)
        return n

    def _keep_decorators(self, n):
        # arguments of decorators configure Python machinery (lru_cache(maxsize=32), dataclass(order=True)): they stay plain
        decs, n.decorator_list = n.decorator_list, []
        n = self.generic_visit(n)
        n.decorator_list = decs
        return n

    visit_FunctionDef = visit_AsyncFunctionDef = visit_ClassDef = _keep_decorators

    def visit_JoinedStr(self, n):
        return n  # leave f-strings alone (format specs are strings anyway)

    def visit_Expr(self, n):
        # docstrings / bare constant expressions
        if isinstance(n.value, ast.Constant):
            return n
        return self.generic_visit(n)


_counter = [0]


def module_path(dotted: str) -> str:
    return os.path.join(SRC, *dotted.split(".")) + ".py"


def source_hash(dotted: str) -> str:
    with open(module_path(dotted), "rb") as f:
        return hashlib.sha256(f.read()).hexdigest()[:16]


def load(dotted: str, rebind: dict | None = None, pre: dict | None = None) -> types.ModuleType:
    """Execute the working-tree source of `dotted` (e.g. 'bluebonnet.fluids.oil') with exact
    literals and return the module; `rebind` replaces globals after execution; `pre` seeds
    globals before execution (for names needed at import time)."""
    path = module_path(dotted)
    with open(path) as f:
        src = f.read()
    tree = ast.parse(src, filename=path)
    tree = _Lit().visit(tree)
    ast.fix_missing_locations(tree)
    _counter[0] += 1
    name = f"_sx_{dotted.replace('.', '_')}_{_counter[0]}"
    m = types.ModuleType(name)
    m.__file__ = path
    m.__dict__["_K"] = K
    if pre:
        m.__dict__.update(pre)
    sys.modules[name] = m
    # names the caller rebinds to symbolic stand-ins (numpy, pandas, scipy namespaces) are bound BEFORE the module body runs,
    # so that module-level tables built with them (np.array(...) constants) are symbolic containers too; if the module body
    # does something at import time that the stand-ins do not model, the module is executed with its real imports instead
    # and the names are rebound afterwards (module-level objects are then real ones)
    done_early = False
    if rebind:
        try:
            early, body = {}, []
            for node in tree.body:
                if isinstance(node, (ast.Import, ast.ImportFrom)) and not (isinstance(node, ast.ImportFrom) and node.module == "__future__"):
                    keep = []
                    for al in node.names:
                        bound = al.asname or al.name.split(".")[0]
                        origin = (node.module or "") if isinstance(node, ast.ImportFrom) else al.name
                        v = rebind.get(bound, None)
                        if bound in rebind and not (getattr(v, "__sx_only_if_scipy__", False) and not origin.startswith("scipy")):
                            early[bound] = v
                        else:
                            keep.append(al)
                    if keep:
                        n2 = ast.ImportFrom(module=node.module, names=keep, level=node.level) if isinstance(node, ast.ImportFrom) else ast.Import(names=keep)
                        body.append(ast.copy_location(n2, node))
                else:
                    body.append(node)
            if early:
                t2 = ast.Module(body=body, type_ignores=[])
                ast.fix_missing_locations(t2)
                base = dict(m.__dict__)
                m.__dict__.update(early)
                try:
                    exec(compile(t2, path, "exec"), m.__dict__)
                    done_early = True
                except BaseException:  # noqa: BLE001
                    m.__dict__.clear()
                    m.__dict__.update(base)
                    raise
        except BaseException as ex:  # noqa: BLE001
            if type(ex).__name__ in ("KeyboardInterrupt", "SystemExit"):
                raise
            done_early = False
    if not done_early:
        exec(compile(tree, path, "exec"), m.__dict__)
    if rebind:
        for k, v in rebind.items():
            cur = m.__dict__.get(k)
            origin = str(getattr(cur, "__module__", None) or (getattr(cur, "__name__", "") if isinstance(cur, types.ModuleType) else ""))
            if getattr(v, "__sx_only_if_scipy__", False) and not origin.startswith("scipy"):
                continue
            m.__dict__[k] = v
    m.__sx_source_hash__ = hashlib.sha256(src.encode()).hexdigest()[:16]

    import copy as _copy
    # module-level containers the analysed module defines for itself (memo sets, registries, option dicts): every explored
    # path starts from their state right after import, as a fresh process would
    initial = {}
    for k, v in list(m.__dict__.items()):
        if not k.startswith("__") and (type(v) in (set, dict, list) or type(v).__name__ in ("SymArray", "SymSeries", "SymFrame")) and (not rebind or k not in rebind):
            try:
                initial[k] = _copy.deepcopy(v)
            except Exception:  # noqa: BLE001
                pass

    def _reset(d=m.__dict__):
        for k, v0 in initial.items():
            cur = d.get(k)
            if type(cur) is type(v0) and type(v0) not in (set, dict, list):
                cur.__dict__.clear()
                cur.__dict__.update(_copy.deepcopy(v0).__dict__)
            elif type(cur) is type(v0):
                cur.clear()
                if isinstance(cur, list):
                    cur.extend(_copy.deepcopy(v0))
                else:
                    cur.update(_copy.deepcopy(v0))
        # functools.lru_cache / cache on functions of the analysed module: every explored path is a fresh process as far as
        # the analysed code can tell (within one path the memo works as written, so aliasing through it is visible)
        import functools
        lru = type(functools.lru_cache(lambda: None))
        for v in list(d.values()):
            if isinstance(v, lru):
                v.cache_clear()
            elif isinstance(v, type) and v.__dict__.get("__module__") == m.__name__:
                for w in list(vars(v).values()):
                    f = getattr(w, "__func__", w)
                    if isinstance(f, lru):
                        f.cache_clear()
    from . import sym as _sym
    _sym.PATH_RESETS.append(_reset)
    return m


def unload(m: types.ModuleType):
    sys.modules.pop(m.__name__, None)


def function_source_hash(m, qualname: str) -> str:
    """Hash of the source segment of one function/class (for evidence)."""
    with open(m.__file__) as f:
        src = f.read()
    tree = ast.parse(src)
    parts = qualname.split(".")

    def find(body, name):
        for n in body:
            if isinstance(n, (ast.FunctionDef, ast.ClassDef)) and n.name == name:
                return n
        return None
    node = None
    body = tree.body
    for p in parts:
        node = find(body, p)
        if node is None:
            return "missing"
        body = node.body
    seg = ast.get_source_segment(src, node) or ""
    return hashlib.sha256(seg.encode()).hexdigest()[:16]
