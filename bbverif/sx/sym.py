"""Python-level symbolic values: exact rationals `Q`, symbolic reals `Sym`, symbolic booleans
`SymBool`, the per-path `Context` and the path explorer."""
from __future__ import annotations

import math
from fractions import Fraction

from . import terms as T
from .terms import Poly, BoolT, Unsupported


# --------------------------------------------------------------------------- exact rationals

class Q(Fraction):
    """A Fraction that is closed under arithmetic and usable as an index / range bound."""
    __slots__ = ()

    def __index__(self):
        if self.denominator != 1:
            raise TypeError(f"non-integer {self} used as an index")
        return self.numerator

    def __float__(self):
        return self.numerator / self.denominator

    def __repr__(self):
        return str(self) if self.denominator == 1 else f"{float(self)!r}"

    def is_integer(self):
        return self.denominator == 1

    def __hash__(self):
        return Fraction.__hash__(self)

    def __eq__(self, o):
        if isinstance(o, (Sym,)):
            return NotImplemented
        return Fraction.__eq__(self, o)


def _wrapQ(name):
    f = getattr(Fraction, name)

    def g(a, *b):
        if b and isinstance(b[0], float):
            # float operands come from real library constants (np.inf ...): keep float semantics
            if math.isinf(b[0]) or math.isnan(b[0]):
                return getattr(float(a), name)(b[0])
            b = (Fraction(repr(b[0])),) + b[1:]
        if b and isinstance(b[0], (Sym, SymBool)):
            return NotImplemented
        if b and hasattr(b[0], "__array_priority_sx__"):
            return NotImplemented
        try:
            r = f(a, *b)
        except ZeroDivisionError:
            raise
        if r is NotImplemented:
            return r
        if isinstance(r, Fraction):
            if name in _INT_CLOSED and isinstance(a, QI) and (not b or is_intlike(b[0])):
                return QI(r)
            return Q(r) if type(r) is not Q else r
        if isinstance(r, float) and name in ("__pow__", "__rpow__"):
            raise _NeedSymbolicPow()
        return r
    g.__name__ = name
    return g


class _NeedSymbolicPow(Exception):
    pass


class QI(Q):
    """A Q that came from an integer literal / integer arithmetic (numpy would give it an integer
    dtype); value semantics are identical to Q."""
    __slots__ = ()
    _int_literal = True


def is_intlike(x):
    return (isinstance(x, (int, QI)) and not isinstance(x, float)) or type(x).__name__ == "SymI"


_INT_CLOSED = {"__add__", "__radd__", "__sub__", "__rsub__", "__mul__", "__rmul__", "__neg__", "__pos__",
               "__abs__", "__floordiv__", "__rfloordiv__", "__mod__", "__rmod__"}


for _n in ("__add__", "__radd__", "__sub__", "__rsub__", "__mul__", "__rmul__", "__truediv__",
           "__rtruediv__", "__neg__", "__pos__", "__abs__", "__floordiv__", "__rfloordiv__",
           "__mod__", "__rmod__"):
    setattr(Q, _n, _wrapQ(_n))


def _q_pow(a, b):
    if isinstance(b, (Sym,)):
        return NotImplemented
    if hasattr(b, "__array_priority_sx__"):
        return NotImplemented
    if isinstance(b, float):
        b = Fraction(repr(b))
    b = Fraction(b)
    if b.denominator == 1:
        if a == 0 and b < 0:
            raise ZeroDivisionError("0 ** negative")
        r = Fraction.__pow__(Fraction(a), int(b))
        return QI(r) if isinstance(a, QI) and b >= 0 else Q(r)
    if a == 0 and b > 0:
        return Q(0)
    if a == 1:
        return Q(1)
    return lift(a) ** lift(b)


def _q_rpow(a, b):
    return _q_pow(Q(Fraction(repr(b)) if isinstance(b, float) else b), a)


Q.__pow__ = _q_pow
Q.__rpow__ = _q_rpow


def K(txt: str) -> Q:
    """Literal constructor used by the AST rewrite: exact decimal value of the source literal."""
    if txt.lstrip("-").isdigit():
        return QI(txt)
    return Q(txt)


# --------------------------------------------------------------------------- context

class PathAbort(BaseException):
    """Raised inside the code under analysis to abandon the current path (infeasible)."""


class Context:
    """State of one symbolic execution path."""
    current: "Context | None" = None

    def __init__(self, assumptions=(), prefix=(), feasible=None, max_decisions=64):
        self.assumptions: list = []                   # BoolT, hold on every path
        self.prefix = list(prefix)                    # forced decisions (bool) in order
        self.decisions: list = []                     # (BoolT, value) taken on this path
        self.known: dict = {}                         # BoolT.id -> value
        self.alternatives: list = []                  # prefixes still to explore
        self.defined: list = []                       # (BoolT, description) definedness conditions
        self.feasible = feasible                      # callable(list[BoolT]) -> 'sat'|'unsat'|'unknown'
        self.max_decisions = max_decisions
        self.notes: list = []
        self.subst: dict = {}                         # var Atom -> Poly, from equalities decided true on this path
        for a in assumptions:
            self.assume(a)

    # --- assumptions / definedness
    def assume(self, b):
        b = b.node if isinstance(b, SymBool) else b
        if isinstance(b, bool):
            if not b:
                raise PathAbort()
            return
        if b.kind == "const":
            if not b.args[0]:
                raise PathAbort()
            return
        self.assumptions.append(b)
        if b.kind == "not":
            self.known.setdefault(b.args[0].id, False)
        elif b.kind == "and":
            for a in b.args:
                if a.kind == "not":
                    self.known.setdefault(a.args[0].id, False)
                else:
                    self.known.setdefault(a.id, True)
        else:
            self.known.setdefault(b.id, True)

    def require(self, b: BoolT, why: str):
        """Record a definedness condition (denominator non-zero, ln argument positive ...)."""
        if b.kind == "const":
            if not b.args[0]:
                self.defined.append((b, why))
            return
        self.defined.append((b, why))

    def path_condition(self):
        out = []
        for b, v in self.decisions:
            out.append(b if v else T.b_not(b))
        return out

    # --- decisions
    def decide(self, b: BoolT) -> bool:
        if b.kind == "const":
            return b.args[0]
        neg = False
        if b.kind == "not":
            b, neg = b.args[0], True
        v = self.known.get(b.id)
        if v is not None:
            return v != neg
        k = len(self.decisions)
        if k < len(self.prefix):
            v = self.prefix[k]
        else:
            if k >= self.max_decisions:
                raise Unsupported("too many symbolic decisions on one path")
            pc = self.assumptions + self.path_condition()
            st = self._feas(pc + [b])
            sf = self._feas(pc + [T.b_not(b)])
            if st == "unsat" and sf == "unsat":
                raise PathAbort()
            if st == "unsat":
                v = False
            elif sf == "unsat":
                v = True
            else:
                v = True
                self.alternatives.append([d for _, d in self.decisions] + [False])
        self.decisions.append((b, v))
        self.known[b.id] = v
        if v and b.kind == "eq0":
            self._learn_equality(b.args[0])
        return v != neg

    # --- equalities decided on this path, as a substitution (used to recognise systems / values that are
    #     equal *under the path condition*; every use is an equivalence given the path condition)
    def _learn_equality(self, p):
        try:
            q = T.substitute(p, self.subst) if self.subst else p
            sol = T.linear_solution(q)
            if sol is None:
                return
            v, expr = sol
            if any(a.kind not in ("var",) for a in T.collect_atoms([expr])):
                return
            self.subst = {k: T.substitute(e, {v: expr}) for k, e in self.subst.items()}
            self.subst[v] = expr
        except (ZeroDivisionError, Unsupported):
            return

    def normal(self, p):
        """p rewritten with the equalities decided true on this path (equal to p under the path condition)."""
        if not self.subst:
            return p
        try:
            return T.substitute(p, self.subst)
        except (ZeroDivisionError, Unsupported):
            return p

    def _feas(self, conds):
        if self.feasible is None:
            return "unknown"
        return self.feasible(conds)


def ctx() -> Context:
    c = Context.current
    if c is None:
        raise RuntimeError("no active symbolic context")
    return c


class PathResult:
    def __init__(self, context, value=None, exc=None):
        self.ctx = context
        self.value = value
        self.exc = exc

    @property
    def pc(self):
        return self.ctx.assumptions + self.ctx.path_condition()


PATH_RESETS = []         # callables run before every path (the loader registers one per loaded module)


def explore(fn, assumptions=(), feasible=None, max_paths=4096, catch=(Exception,), setup=None):
    """Run fn() under every feasible combination of symbolic decisions.

    Returns a list of PathResult (value or the exception the code raised on that path).
    `setup(ctx)` is called at the start of every path (to declare inputs and assumptions)."""
    results = []
    stack = [[]]
    while stack:
        prefix = stack.pop()
        for r in PATH_RESETS:
            r()                      # state the analysed modules keep between calls (memoised functions) starts empty on every path
        c = Context(assumptions, prefix, feasible)
        prev = Context.current
        Context.current = c
        try:
            try:
                if setup is not None:
                    setup(c)
                v = fn()
                results.append(PathResult(c, value=v))
            except PathAbort:
                pass
            except Unsupported:
                raise
            except catch as ex:  # the code under analysis raised: that is an outcome
                results.append(PathResult(c, exc=ex))
        finally:
            Context.current = prev
        stack.extend(c.alternatives)
        if len(results) + len(stack) > max_paths:
            raise Unsupported(f"more than {max_paths} paths")
    return results


# --------------------------------------------------------------------------- symbolic booleans

class SymBool:
    __slots__ = ("node",)

    def __init__(self, node: BoolT):
        self.node = node

    def __bool__(self):
        if self.node.kind == "const":
            return self.node.args[0]
        return ctx().decide(self.node)

    def __and__(self, o):
        return SymBool(T.b_and(self.node, as_bool(o)))

    __rand__ = __and__

    def __or__(self, o):
        return SymBool(T.b_or(self.node, as_bool(o)))

    __ror__ = __or__

    def __invert__(self):
        return SymBool(T.b_not(self.node))

    def __repr__(self):
        return f"SymBool({self.node!r})"


def as_bool(x) -> BoolT:
    if isinstance(x, SymBool):
        return x.node
    if isinstance(x, BoolT):
        return x
    if isinstance(x, (bool,)) or type(x).__name__ == "bool_":
        return T.b_const(bool(x))
    raise TypeError(f"not a boolean: {type(x)}")


# --------------------------------------------------------------------------- symbolic reals

def _is_num(x):
    return isinstance(x, (int, Fraction)) and not isinstance(x, bool)


def lift(x) -> "Sym":
    if isinstance(x, Sym):
        return x
    if isinstance(x, bool):
        return Sym(Poly.const(int(x)))
    if isinstance(x, (int, Fraction)):
        return Sym(Poly.const(Fraction(x)))
    if isinstance(x, float):
        if math.isinf(x) or math.isnan(x):
            raise Unsupported(f"float {x} in symbolic arithmetic")
        return Sym(Poly.const(Fraction(repr(x))))
    if isinstance(x, SymBool):
        return Sym(T.mkITE(x.node, T.ONE, T.ZERO))
    if type(x).__module__ == "numpy" and hasattr(x, "item"):
        return lift(x.item())
    if hasattr(x, "__sx_scalar__"):
        return lift(x.__sx_scalar__())          # a 0-d array reads like its value
    raise TypeError(f"cannot lift {type(x).__name__} to a symbolic real")


def concrete(x):
    """Return Q if x denotes a constant, else None."""
    if isinstance(x, Sym):
        if x.p.is_const():
            return Q(x.p.const_value())
        return None
    if isinstance(x, bool):
        return Q(int(x))
    if isinstance(x, (int, Fraction)):
        return Q(x)
    if isinstance(x, float) and not (math.isinf(x) or math.isnan(x)):
        return Q(repr(x))
    return None


class Sym:
    """A symbolic real number (canonical polynomial over atoms)."""
    __slots__ = ("p",)
    __array_priority_sx_scalar__ = True

    def __init__(self, p: Poly):
        self.p = p

    # -- arithmetic
    def _other(self, o):
        if isinstance(o, Sym):
            return o.p
        if hasattr(o, "__array_priority_sx__"):
            return None
        try:
            return lift(o).p
        except TypeError:
            return None

    # a symbolic value is a finite real: adding it to an infinity gives that infinity (IEEE), as a Python float
    def __add__(self, o):
        if isinstance(o, float) and math.isinf(o):
            return o
        q = self._other(o)
        return NotImplemented if q is None else simp(T.p_add(self.p, q))

    __radd__ = __add__

    def __sub__(self, o):
        if isinstance(o, float) and math.isinf(o):
            return -o
        q = self._other(o)
        return NotImplemented if q is None else simp(T.p_sub(self.p, q))

    def __rsub__(self, o):
        if isinstance(o, float) and math.isinf(o):
            return o
        q = self._other(o)
        return NotImplemented if q is None else simp(T.p_sub(q, self.p))

    def __mul__(self, o):
        q = self._other(o)
        return NotImplemented if q is None else simp(T.p_mul(self.p, q))

    __rmul__ = __mul__

    def __truediv__(self, o):
        q = self._other(o)
        if q is None:
            return NotImplemented
        return simp(_div(self.p, q))

    def __rtruediv__(self, o):
        q = self._other(o)
        if q is None:
            return NotImplemented
        return simp(_div(q, self.p))

    def __neg__(self):
        return Sym(T.p_neg(self.p))

    def __pos__(self):
        return self

    def __abs__(self):
        if T.is_nonneg(self.p):
            return self
        return Sym(T.mkITE(T.b_le0(T.p_neg(self.p)), self.p, T.p_neg(self.p)))

    def __pow__(self, o):
        if hasattr(o, "__array_priority_sx__"):
            return NotImplemented
        return _pow(self, o)

    def __rpow__(self, o):
        return _pow(o, self)

    # -- comparisons (a symbolic value is a finite real: comparisons with +-inf are concrete)
    def __le__(self, o):
        if isinstance(o, float) and math.isinf(o):
            return o > 0
        return SymBool(T.b_le(self.p, lift(o).p))

    def __lt__(self, o):
        if isinstance(o, float) and math.isinf(o):
            return o > 0
        return SymBool(T.b_lt(self.p, lift(o).p))

    def __ge__(self, o):
        if isinstance(o, float) and math.isinf(o):
            return o < 0
        return SymBool(T.b_ge(self.p, lift(o).p))

    def __gt__(self, o):
        if isinstance(o, float) and math.isinf(o):
            return o < 0
        return SymBool(T.b_gt(self.p, lift(o).p))

    def __eq__(self, o):
        try:
            return SymBool(T.b_eq(self.p, lift(o).p))
        except TypeError:
            return False

    def __ne__(self, o):
        try:
            return SymBool(T.b_ne(self.p, lift(o).p))
        except TypeError:
            return True

    def __hash__(self):
        # structural: the same term hashes alike (a dict / set keyed on a symbolic value finds the *same* value again,
        # e.g. a module-level cache keyed on an argument); two different terms that happen to be numerically equal are
        # treated as different keys (an under-approximation of float keys, stated in DESIGN.md)
        return hash(("Sym", self.p.key()))

    def __bool__(self):
        return bool(self != 0)

    def __float__(self):
        c = concrete(self)
        if c is None:
            raise Unsupported("float() of a symbolic value")
        return float(c)

    def __index__(self):
        c = concrete(self)
        if c is None:
            raise Unsupported("symbolic value used as an index")
        return c.__index__()

    def __int__(self):
        c = concrete(self)
        if c is None:
            raise Unsupported("int() of a symbolic value")
        return int(c)

    def __repr__(self):
        return f"Sym({self.p!r})"

    def __format__(self, spec):
        return repr(self)


class SymI(Sym):
    """A symbolic *Python int* (an integer-valued symbolic scalar whose kind matters to numpy's dtype rules:
    `int array * python int` stays integer, `np.result_type(int array, python int)` is integer).  Closed under
    + - * unary minus, abs and non-negative integer powers with int-like operands; anything else gives a plain Sym."""
    __slots__ = ()


def _int_closed(name):
    base = getattr(Sym, name)

    def g(self, *o):
        r = base(self, *o)
        if o and not is_intlike(o[0]):
            return r
        if name == "__pow__":
            c = concrete(o[0])
            if c is None or c < 0:
                return r
        if type(r) is Sym:
            return SymI(r.p)
        if isinstance(r, Q) and not isinstance(r, QI) and r.denominator == 1:
            return QI(r)
        return r
    g.__name__ = name
    return g


for _n in ("__add__", "__radd__", "__sub__", "__rsub__", "__mul__", "__rmul__", "__neg__", "__abs__", "__pow__"):
    setattr(SymI, _n, _int_closed(_n))


class SymBox(Sym):
    """A symbolic value held in a *mutable* container - a 0-d numpy array passed where a scalar is expected.  It reads like
    the value; in-place operators (`x *= y`, `x += y`, ...) write the result back into the same object, as numpy does
    for a 0-d array, so every alias of it (the caller's variable included) sees the change."""
    __slots__ = ()

    def _inplace(self, r):
        if not isinstance(r, Sym):
            r = lift(r)
        self.p = r.p
        return self

    def __iadd__(self, o): return self._inplace(Sym(self.p) + o)
    def __isub__(self, o): return self._inplace(Sym(self.p) - o)
    def __imul__(self, o): return self._inplace(Sym(self.p) * o)
    def __itruediv__(self, o): return self._inplace(Sym(self.p) / o)
    def __ipow__(self, o): return self._inplace(Sym(self.p) ** o)

    # numpy-array surface a 0-d array has
    ndim = 0
    shape = ()
    size = 1

    def copy(self):
        return Sym(self.p)

    def item(self):
        return Sym(self.p)


def simp(p: Poly):
    """Concrete results come back as Q so that Python-level uses (range, indices) keep working."""
    if p.is_const():
        return Q(p.const_value())
    return Sym(p)


def _div(a: Poly, b: Poly) -> Poly:
    if b.is_zero():
        raise ZeroDivisionError("symbolic division by the constant 0")
    if not b.is_const() and not T.is_pos(b) and not T.is_pos(T.p_neg(b)):
        c = Context.current
        if c is not None:
            c.require(T.b_not(T.b_eq0(b)), f"divisor non-zero: {b!r}")
    return T.p_div(a, b)


def _pow(a, b):
    cb = concrete(b)
    ca = concrete(a)
    if cb is not None and cb.denominator == 1:
        n = int(cb)
        if ca is not None:
            return Q(Fraction(ca) ** n)
        A = lift(a).p
        if n < 0 and not T.is_pos(A):
            c = Context.current
            if c is not None:
                c.require(T.b_not(T.b_eq0(A)), f"base of negative power non-zero: {A!r}")
        return simp(T.p_powi(A, n))
    if ca is not None:
        if ca == 0:
            if cb is not None and cb > 0:
                return Q(0)
            raise Unsupported("0 ** symbolic exponent")
        if ca == 1:
            return Q(1)
        if ca < 0:
            raise Unsupported("negative constant to a non-integer power")
        return simp(T.mkE(T.p_mul(lift(b).p, T.log_const(ca))))
    A = lift(a).p
    B = lift(b).p
    if T.is_pos(A):
        return simp(T.mkPOWF(A, B))
    # base may be zero or negative: numpy gives 0 for 0**y (y > 0) and nan for a negative base
    c = Context.current
    if c is not None:
        c.require(T.b_le0(T.p_neg(A)), f"negative base under a non-integer power gives nan: {A!r}")
        c.require(T.b_or(T.b_not(T.b_le0(A)), T.b_not(T.b_le0(B))), f"0 ** non-positive exponent: {A!r}")
    return simp(T.mkITE(T.b_not(T.b_le0(A)), T.mkPOWF(A, B, guarded=True), T.ZERO))


# --------------------------------------------------------------------------- elementary functions

def s_exp(x):
    c = concrete(x)
    if c is not None and c == 0:
        return Q(1)
    return simp(T.mkE(lift(x).p))


def s_log(x):
    c = concrete(x)
    if c is not None:
        if c <= 0:
            raise ValueError("math domain error")
        return simp(T.log_const(c))
    A = lift(x).p
    if not T.is_pos(A):
        cx = Context.current
        if cx is not None:
            cx.require(T.b_not(T.b_le0(A)), f"argument of log positive: {A!r}")
    return simp(T.mkLOG(A))


def s_sqrt(x):
    c = concrete(x)
    if c is not None:
        if c < 0:
            raise ValueError("math domain error")
        n, d = math.isqrt(c.numerator), math.isqrt(c.denominator)
        if n * n == c.numerator and d * d == c.denominator:
            return Q(Fraction(n, d))
    return _pow(x, Q(1, 2))


def s_abs(x):
    if isinstance(x, Sym):
        return abs(x)
    return abs(x)


def known_truth(node: BoolT):
    """Truth value of a condition already decided on the current path (or None)."""
    if node.kind == "const":
        return node.args[0]
    c = Context.current
    if c is None:
        return None
    neg = False
    if node.kind == "not":
        node, neg = node.args[0], True
    v = c.known.get(node.id)
    if v is None:
        return None
    return v != neg


def s_min(a, b):
    ca, cb = concrete(a), concrete(b)
    if ca is not None and cb is not None:
        return ca if ca <= cb else cb
    A, B = lift(a).p, lift(b).p
    c = T.b_le(A, B)
    k = known_truth(c)
    if k is not None:
        return a if k else b
    return simp(T.mkITE(c, A, B))


def s_max(a, b):
    ca, cb = concrete(a), concrete(b)
    if ca is not None and cb is not None:
        return ca if ca >= cb else cb
    A, B = lift(a).p, lift(b).p
    c = T.b_le(B, A)
    k = known_truth(c)
    if k is not None:
        return a if k else b
    return simp(T.mkITE(c, A, B))


def s_ite(cond, a, b):
    cn = as_bool(cond)
    k = known_truth(cn)
    if k is not None:
        return a if k else b
    return simp(T.mkITE(cn, lift(a).p, lift(b).p))


def fresh(name, pos=False, integer=False) -> Sym:
    return (SymI if integer else Sym)(T.var(name, pos))
