#!/bin/sh
# Build the offline overlay environment used by every check.
# /verif/.venv = a venv on top of /venv's interpreter that sees /venv's site-packages
# (numpy, scipy, pandas, lmfit, matplotlib and bluebonnet itself) read-only, plus the
# solver wheels from /opt/veriftools/wheels.  Idempotent; safe to call from every check.
set -e
HERE="$(cd "$(dirname "$0")" && pwd)"
V="$HERE/.venv"
if [ -x "$V/bin/python" ] && "$V/bin/python" -c "import z3, numpy, scipy" >/dev/null 2>&1; then
    exit 0
fi
(
  flock 9
  if [ -x "$V/bin/python" ] && "$V/bin/python" -c "import z3, numpy, scipy" >/dev/null 2>&1; then
      exit 0
  fi
  rm -rf "$V"
  /venv/bin/python -m venv "$V"
  SP="$("$V/bin/python" -c 'import sysconfig; print(sysconfig.get_paths()["purelib"])')"
  printf '%s\n' "import site; site.addsitedir('/venv/lib/python3.12/site-packages')" > "$SP/_verif_overlay.pth"
  PIP_NO_INDEX=1 "$V/bin/python" -m pip install -q --no-index --find-links /opt/veriftools/wheels z3-solver cvc5 crosshair-tool jsonschema >/dev/null
  "$V/bin/python" -c "import z3, numpy, scipy; print('overlay ok', z3.get_version_string(), numpy.__version__, scipy.__version__)"
) 9>"$HERE/.venv.lock"
